package main

// Name-position rules: a name is only taken from a token that was tested to be
// an identifier (R-NAMETOKEN); constants are merged only when type and printed
// form both agree (R-CONSTDEDUP).

import (
	"fmt"
	"go/ast"
	"go/constant"
	"go/token"
	"go/types"
	"strings"

	"golang.org/x/tools/go/ssa"
)

func init() {
	register(&Rule{ID: "R-NAMETOKEN", Floor: 5, Run: ruleNameToken,
		Text: "Wherever the parser takes a name from the current token — a function's name, a parameter, a foreach variable or index, a local — that token was tested to be an identifier (current-token test, peek test followed by one advance, or a successful expectation) with no other advance in between; an illegal character or a literal in a name position is an error."})
	register(&Rule{ID: "R-CONSTDEDUP", Floor: 1, Run: ruleConstDedup,
		Text: "The constant pool merges two constants only when both their type and their printed form are equal: a string, a regexp, a float and a large integer that print alike stay distinct constants.  A path of the pool function that hands out an existing index by other means than that comparison (an index keyed by something) is reported as undecided."})
}

// nameSink describes a store of token-derived data into a name position.
type nameSink struct {
	fn    *ssa.Function
	load  ssa.Instruction // the load of Parser.curToken the name comes from
	what  string
	where token.Pos
}

func ruleNameToken(p *Program, r *Reporter) {
	pr := resolveParserRoles(p, r)
	if pr == nil {
		return
	}
	ident, ok := tokenConst(p, "IDENT")
	if !ok {
		r.Undecided("token.IDENT", "-", "cannot read the constant")
		return
	}
	// role helpers: curTokenIs / peekTokenIs: (token.Type) bool reading cur/peek token
	var curIs, peekIs *ssa.Function
	for _, fn := range pr.all {
		if fn.Parent() != nil || pr.isExpect(fn) {
			continue
		}
		ps, rs := sigParams(fn), sigResults(fn)
		if len(ps) != 1 || !isNamed(ps[0], "token", "Type") || len(rs) != 1 || !isBoolType(rs[0]) {
			continue
		}
		for _, b := range fn.Blocks {
			for _, ins := range b.Instrs {
				if fa, ok := ins.(*ssa.FieldAddr); ok {
					switch fieldKey(fa) {
					case "parser.Parser.curToken":
						curIs = fn
					case "parser.Parser.peekToken":
						peekIs = fn
					}
				}
			}
		}
	}
	// the parselet registered for the IDENT token: its token kind is guaranteed
	// by the dispatch
	identParselet := map[*ssa.Function]bool{}
	for _, rg := range registrations(p) {
		if rg.tok == ident && rg.method != nil {
			identParselet[rg.method] = true
		}
	}
	isIdentConst := func(v ssa.Value) bool {
		c, ok := v.(*ssa.Const)
		return ok && c.Value != nil && c.Value.Kind() == constant.String && constant.StringVal(c.Value) == ident
	}
	// name positions: (struct, field) pairs of package ast that hold a name
	namePos := map[string]bool{
		"ast.Identifier.Value": true, "ast.Identifier.Token": true,
		"ast.ForeachStatement.Ident": true, "ast.ForeachStatement.Index": true,
		"ast.FunctionDefinition.Token": true, "ast.LocalVariable.Token": true,
	}
	var sinks []nameSink
	for _, fn := range pr.all {
		if identParselet[fn] {
			continue
		}
		for _, b := range fn.Blocks {
			for _, ins := range b.Instrs {
				st, ok := ins.(*ssa.Store)
				if !ok {
					continue
				}
				k := fieldKey(st.Addr)
				if !namePos[k] {
					continue
				}
				// value derives from a load of Parser.curToken (whole token or .Literal)
				var load ssa.Instruction
				var find func(v ssa.Value, d int)
				find = func(v ssa.Value, d int) {
					if v == nil || d > 6 || load != nil {
						return
					}
					switch x := v.(type) {
					case *ssa.UnOp:
						if x.Op == token.MUL {
							if fieldKey(x.X) == "parser.Parser.curToken" {
								load = x
								return
							}
							find(x.X, d+1)
						}
					case *ssa.FieldAddr:
						if fieldKey(x) == "parser.Parser.curToken" {
							load = x
							return
						}
						find(x.X, d+1)
					case *ssa.Field:
						find(x.X, d+1)
					case *ssa.Phi:
						for _, e := range x.Edges {
							find(e, d+1)
						}
					}
				}
				find(st.Val, 0)
				if load == nil {
					continue // copied from another node's name (foreach index := ident): that one is its own sink
				}
				sinks = append(sinks, nameSink{fn, load, k, st.Pos()})
			}
		}
	}
	postfixOperand(p, r, pr, isIdentConst)
	if len(sinks) == 0 {
		r.Undecided("name positions", "-", "no store of a token into a name position of the syntax tree found")
		return
	}
	for _, s := range sinks {
		key := p.FnName(s.fn) + "/name for " + s.what + " comes from an identifier token"
		ok, why := identGuarded(s.load, pr, curIs, peekIs, isIdentConst)
		if ok {
			r.OkNT(key, p.Pos(s.where), why)
		} else {
			r.Fail(key, p.Pos(s.where), why+": any token — an illegal character, a number, a string — is accepted as the name, so the invalid script is accepted by Prepare")
		}
	}
}

// postfixOperand: ++ and -- name their variable by the token before them
// (the previous token); that token must have been tested to be an identifier.
func postfixOperand(p *Program, r *Reporter, pr *parserRoles, isIdent func(ssa.Value) bool) {
	for _, fn := range pr.all {
		for _, b := range fn.Blocks {
			for _, ins := range b.Instrs {
				st, ok := ins.(*ssa.Store)
				if !ok || fieldKey(st.Addr) != "ast.PostfixExpression.Token" {
					continue
				}
				key := p.FnName(fn) + "/operand of a postfix operator is an identifier token"
				// the value: a load of a token field of the parser other than the current token
				ld, ok := st.Val.(*ssa.UnOp)
				if !ok {
					r.Undecided(key, p.Pos(st.Pos()), "the operand token is not loaded from the parser")
					continue
				}
				src := fieldKey(ld.X)
				good := false
				for cur := st.Block(); cur.Idom() != nil && !good; cur = cur.Idom() {
					d := cur.Idom()
					iff, ok := terminator(d).(*ssa.If)
					if !ok {
						continue
					}
					bo, ok := iff.Cond.(*ssa.BinOp)
					if !ok {
						continue
					}
					// <src>.Type == IDENT / != IDENT
					var other ssa.Value
					if typeOfToken(bo.X) == src {
						other = bo.Y
					} else if typeOfToken(bo.Y) == src {
						other = bo.X
					}
					if other == nil || !isIdent(other) {
						continue
					}
					t, f := d.Succs[0], d.Succs[1]
					onT := t == st.Block() || t.Dominates(st.Block())
					onF := f == st.Block() || f.Dominates(st.Block())
					if (bo.Op == token.EQL && onT && !onF) || (bo.Op == token.NEQ && onF && !onT) {
						good = true
					}
				}
				r.Check(good, key, p.Pos(st.Pos()), "the token before the operator was tested to be an identifier", "the variable a postfix ++/-- applies to is named by the token before the operator, whatever that token is: `1++;`, `\"s\"--;` and `a[0]++;` are accepted by Prepare (and increment a variable called \"1\", \"s\" or \"]\")")
			}
		}
	}
}

// typeOfToken: v is a load of <parser token field>.Type; returns the field key.
func typeOfToken(v ssa.Value) string {
	ld, ok := v.(*ssa.UnOp)
	if !ok || ld.Op != token.MUL {
		return ""
	}
	fa, ok := ld.X.(*ssa.FieldAddr)
	if !ok {
		return ""
	}
	if _, f, ok := fieldOf(fa); !ok || f != "Type" {
		return ""
	}
	return fieldKey(fa.X)
}

// identGuarded walks backwards from the load of the current token: before any
// other token movement there must be a successful identifier test.
func identGuarded(load ssa.Instruction, pr *parserRoles, curIs, peekIs *ssa.Function, isIdent func(ssa.Value) bool) (bool, string) {
	good := true
	why := ""
	// onSuccessEdge: call c (bool) guards `at` through its true edge (or the
	// false edge of its negation)
	guards := func(c *ssa.Call, at ssa.Instruction) bool { return expectSuccessDominates(c, at) }
	seenAdvance := map[*ssa.BasicBlock]bool{}
	_ = seenAdvance
	var walk func(b *ssa.BasicBlock, i int, advanced int, seen map[*ssa.BasicBlock]int)
	walk = func(b *ssa.BasicBlock, i int, advanced int, seen map[*ssa.BasicBlock]int) {
		for ; i >= 0; i-- {
			c, ok := b.Instrs[i].(*ssa.Call)
			if !ok {
				continue
			}
			cal := c.Call.StaticCallee()
			switch {
			case cal == curIs && curIs != nil && isIdent(c.Call.Args[1]) && advanced == 0:
				if guards(c, load) {
					return // guarded on this path
				}
			case pr.isExpect(cal) && isIdent(c.Call.Args[1]) && advanced == 0:
				if guards(c, load) {
					return
				}
				good, why = false, "an identifier is expected but the result of the expectation does not guard the use"
				return
			case cal == peekIs && peekIs != nil && isIdent(c.Call.Args[1]) && advanced == 1:
				if guards(c, load) {
					return
				}
			case cal == pr.advance || pr.isExpect(cal):
				advanced++
				if advanced > 1 {
					good, why = false, "the token the name is taken from was reached by advancing without any test that it is an identifier"
					return
				}
			default:
				if cal != nil && pr.parseFns[cal] {
					good, why = false, "a sub-parser ran since the last identifier test"
					return
				}
			}
		}
		if len(b.Preds) == 0 {
			good, why = false, "no identifier test on a path from the function's entry"
			return
		}
		for _, pd := range b.Preds {
			if n, ok := seen[pd]; ok && n <= advanced {
				continue
			}
			seen[pd] = advanced
			walk(pd, len(pd.Instrs)-1, advanced, seen)
			if !good {
				return
			}
		}
	}
	walk(load.Block(), instrIndex(load)-1, 0, map[*ssa.BasicBlock]int{})
	if good {
		return true, "guarded by an identifier test with no untested advance"
	}
	return false, why
}

// ---------------------------------------------------------------------------
// R-CONSTDEDUP

func ruleConstDedup(p *Program, r *Reporter) {
	a := needAnchors(p, r)
	if a == nil {
		return
	}
	fd := p.FuncDecl(a.addConstant)
	if fd == nil {
		r.Undecided("constant pool", "-", "no syntax for the constant-pool function")
		return
	}
	// the loop over existing constants with an early return of the index
	var cond ast.Expr
	n := 0
	// the search may sit in the pool function itself or in a function it calls
	// for the lookup
	bodies := []*ast.BlockStmt{fd.Body}
	for _, g := range staticCalleesWithin(p, a.addConstant, 1) {
		if gd := p.FuncDecl(g); gd != nil && gd.Body != nil && fnPkg(g) != nil && fnPkg(g).Pkg.Path() == Mod {
			bodies = append(bodies, gd.Body)
		}
	}
	for _, body := range bodies {
		ast.Inspect(body, func(nd ast.Node) bool {
			rs, ok := nd.(*ast.RangeStmt)
			if !ok {
				return true
			}
			for _, st := range rs.Body.List {
				iff, ok := st.(*ast.IfStmt)
				if !ok {
					continue
				}
				for _, b := range iff.Body.List {
					if _, isRet := b.(*ast.ReturnStmt); isRet {
						cond = iff.Cond
						n++
					}
				}
			}
			return true
		})
	}
	key := "constants are merged only on equal type and equal printed form"
	if n == 0 {
		// a return that is not preceded by the append hands out the index of
		// an existing constant: that is a merge, by whatever means
		var app *ssa.Store
		for _, b := range a.addConstant.Blocks {
			for _, ins := range b.Instrs {
				if st, ok := ins.(*ssa.Store); ok && fieldKey(st.Addr) == "evalfilter.Eval.constants" {
					app = st
				}
			}
		}
		merges := token.NoPos
		for _, b := range a.addConstant.Blocks {
			if ret, ok := terminator(b).(*ssa.Return); ok && (app == nil || !(app.Block() == b || app.Block().Dominates(b))) {
				merges = ret.Pos()
			}
		}
		if merges.IsValid() {
			if ok, why := constIndexForm(p, a); ok {
				r.OkNT(key, p.Pos(merges), why)
				return
			}
			r.Undecided(key, p.Pos(merges), "the pool hands out the index of an existing constant on a path this rule does not understand (not a search that compares Type() and Inspect() of each entry — an index keyed by the printed form alone would merge 1 and \"1\", or /count/ and the name count): whether only equal constants are merged is not decided")
			return
		}
		r.OkNT(key, p.Pos(fd.Pos()), "the pool never merges constants")
		return
	}
	if n > 1 {
		r.Undecided(key, p.Pos(fd.Pos()), "more than one merging condition")
		return
	}
	ok, why := typeAndTextEquality(cond)
	_ = types.Typ
	_ = strings.Contains
	r.Check(ok, key, p.Pos(cond.Pos()), "Type() and Inspect() both equal", fmt.Sprintf("the constant pool reuses an existing constant for a new literal without requiring equal type and equal printed form (%s): a later literal of another kind that prints the same (\"3.5\" and 3.5, \"ab+\" and /ab+/, 100000 and \"100000\") silently takes the earlier one's value and type", why))
}

// constIndexForm: the pool finds an existing constant through an index — a
// map from (type, printed form) of a constant to its slot.  The key of every
// look-up and of every insertion is a struct holding both Type() and Inspect()
// of the constant being added; the slot recorded is the length of the pool
// before the constant is appended; the index is only written in the pool
// function; and whoever empties the pool empties the index too.
func constIndexForm(p *Program, a *anchors) (bool, string) {
	fn := a.addConstant
	if len(fn.Params) < 2 {
		return false, ""
	}
	obj := ssa.Value(fn.Params[1])
	keyOK := func(k ssa.Value) bool {
		ld, ok := k.(*ssa.UnOp)
		if !ok || ld.Op != token.MUL {
			return false
		}
		al, ok := ld.X.(*ssa.Alloc)
		if !ok {
			return false
		}
		hasType, hasText := false, false
		for _, ref := range *al.Referrers() {
			fa, ok := ref.(*ssa.FieldAddr)
			if !ok {
				continue
			}
			for _, r2 := range *fa.Referrers() {
				st, ok := r2.(*ssa.Store)
				if !ok {
					continue
				}
				c, ok := st.Val.(*ssa.Call)
				if !ok || !c.Call.IsInvoke() || c.Call.Value != obj {
					return false
				}
				switch c.Call.Method.Name() {
				case "Type":
					hasType = true
				case "Inspect":
					hasText = true
				default:
					return false
				}
			}
		}
		return hasType && hasText
	}
	var lookups []*ssa.Lookup
	var inserts []*ssa.MapUpdate
	index := ""
	for _, b := range fn.Blocks {
		for _, ins := range b.Instrs {
			switch x := ins.(type) {
			case *ssa.Lookup:
				if ld, ok := x.X.(*ssa.UnOp); ok && fieldKey(ld.X) != "" && x.CommaOk {
					lookups = append(lookups, x)
					index = fieldKey(ld.X)
				}
			case *ssa.MapUpdate:
				if ld, ok := x.Map.(*ssa.UnOp); ok && fieldKey(ld.X) != "" {
					inserts = append(inserts, x)
				}
			}
		}
	}
	if len(lookups) != 1 || len(inserts) != 1 || index == "" {
		return false, ""
	}
	if ld := inserts[0].Map.(*ssa.UnOp); fieldKey(ld.X) != index {
		return false, ""
	}
	if !keyOK(lookups[0].Index) || !keyOK(inserts[0].Key) {
		return false, ""
	}
	// the slot: the length of the pool read before the append
	var app *ssa.Store
	for _, b := range fn.Blocks {
		for _, ins := range b.Instrs {
			if st, ok := ins.(*ssa.Store); ok && fieldKey(st.Addr) == "evalfilter.Eval.constants" {
				app = st
			}
		}
	}
	lc, isLen := isBuiltinCall(inserts[0].Value, "len")
	if app == nil || !isLen || !dominatesInstr(lc, app) {
		return false, ""
	}
	if l2, ok := lc.Call.Args[0].(*ssa.UnOp); !ok || fieldKey(l2.X) != "evalfilter.Eval.constants" {
		return false, ""
	}
	// the index is written nowhere else, and emptied with the pool
	for _, g := range p.LibFns {
		for _, b := range g.Blocks {
			for _, ins := range b.Instrs {
				if mu, ok := ins.(*ssa.MapUpdate); ok && g != fn {
					if ld, ok := mu.Map.(*ssa.UnOp); ok && fieldKey(ld.X) == index {
						return false, ""
					}
				}
			}
		}
	}
	emptiesIndex := func(ins ssa.Instruction) bool {
		st, ok := ins.(*ssa.Store)
		if !ok || fieldKey(st.Addr) != index {
			return false
		}
		_, isMake := st.Val.(*ssa.MakeMap)
		return isMake
	}
	for _, g := range p.LibFns {
		if g == fn {
			continue
		}
		for _, b := range g.Blocks {
			for _, ins := range b.Instrs {
				st, ok := ins.(*ssa.Store)
				if !ok || fieldKey(st.Addr) != "evalfilter.Eval.constants" {
					continue
				}
				// somewhere in the same function (or a function it calls on
				// every path) the index is emptied as well
				together := false
				for _, i2 := range b.Instrs {
					if performs(i2, emptiesIndex, 2) {
						together = true
					}
				}
				if !together {
					return false, ""
				}
			}
		}
	}
	return true, "the pool finds an existing constant through an index keyed by Type() and Inspect() of the constant; the slot recorded is the pool's length before the append; the index is written only here and emptied wherever the pool is"
}
