package main

import (
	"go/ast"
	"go/constant"
	"go/token"
	"go/types"
	"sort"
	"strings"

	"golang.org/x/tools/go/ssa"
)

// Helpers for looking through extracted functions.
//
// A maintainer may move the body of a case, a block or a repeated expression
// into a function of its own without changing anything the program does.  The
// rules are written against constructs ("the case that translates a switch",
// "the call that patches a jump"), not against the function the construct's
// text happens to sit in; these helpers find the construct again.

// Home: for a library function that is called from exactly one instruction of
// library code (statically) and is not used as a value anywhere, the calling
// function and the call.  Otherwise nil.
func (p *Program) Home(fn *ssa.Function) (*ssa.Function, ssa.CallInstruction) {
	if p.homes == nil {
		p.homes = map[*ssa.Function]homeSite{}
		lib := map[*ssa.Function]bool{}
		for _, f := range p.LibFns {
			lib[f] = true
		}
		count := map[*ssa.Function]int{}
		valueUse := map[*ssa.Function]bool{}
		site := map[*ssa.Function]homeSite{}
		for _, f := range p.LibFns {
			for _, b := range f.Blocks {
				for _, ins := range b.Instrs {
					var callee *ssa.Function
					if ci, ok := ins.(ssa.CallInstruction); ok {
						callee = ci.Common().StaticCallee()
						if callee != nil && lib[callee] && callee.Parent() == nil {
							count[callee]++
							site[callee] = homeSite{f, ci}
						}
					}
					for _, op := range ins.Operands(nil) {
						if op == nil || *op == nil {
							continue
						}
						if g, ok := (*op).(*ssa.Function); ok && g != callee {
							valueUse[g] = true
						}
						if mc, ok := (*op).(*ssa.MakeClosure); ok {
							if g, ok := mc.Fn.(*ssa.Function); ok {
								valueUse[g] = true
							}
						}
					}
				}
			}
		}
		for f, n := range count {
			if n == 1 && !valueUse[f] && site[f].caller != f {
				p.homes[f] = site[f]
			}
		}
	}
	h, ok := p.homes[fn]
	if !ok {
		return nil, nil
	}
	return h.caller, h.site
}

type homeSite struct {
	caller *ssa.Function
	site   ssa.CallInstruction
}

// caseHome: the function and the case label (of a switch in its syntax) that
// enclose pos in fn; if fn's own syntax has no case around pos and fn has a
// home, the case around its one call site, and so on.
func caseHome(p *Program, fn *ssa.Function, pos token.Pos) (*ssa.Function, string) {
	// a function literal is text of the function that contains it: the case it
	// is written in is its home
	for fn.Parent() != nil {
		fn = fn.Parent()
	}
	for d := 0; d < 4; d++ {
		if l := outerCase(p, fn, pos); l != "" {
			return fn, l
		}
		caller, site := p.Home(fn)
		if caller == nil {
			return fn, ""
		}
		fn, pos = caller, site.Pos()
	}
	return fn, ""
}

// nodeHandler: where the compiler translates one type of syntax node — the
// case of its type switch, or the function that case hands the node to.
type nodeHandler struct {
	typ   *types.Pointer  // *ast.T
	fn    *ssa.Function   // function holding the translation
	node  ssa.Value       // the node, typed (*ast.T), inside fn
	entry *ssa.BasicBlock // first block of the translation
	label string          // "case *ast.T" — as the type switch spells it
}

// in reports whether block b belongs to the handler.
func (h nodeHandler) in(b *ssa.BasicBlock) bool {
	return b.Parent() == h.fn && (b == h.entry || h.entry.Dominates(b))
}

// nodeHandlers lists the handlers of the compiler's type switch.  A case whose
// region does nothing but pass the node on to one library function (and hand
// back its result) is represented by that function.
func nodeHandlers(p *Program, a *anchors) []nodeHandler {
	fn := a.compile
	var out []nodeHandler
	if len(fn.Params) < 2 {
		return nil
	}
	for _, b := range fn.Blocks {
		for _, ins := range b.Instrs {
			ta, ok := ins.(*ssa.TypeAssert)
			if !ok || !ta.CommaOk || ta.X != ssa.Value(fn.Params[1]) {
				continue
			}
			pt, ok := ta.AssertedType.(*types.Pointer)
			if !ok || !isASTish(pt) {
				continue
			}
			var typed, okv ssa.Value
			for _, ref := range *ta.Referrers() {
				if ex, isEx := ref.(*ssa.Extract); isEx {
					if ex.Index == 0 {
						typed = ex
					} else {
						okv = ex
					}
				}
			}
			if okv == nil {
				continue
			}
			var entry *ssa.BasicBlock
			for _, ref := range *okv.Referrers() {
				if iff, isIf := ref.(*ssa.If); isIf {
					entry = iff.Block().Succs[0]
				}
			}
			if entry == nil || len(entry.Preds) != 1 {
				continue
			}
			h := nodeHandler{typ: pt, fn: fn, node: typed, entry: entry, label: "case " + typeStr(pt)}
			if typed != nil {
				if g, prm := passesNodeOn(p, h); g != nil {
					h.fn, h.node, h.entry = g, prm, g.Blocks[0]
				}
			}
			out = append(out, h)
		}
	}
	return out
}

// passesNodeOn: the handler's region contains exactly one call of a library
// function that receives the node, and otherwise no call at all: the callee
// and its parameter for the node.
func passesNodeOn(p *Program, h nodeHandler) (*ssa.Function, ssa.Value) {
	var callee *ssa.Function
	var prm ssa.Value
	for _, b := range h.fn.Blocks {
		if !h.in(b) {
			continue
		}
		for _, ins := range b.Instrs {
			cc := callOf(ins)
			if cc == nil {
				continue
			}
			g := cc.StaticCallee()
			if g == nil || callee != nil || len(g.Blocks) == 0 || fnPkg(g) == nil || !IsLibPath(fnPkg(g).Pkg.Path()) {
				return nil, nil
			}
			idx := -1
			for i, arg := range cc.Args {
				if arg == h.node {
					idx = i
				}
			}
			if idx < 0 || idx >= len(g.Params) {
				return nil, nil
			}
			callee, prm = g, g.Params[idx]
		}
	}
	return callee, prm
}

// compilerFamily: the compile function and the library functions of its
// package that it reaches and that themselves emit code or call back into it —
// the functions among which the translation of the syntax tree is spread.
// (The emitter, the patcher and the constant pool are not members.)
func compilerFamily(p *Program, a *anchors) []*ssa.Function {
	out := []*ssa.Function{a.compile}
	member := map[*ssa.Function]bool{a.compile: true}
	var cands []*ssa.Function
	for f := range p.Reachable(a.compile) {
		if f == a.compile || f == a.emit || f == a.changeOperand || f == a.addConstant || f.Parent() != nil {
			continue
		}
		if fnPkg(f) == nil || fnPkg(f).Pkg.Path() != Mod || !recvNamed(f, "", "Eval") {
			continue
		}
		if isEmitHelper(p, a, f) {
			continue // read at its call sites, like the emitter and the patcher
		}
		cands = append(cands, f)
	}
	sort.Slice(cands, func(i, j int) bool { return p.FnName(cands[i]) < p.FnName(cands[j]) })
	var rest []*ssa.Function
	for changed := true; changed; {
		changed = false
		for _, f := range cands {
			if member[f] {
				continue
			}
			translates := false
			for _, b := range f.Blocks {
				for _, ins := range b.Instrs {
					if cc := callOf(ins); cc != nil && (cc.StaticCallee() == a.emit || member[cc.StaticCallee()]) {
						translates = true
					}
					if _, ok := emitAt(p, a, ins); ok {
						translates = true
					}
				}
			}
			if translates {
				member[f] = true
				rest = append(rest, f)
				changed = true
			}
		}
	}
	sort.Slice(rest, func(i, j int) bool { return p.FnName(rest[i]) < p.FnName(rest[j]) })
	return append(out, rest...)
}

// delegatedBody: when the statements do nothing but call one function of the
// module (and hand its result or error on), the statements of that function's
// body and the type information they were checked with; otherwise the
// statements themselves.  A case of a big switch whose text was moved into a
// function of its own is then read where it now lives.
func delegatedBody(p *Program, info *types.Info, stmts []ast.Stmt) ([]ast.Stmt, *types.Info) {
	var calls []*ast.CallExpr
	for _, st := range stmts {
		ast.Inspect(st, func(n ast.Node) bool {
			if ce, ok := n.(*ast.CallExpr); ok {
				if tv, ok := info.Types[ce.Fun]; ok && tv.IsType() {
					return true // a conversion
				}
				calls = append(calls, ce)
			}
			return true
		})
	}
	if len(calls) != 1 || len(stmts) > 3 {
		return stmts, info
	}
	f, ok := calleeObj(info, calls[0]).(*types.Func)
	if !ok || f.Pkg() == nil || !strings.HasPrefix(f.Pkg().Path(), Mod) {
		return stmts, info
	}
	for _, fn := range p.LibFns {
		if fn.Object() == types.Object(f) {
			if fd := p.FuncDecl(fn); fd != nil && fd.Body != nil {
				return fd.Body.List, p.Info(fn)
			}
		}
	}
	return stmts, info
}

// linear: v = base + k for a constant k (through additions and subtractions
// of constants).
func linear(v ssa.Value) (ssa.Value, int64) {
	k := int64(0)
	for d := 0; d < 4; d++ {
		bo, ok := v.(*ssa.BinOp)
		if !ok || (bo.Op != token.ADD && bo.Op != token.SUB) {
			break
		}
		c, ok := constInt(bo.Y)
		if !ok {
			break
		}
		if bo.Op == token.SUB {
			c = -c
		}
		k += c
		v = bo.X
	}
	return v, k
}

// induction: idx = φ + c where φ = φ(init, φ + step) is a loop counter.  The
// counter may be written `for n > lo { … [n-1] …; n-- }` or `for i := hi;
// i >= lo; i-- { … [i] … }`: both give the same first index and step.
func induction(idx ssa.Value) (ph *ssa.Phi, c int64, init ssa.Value, step int64, ok bool) {
	base, c := linear(idx)
	ph, isPhi := base.(*ssa.Phi)
	if !isPhi || len(ph.Edges) != 2 {
		return nil, 0, nil, 0, false
	}
	haveStep := false
	for _, e := range ph.Edges {
		eb, ek := linear(e)
		if eb == ssa.Value(ph) {
			step, haveStep = ek, true
		} else {
			init = e
		}
	}
	if init == nil || !haveStep {
		return nil, 0, nil, 0, false
	}
	return ph, c, init, step, true
}

// mustPerform: on every path from the entry of fn to a return, some
// instruction satisfies pred — or is a call of a library function that itself
// must perform it (followed to the given depth).
func mustPerform(fn *ssa.Function, pred func(ssa.Instruction) bool, depth int) bool {
	if fn == nil || len(fn.Blocks) == 0 || depth < 0 {
		return false
	}
	does := map[*ssa.BasicBlock]bool{}
	for _, b := range fn.Blocks {
		for _, ins := range b.Instrs {
			if performs(ins, pred, depth) {
				does[b] = true
			}
		}
	}
	seen := map[*ssa.BasicBlock]bool{}
	ok := true
	var walk func(b *ssa.BasicBlock)
	walk = func(b *ssa.BasicBlock) {
		if !ok || seen[b] || does[b] {
			return
		}
		seen[b] = true
		if _, isRet := terminator(b).(*ssa.Return); isRet {
			ok = false
			return
		}
		for _, s := range b.Succs {
			walk(s)
		}
	}
	walk(fn.Blocks[0])
	return ok
}

// performs: the instruction satisfies pred, or calls a library function that
// must perform it.
func performs(ins ssa.Instruction, pred func(ssa.Instruction) bool, depth int) bool {
	if pred(ins) {
		return true
	}
	if depth <= 0 {
		return false
	}
	if cc := callOf(ins); cc != nil {
		if g := cc.StaticCallee(); g != nil && fnPkg(g) != nil && IsLibPath(fnPkg(g).Pkg.Path()) && len(g.Blocks) > 0 {
			return mustPerform(g, pred, depth-1)
		}
	}
	return false
}

// mayPerform: some instruction of fn, or of a library function it calls
// (followed to the given depth), satisfies pred; the first such instruction
// of fn itself (the call, when the effect is inside the callee).
func mayPerform(fn *ssa.Function, pred func(ssa.Instruction) bool, depth int) ssa.Instruction {
	if fn == nil || depth < 0 {
		return nil
	}
	for _, b := range fn.Blocks {
		for _, ins := range b.Instrs {
			if pred(ins) {
				return ins
			}
			if depth > 0 {
				if cc := callOf(ins); cc != nil {
					if g := cc.StaticCallee(); g != nil && g != fn && fnPkg(g) != nil && IsLibPath(fnPkg(g).Pkg.Path()) && len(g.Blocks) > 0 {
						if mayPerform(g, pred, depth-1) != nil {
							return ins
						}
					}
				}
			}
		}
	}
	return nil
}

// staticCalleesWithin: the library functions fn calls statically, and those
// they call, down to the given depth (fn itself excluded).
func staticCalleesWithin(p *Program, fn *ssa.Function, depth int) []*ssa.Function {
	seen := map[*ssa.Function]bool{fn: true}
	var out []*ssa.Function
	var walk func(f *ssa.Function, d int)
	walk = func(f *ssa.Function, d int) {
		if d == 0 {
			return
		}
		for _, b := range f.Blocks {
			for _, ins := range b.Instrs {
				cc := callOf(ins)
				if cc == nil {
					continue
				}
				g := cc.StaticCallee()
				if g == nil || seen[g] || len(g.Blocks) == 0 || fnPkg(g) == nil || !IsLibPath(fnPkg(g).Pkg.Path()) {
					continue
				}
				seen[g] = true
				out = append(out, g)
				walk(g, d-1)
			}
		}
	}
	walk(fn, depth)
	return out
}

// savedValue: one place a saved value comes from — the value and the function
// it is computed in.
type savedValue struct {
	v  ssa.Value
	fn *ssa.Function
}

// traceSaved follows a value that is handed along — as a parameter, as a field
// of a struct parameter or local, as a captured variable — back to where it is
// computed.  Every call (or deferred call) of a function is followed, so the
// result lists one origin per way the value can arrive; nil when a step cannot
// be followed.
func traceSaved(p *Program, fn *ssa.Function, v ssa.Value, depth int) []savedValue {
	if depth > 6 || v == nil {
		return nil
	}
	// the argument in position idx at every static call, defer or go of fn
	argsAt := func(g *ssa.Function, idx int) ([]savedValue, bool) {
		var out []savedValue
		for _, h := range p.LibFns {
			for _, b := range h.Blocks {
				for _, ins := range b.Instrs {
					cc := callOf(ins)
					if cc == nil || cc.StaticCallee() != g || idx >= len(cc.Args) {
						continue
					}
					out = append(out, savedValue{cc.Args[idx], h})
				}
			}
		}
		return out, len(out) > 0
	}
	paramIndex := func(prm *ssa.Parameter) int {
		for i, q := range prm.Parent().Params {
			if q == prm {
				return i
			}
		}
		return -1
	}
	// field k of a struct value x (in fn)
	var fieldOfValue func(fn *ssa.Function, x ssa.Value, k int, depth int) []savedValue
	fieldOfValue = func(fn *ssa.Function, x ssa.Value, k int, depth int) []savedValue {
		if depth > 6 {
			return nil
		}
		switch y := x.(type) {
		case *ssa.Parameter:
			args, ok := argsAt(y.Parent(), paramIndex(y))
			if !ok {
				return nil
			}
			var out []savedValue
			for _, a := range args {
				r := fieldOfValue(a.fn, a.v, k, depth+1)
				if r == nil {
					return nil
				}
				out = append(out, r...)
			}
			return out
		case *ssa.Call:
			// a struct handed back by a library function: field k of what it returns
			g := y.Call.StaticCallee()
			if g == nil || fnPkg(g) == nil || !IsLibPath(fnPkg(g).Pkg.Path()) || len(g.Blocks) == 0 {
				return nil
			}
			var out []savedValue
			for _, b := range g.Blocks {
				if ret, ok := terminator(b).(*ssa.Return); ok && len(ret.Results) == 1 {
					r := fieldOfValue(g, ret.Results[0], k, depth+1)
					if r == nil {
						return nil
					}
					out = append(out, r...)
				}
			}
			return out
		case *ssa.UnOp:
			if y.Op == token.MUL {
				if al, ok := y.X.(*ssa.Alloc); ok {
					// a local struct: the stores into its field k
					var out []savedValue
					for _, ref := range *al.Referrers() {
						switch z := ref.(type) {
						case *ssa.FieldAddr:
							if z.Field != k {
								continue
							}
							for _, r2 := range *z.Referrers() {
								if st, ok := r2.(*ssa.Store); ok && st.Addr == ssa.Value(z) {
									r := traceSaved(p, fn, st.Val, depth+1)
									if r == nil {
										return nil
									}
									out = append(out, r...)
								}
							}
						case *ssa.Store:
							if z.Addr == ssa.Value(al) {
								r := fieldOfValue(fn, z.Val, k, depth+1)
								if r == nil {
									return nil
								}
								out = append(out, r...)
							}
						}
					}
					return out
				}
			}
		}
		return nil
	}
	switch x := v.(type) {
	case *ssa.Parameter:
		args, ok := argsAt(x.Parent(), paramIndex(x))
		if !ok {
			return nil
		}
		var out []savedValue
		for _, a := range args {
			r := traceSaved(p, a.fn, a.v, depth+1)
			if r == nil {
				return nil
			}
			out = append(out, r...)
		}
		return out
	case *ssa.Field:
		return fieldOfValue(fn, x.X, x.Field, depth+1)
	case *ssa.UnOp:
		if x.Op == token.MUL {
			switch y := x.X.(type) {
			case *ssa.FieldAddr:
				// a field of a local struct or of a struct parameter spilled to memory
				if al, ok := y.X.(*ssa.Alloc); ok {
					// find what the whole struct is (a parameter stored into the
					// local) or what was stored into the field
					var out []savedValue
					for _, ref := range *al.Referrers() {
						switch z := ref.(type) {
						case *ssa.Store:
							if z.Addr == ssa.Value(al) {
								r := fieldOfValue(fn, z.Val, y.Field, depth+1)
								if r == nil {
									return nil
								}
								out = append(out, r...)
							}
						case *ssa.FieldAddr:
							if z.Field == y.Field && z != y {
								for _, r2 := range *z.Referrers() {
									if st, ok := r2.(*ssa.Store); ok && st.Addr == ssa.Value(z) {
										r := traceSaved(p, fn, st.Val, depth+1)
										if r == nil {
											return nil
										}
										out = append(out, r...)
									}
								}
							}
						}
					}
					if len(out) > 0 {
						return out
					}
				}
			case *ssa.FreeVar:
				// a captured variable: its binding in the enclosing function
				idx := -1
				for i, f := range fn.FreeVars {
					if f == y {
						idx = i
					}
				}
				if par := fn.Parent(); par != nil && idx >= 0 {
					for _, b := range par.Blocks {
						for _, ins := range b.Instrs {
							if mc, ok := ins.(*ssa.MakeClosure); ok && mc.Fn == ssa.Value(fn) && idx < len(mc.Bindings) {
								if al, ok := mc.Bindings[idx].(*ssa.Alloc); ok {
									var out []savedValue
									for _, ref := range *al.Referrers() {
										if st, ok := ref.(*ssa.Store); ok && st.Addr == ssa.Value(al) {
											r := traceSaved(p, par, st.Val, depth+1)
											if r == nil {
												return nil
											}
											out = append(out, r...)
										}
									}
									return out
								}
							}
						}
					}
				}
				return nil
			case *ssa.Alloc:
				var out []savedValue
				for _, ref := range *y.Referrers() {
					if st, ok := ref.(*ssa.Store); ok && st.Addr == ssa.Value(y) {
						r := traceSaved(p, fn, st.Val, depth+1)
						if r == nil {
							return nil
						}
						out = append(out, r...)
					}
				}
				if len(out) > 0 {
					return out
				}
			}
		}
	}
	return []savedValue{{v, fn}}
}

// binopView: where the dispatch over the operand types of a binary operation
// is written, and which of its variables hold the left and the right operand.
// The dispatcher pops its operands (right first) and decides in a tagless
// switch; when the switch has been moved into a function that is handed the
// popped operands, the view is that function with its parameters in the roles
// the dispatcher gives them.
type binopViewT struct {
	fn       *ssa.Function
	fd       *ast.FuncDecl
	info     *types.Info
	opObj    types.Object
	leftObj  types.Object
	rightObj types.Object
}

func binopView(p *Program, a *anchors) *binopViewT {
	fd := p.FuncDecl(a.binop)
	info := p.Info(a.binop)
	if fd == nil || info == nil {
		return nil
	}
	v := &binopViewT{fn: a.binop, fd: fd, info: info, opObj: a.binop.Signature.Params().At(0)}
	var popped []types.Object
	ast.Inspect(fd.Body, func(n ast.Node) bool {
		as, ok := n.(*ast.AssignStmt)
		if !ok || len(as.Rhs) != 1 || len(as.Lhs) < 1 {
			return true
		}
		if ce, ok := as.Rhs[0].(*ast.CallExpr); ok {
			if f, ok := calleeObj(info, ce).(*types.Func); ok && f.Name() == "Pop" {
				if id, ok := as.Lhs[0].(*ast.Ident); ok {
					if o := info.ObjectOf(id); o != nil {
						popped = append(popped, o)
					}
				}
			}
		}
		return true
	})
	if len(popped) >= 2 {
		v.rightObj, v.leftObj = popped[0], popped[1]
	}
	hasSwitch := false
	ast.Inspect(fd.Body, func(n ast.Node) bool {
		if s, ok := n.(*ast.SwitchStmt); ok && s.Tag == nil {
			hasSwitch = true
		}
		return true
	})
	if hasSwitch || len(popped) < 2 {
		return v
	}
	// handed on: a call g(…op…, …left…, …right…) of a module function that has
	// the tagless switch
	var moved *binopViewT
	ast.Inspect(fd.Body, func(n ast.Node) bool {
		ce, ok := n.(*ast.CallExpr)
		if !ok || moved != nil {
			return true
		}
		f, ok := calleeObj(info, ce).(*types.Func)
		if !ok || f.Pkg() == nil || f.Pkg().Path() != Mod+"/vm" {
			return true
		}
		var g *ssa.Function
		for _, fn := range p.LibFns {
			if fn.Object() == types.Object(f) {
				g = fn
			}
		}
		if g == nil || p.FuncDecl(g) == nil {
			return true
		}
		gfd := p.FuncDecl(g)
		sw := false
		ast.Inspect(gfd.Body, func(m ast.Node) bool {
			if s, ok := m.(*ast.SwitchStmt); ok && s.Tag == nil {
				sw = true
			}
			return true
		})
		if !sw {
			return true
		}
		sig := f.Type().(*types.Signature)
		mv := &binopViewT{fn: g, fd: gfd, info: p.Info(g)}
		for i, arg := range ce.Args {
			id, ok := ast.Unparen(arg).(*ast.Ident)
			if !ok || i >= sig.Params().Len() {
				continue
			}
			switch info.ObjectOf(id) {
			case v.opObj:
				mv.opObj = sig.Params().At(i)
			case v.leftObj:
				mv.leftObj = sig.Params().At(i)
			case v.rightObj:
				mv.rightObj = sig.Params().At(i)
			}
		}
		if mv.opObj != nil && mv.leftObj != nil && mv.rightObj != nil {
			moved = mv
		}
		return true
	})
	if moved != nil {
		return moved
	}
	return v
}

// callbackBody: the body and the signature of a function literal, or of a
// declared function or method, found at n (nil otherwise).  A walker callback
// may be written either way.
func callbackBody(info *types.Info, n ast.Node) (*ast.BlockStmt, *types.Signature) {
	switch x := n.(type) {
	case *ast.FuncLit:
		if sig, ok := info.Types[x].Type.(*types.Signature); ok {
			return x.Body, sig
		}
	case *ast.FuncDecl:
		if x.Body == nil {
			return nil, nil
		}
		if obj, ok := info.Defs[x.Name].(*types.Func); ok {
			return x.Body, obj.Type().(*types.Signature)
		}
	}
	return nil, nil
}

// lhsObject: the variable an assignment's left-hand side names: a local or
// captured variable (identifier) or a field (selector).
func lhsObject(info *types.Info, e ast.Expr) types.Object {
	switch x := ast.Unparen(e).(type) {
	case *ast.Ident:
		return info.ObjectOf(x)
	case *ast.SelectorExpr:
		return info.Uses[x.Sel]
	}
	return nil
}

// globalMapLiteral: g is a package-level map initialised by a composite
// literal with constant keys and never written afterwards; its entries (key
// constant → value expression) with the package's type information.
func globalMapLiteral(p *Program, g *ssa.Global) (keys []constant.Value, vals []ast.Expr, info *types.Info, ok bool) {
	if g == nil || g.Object() == nil || g.Pkg == nil {
		return nil, nil, nil, false
	}
	pk := p.ByPath[g.Pkg.Pkg.Path()]
	if pk == nil {
		return nil, nil, nil, false
	}
	// never written outside the package initialiser
	for _, fn := range p.Fns {
		if fn.Name() == "init" && fn.Pkg == g.Pkg && fn.Synthetic != "" {
			continue
		}
		for _, b := range fn.Blocks {
			for _, ins := range b.Instrs {
				switch x := ins.(type) {
				case *ssa.MapUpdate:
					if ld, isLd := x.Map.(*ssa.UnOp); isLd && ld.X == ssa.Value(g) {
						return nil, nil, nil, false
					}
				case *ssa.Store:
					if x.Addr == ssa.Value(g) {
						return nil, nil, nil, false
					}
				}
			}
		}
	}
	for _, f := range pk.Syntax {
		for _, d := range f.Decls {
			gd, isGd := d.(*ast.GenDecl)
			if !isGd || gd.Tok != token.VAR {
				continue
			}
			for _, sp := range gd.Specs {
				vs := sp.(*ast.ValueSpec)
				for i, nm := range vs.Names {
					if pk.TypesInfo.Defs[nm] != g.Object() || i >= len(vs.Values) {
						continue
					}
					cl, isCl := vs.Values[i].(*ast.CompositeLit)
					if !isCl {
						return nil, nil, nil, false
					}
					for _, el := range cl.Elts {
						kv, isKv := el.(*ast.KeyValueExpr)
						if !isKv {
							return nil, nil, nil, false
						}
						tv, has := pk.TypesInfo.Types[kv.Key]
						if !has || tv.Value == nil {
							return nil, nil, nil, false
						}
						keys = append(keys, tv.Value)
						vals = append(vals, kv.Value)
					}
					return keys, vals, pk.TypesInfo, true
				}
			}
		}
	}
	return nil, nil, nil, false
}

// opcodeSetsAt: which opcodes each tested opcode value of fn can still be on
// entry to the block, by the comparisons with opcode constants on the way
// there (a forward union-of-paths analysis; == K keeps K on the true side and
// drops it on the false side).  Only values whose set is a proper subset of
// all opcodes are reported.
func opcodeSetsAt(p *Program, fn *ssa.Function, at *ssa.BasicBlock) map[ssa.Value]map[string]bool {
	oc := p.Opcodes()
	// the tested values
	tested := map[ssa.Value]bool{}
	test := func(b *ssa.BasicBlock) (v ssa.Value, name string, eq bool, ok bool) {
		iff, isIf := terminator(b).(*ssa.If)
		if !isIf {
			return nil, "", false, false
		}
		bo, isBo := iff.Cond.(*ssa.BinOp)
		if !isBo || (bo.Op != token.EQL && bo.Op != token.NEQ) {
			return nil, "", false, false
		}
		if n := oc.ssaName(bo.Y); n != "" {
			if _, isC := stripConvSSA(bo.X).(*ssa.Const); !isC {
				return stripConvSSA(bo.X), n, bo.Op == token.EQL, true
			}
		}
		if n := oc.ssaName(bo.X); n != "" {
			if _, isC := stripConvSSA(bo.Y).(*ssa.Const); !isC {
				return stripConvSSA(bo.Y), n, bo.Op == token.EQL, true
			}
		}
		return nil, "", false, false
	}
	for _, b := range fn.Blocks {
		if v, _, _, ok := test(b); ok {
			tested[v] = true
		}
	}
	out := map[ssa.Value]map[string]bool{}
	for v := range tested {
		state := map[*ssa.BasicBlock]map[string]bool{}
		all := map[string]bool{}
		for _, n := range oc.names {
			all[n] = true
		}
		if len(fn.Blocks) == 0 {
			continue
		}
		state[fn.Blocks[0]] = all
		for changed := true; changed; {
			changed = false
			for _, b := range fn.Blocks {
				cur := state[b]
				if cur == nil {
					continue
				}
				tv, name, eq, isTest := test(b)
				for i, sc := range b.Succs {
					next := cur
					if isTest && tv == v && len(b.Succs) == 2 && b.Succs[0] != b.Succs[1] {
						next = map[string]bool{}
						keepOnly := (i == 0) == eq
						for n := range cur {
							if keepOnly && n == name || !keepOnly && n != name {
								next[n] = true
							}
						}
					}
					if state[sc] == nil {
						state[sc] = map[string]bool{}
					}
					for n := range next {
						if !state[sc][n] {
							state[sc][n] = true
							changed = true
						}
					}
				}
			}
		}
		if s := state[at]; s != nil && len(s) < len(all) {
			out[v] = s
		}
	}
	return out
}

var callSiteCache = map[*ssa.Program]map[*ssa.Function][]ssa.CallInstruction{}

// staticCallSites: the call instructions of the program whose static callee
// is fn (go and defer included).
func staticCallSites(p *Program, fn *ssa.Function) []ssa.CallInstruction {
	m := callSiteCache[p.SSA]
	if m == nil {
		m = map[*ssa.Function][]ssa.CallInstruction{}
		for _, g := range p.Fns {
			for _, b := range g.Blocks {
				for _, ins := range b.Instrs {
					if ci, ok := ins.(ssa.CallInstruction); ok {
						if c := ci.Common().StaticCallee(); c != nil {
							m[c] = append(m[c], ci)
						}
					}
				}
			}
		}
		callSiteCache[p.SSA] = m
	}
	return m[fn]
}

// globalNeverWritten: nothing but the package initialiser stores into the
// package-level variable, into an element of it, or takes its address for
// anything but reading an element.
func globalNeverWritten(p *Program, g *ssa.Global) bool {
	for _, fn := range p.Fns {
		if fn.Name() == "init" && fn.Pkg == g.Pkg && fn.Synthetic != "" {
			continue
		}
		for _, b := range fn.Blocks {
			for _, ins := range b.Instrs {
				switch x := ins.(type) {
				case *ssa.MapUpdate:
					if ld, isLd := x.Map.(*ssa.UnOp); isLd && ld.X == ssa.Value(g) {
						return false
					}
				case *ssa.Store:
					if x.Addr == ssa.Value(g) {
						return false
					}
					if ia, ok := x.Addr.(*ssa.IndexAddr); ok {
						if ia.X == ssa.Value(g) {
							return false
						}
						if ld, isLd := ia.X.(*ssa.UnOp); isLd && ld.X == ssa.Value(g) {
							return false
						}
					}
				default:
					// the address handed to something else
					for _, op := range ins.Operands(nil) {
						if *op != ssa.Value(g) {
							continue
						}
						switch ins.(type) {
						case *ssa.UnOp, *ssa.IndexAddr:
						default:
							return false
						}
					}
				}
			}
		}
	}
	return true
}

// globalLiteralLookup: the value a never-written package-level table (map,
// array or slice written as a composite literal with constant keys and
// values) holds for the key; the zero value for a key it does not list.
func globalLiteralLookup(g *ssa.Global, key constant.Value) (val constant.Value, present bool, ok bool) {
	p := curProgram
	if p == nil || g == nil || g.Object() == nil || g.Pkg == nil || key == nil {
		return nil, false, false
	}
	pk := p.ByPath[g.Pkg.Pkg.Path()]
	if pk == nil || !globalNeverWritten(p, g) {
		return nil, false, false
	}
	var elem types.Type
	isMap := false
	length := int64(-1)
	switch t := g.Object().Type().Underlying().(type) {
	case *types.Map:
		elem, isMap = t.Elem(), true
	case *types.Array:
		elem, length = t.Elem(), t.Len()
	case *types.Slice:
		elem = t.Elem()
	default:
		return nil, false, false
	}
	zero := func() (constant.Value, bool) {
		b, isB := elem.Underlying().(*types.Basic)
		switch {
		case !isB:
			return nil, false
		case b.Info()&types.IsBoolean != 0:
			return constant.MakeBool(false), true
		case b.Info()&types.IsInteger != 0:
			return constant.MakeInt64(0), true
		case b.Info()&types.IsString != 0:
			return constant.MakeString(""), true
		}
		return nil, false
	}
	for _, f := range pk.Syntax {
		for _, d := range f.Decls {
			gd, isGd := d.(*ast.GenDecl)
			if !isGd || gd.Tok != token.VAR {
				continue
			}
			for _, sp := range gd.Specs {
				vs := sp.(*ast.ValueSpec)
				for i, nm := range vs.Names {
					if pk.TypesInfo.Defs[nm] != g.Object() || i >= len(vs.Values) {
						continue
					}
					cl, isCl := vs.Values[i].(*ast.CompositeLit)
					if !isCl {
						return nil, false, false
					}
					next := int64(0)
					n := int64(0)
					var hit constant.Value
					for _, el := range cl.Elts {
						var k constant.Value
						v := el
						if kv, isKv := el.(*ast.KeyValueExpr); isKv {
							tv, has := pk.TypesInfo.Types[kv.Key]
							if !has || tv.Value == nil {
								return nil, false, false
							}
							k, v = tv.Value, kv.Value
							if !isMap {
								next, _ = constant.Int64Val(k)
							}
						} else if isMap {
							return nil, false, false
						} else {
							k = constant.MakeInt64(next)
						}
						next++
						if next > n {
							n = next
						}
						tv, has := pk.TypesInfo.Types[v]
						if !has || tv.Value == nil {
							if constant.Compare(k, token.EQL, key) {
								return nil, false, false
							}
							continue
						}
						if k.Kind() == key.Kind() && constant.Compare(k, token.EQL, key) {
							hit = tv.Value
						}
					}
					if hit != nil {
						return hit, true, true
					}
					if !isMap {
						if length < 0 {
							length = n
						}
						if key.Kind() != constant.Int || constant.Sign(key) < 0 || !constant.Compare(key, token.LSS, constant.MakeInt64(length)) {
							return nil, false, false // out of range: a run-time panic, not a value
						}
					}
					z, zok := zero()
					return z, false, zok
				}
			}
		}
	}
	return nil, false, false
}

// handlerInstrs: the instructions that make up the interpreter's handler of
// an opcode — those inside the case of the dispatch switch, and those of the
// functions only that case calls (directly or through one another).
func handlerInstrs(p *Program, a *anchors, op string) []ssa.Instruction {
	var out []ssa.Instruction
	for _, f := range p.LibFns {
		if fnPkg(f) == nil || fnPkg(f).Pkg.Path() != Mod+"/vm" || f.Parent() != nil {
			continue
		}
		if f != a.vmRun {
			// a function with a home: judged as a whole by its call site
			root, label := caseHome(p, f, f.Pos())
			if root == f {
				// it has a switch of its own around its first position? no: ask by its home
				root, label = nil, ""
				if caller, site := p.Home(f); caller != nil {
					root, label = caseHome(p, caller, site.Pos())
				}
			}
			if root != a.vmRun || !caseNames(label, op) {
				continue
			}
			for _, b := range f.Blocks {
				out = append(out, b.Instrs...)
			}
			continue
		}
		for _, b := range f.Blocks {
			for _, ins := range b.Instrs {
				if ins.Pos().IsValid() && caseNames(outerCase(p, f, ins.Pos()), op) {
					out = append(out, ins)
				}
			}
		}
	}
	return out
}

// caseNames: the case label lists the opcode (as a whole word).
func caseNames(label, op string) bool {
	for _, part := range strings.FieldsFunc(label, func(r rune) bool { return r == ',' || r == ' ' || r == '.' }) {
		if part == op {
			return true
		}
	}
	return false
}

// liftTo: the instruction of target through which ins is reached — ins itself
// when it is in target, otherwise the one call of the function it is in
// (followed upwards through functions that have a single call site).
func liftTo(p *Program, ins ssa.Instruction, target *ssa.Function) ssa.Instruction {
	for d := 0; d < 5 && ins != nil; d++ {
		if ins.Parent() == target {
			return ins
		}
		_, site := p.Home(ins.Parent())
		if site == nil {
			return nil
		}
		ins = site.(ssa.Instruction)
	}
	return nil
}

// liftPair: x and y seen from the innermost function that contains both (one
// of them possibly through the call that leads to it).
func liftPair(p *Program, x, y ssa.Instruction) (ssa.Instruction, ssa.Instruction) {
	var chain []*ssa.Function
	for f, d := x.Parent(), 0; f != nil && d < 5; d++ {
		chain = append(chain, f)
		caller, _ := p.Home(f)
		f = caller
	}
	for _, f := range chain {
		if ly := liftTo(p, y, f); ly != nil {
			if lx := liftTo(p, x, f); lx != nil {
				return lx, ly
			}
		}
	}
	return nil, nil
}

// handlerFns: the functions of the machine that only one case of the
// interpreter's dispatch switch calls (directly or through one another): the
// parts of handlers that were given a function of their own.
func handlerFns(p *Program, a *anchors) []*ssa.Function {
	var out []*ssa.Function
	for _, f := range p.LibFns {
		if fnPkg(f) == nil || fnPkg(f).Pkg.Path() != Mod+"/vm" || f.Parent() != nil || f == a.vmRun {
			continue
		}
		caller, site := p.Home(f)
		if caller == nil {
			continue
		}
		if root, label := caseHome(p, caller, site.Pos()); root == a.vmRun && label != "" {
			out = append(out, f)
		}
	}
	sort.Slice(out, func(i, j int) bool { return p.FnName(out[i]) < p.FnName(out[j]) })
	return out
}

var valueUseCache = map[*ssa.Program]map[*ssa.Function]bool{}

// functionUsedAsValue: fn appears somewhere other than as the callee of a
// direct call (stored, passed, bound).
func functionUsedAsValue(p *Program, fn *ssa.Function) bool {
	m := valueUseCache[p.SSA]
	if m == nil {
		m = map[*ssa.Function]bool{}
		for _, g := range p.Fns {
			for _, b := range g.Blocks {
				for _, ins := range b.Instrs {
					cc := callOf(ins)
					for _, op := range ins.Operands(nil) {
						if op == nil || *op == nil {
							continue
						}
						if f, ok := (*op).(*ssa.Function); ok && !(cc != nil && cc.Value == ssa.Value(f)) {
							m[f] = true
						}
					}
				}
			}
		}
		valueUseCache[p.SSA] = m
	}
	return m[fn]
}

// moduleFuncTable: v is a function value read out of a package-level table of
// the module (a map, slice or array of functions, or of structs holding
// functions) that only the package's initialisation writes, and every
// function value that initialisation handles is a function or closure of the
// module.  The table, and the functions it can hold.
func moduleFuncTable(p *Program, v ssa.Value) (*ssa.Global, []*ssa.Function, bool) {
	var g *ssa.Global
	for d := 0; d < 8 && g == nil; d++ {
		switch x := v.(type) {
		case *ssa.Extract:
			if lk, ok := x.Tuple.(*ssa.Lookup); ok && x.Index == 0 {
				v = lk
				continue
			}
		case *ssa.Lookup:
			v = x.X
			continue
		case *ssa.Field:
			v = x.X
			continue
		case *ssa.Index:
			v = x.X
			continue
		case *ssa.Phi:
			// `fn, ok := table[k]; if !ok { fn = fallback }` is not followed
		case *ssa.UnOp:
			if x.Op == token.MUL {
				switch a := x.X.(type) {
				case *ssa.Global:
					g = a
					continue
				case *ssa.FieldAddr:
					v = a.X
					continue
				case *ssa.IndexAddr:
					v = a.X
					continue
				}
			}
		case *ssa.Global:
			g = x
			continue
		case *ssa.IndexAddr:
			v = x.X
			continue
		case *ssa.FieldAddr:
			v = x.X
			continue
		}
		break
	}
	if g == nil || g.Pkg == nil || !IsLibPath(g.Pkg.Pkg.Path()) {
		return nil, nil, false
	}
	// who writes the table (or an element of it)?
	writesTable := func(ins ssa.Instruction) bool {
		switch x := ins.(type) {
		case *ssa.MapUpdate:
			if ld, ok := x.Map.(*ssa.UnOp); ok && ld.X == ssa.Value(g) {
				return true
			}
		case *ssa.Store:
			if x.Addr == ssa.Value(g) {
				return true
			}
			if ia, ok := x.Addr.(*ssa.IndexAddr); ok {
				if ia.X == ssa.Value(g) {
					return true
				}
				if ld, ok := ia.X.(*ssa.UnOp); ok && ld.X == ssa.Value(g) {
					return true
				}
			}
		}
		return false
	}
	var inits []*ssa.Function
	// (the package initialiser itself is synthetic and not among p.Fns)
	if pi := g.Pkg.Func("init"); pi != nil {
		for _, b := range pi.Blocks {
			for _, ins := range b.Instrs {
				if writesTable(ins) && len(inits) == 0 {
					inits = append(inits, pi)
				}
			}
		}
	}
	for _, fn := range p.Fns {
		w := false
		for _, b := range fn.Blocks {
			for _, ins := range b.Instrs {
				if writesTable(ins) {
					w = true
				}
			}
		}
		if !w {
			continue
		}
		if fn.Pkg != g.Pkg || !(fn.Name() == "init" || strings.HasPrefix(fn.Name(), "init#")) {
			return nil, nil, false
		}
		inits = append(inits, fn)
	}
	if len(inits) == 0 {
		return nil, nil, false
	}
	var fns []*ssa.Function
	seen := map[*ssa.Function]bool{}
	okAll := true
	add := func(f *ssa.Function) {
		// a method expression or method value: the wrapper go/ssa makes for it
		// stands for the method it calls
		if f != nil && fnPkg(f) == nil && f.Synthetic != "" {
			for _, fb := range f.Blocks {
				for _, fi := range fb.Instrs {
					if c2 := callOf(fi); c2 != nil && c2.StaticCallee() != nil {
						f = c2.StaticCallee()
					}
				}
			}
		}
		if f == nil {
			okAll = false
			return
		}
		if fnPkg(f) == nil || !IsLibPath(fnPkg(f).Pkg.Path()) {
			if !(f.Parent() != nil && fnPkg(f.Parent()) != nil && IsLibPath(fnPkg(f.Parent()).Pkg.Path())) {
				okAll = false
				return
			}
		}
		if !seen[f] {
			seen[f] = true
			fns = append(fns, f)
		}
	}
	// entry: one value put into the table (or the value of a function variable)
	var entry func(v ssa.Value, d int)
	entry = func(v ssa.Value, d int) {
		if d > 6 || !okAll {
			okAll = false
			return
		}
		if ct, ok := v.(*ssa.ChangeType); ok {
			v = ct.X
		}
		switch x := v.(type) {
		case *ssa.Function:
			add(x)
		case *ssa.MakeClosure:
			f, _ := x.Fn.(*ssa.Function)
			add(f)
		case *ssa.Const:
			if !x.IsNil() {
				if _, isFn := x.Type().Underlying().(*types.Signature); isFn {
					okAll = false
				}
			}
		case *ssa.Call:
			// a function of the module that hands back a closure of its own
			h := x.Call.StaticCallee()
			if h == nil || fnPkg(h) == nil || !IsLibPath(fnPkg(h).Pkg.Path()) {
				okAll = false
				return
			}
			n := 0
			for _, hb := range h.Blocks {
				if ret, ok := terminator(hb).(*ssa.Return); ok && len(ret.Results) == 1 {
					n++
					rv := ret.Results[0]
					if ct, ok := rv.(*ssa.ChangeType); ok {
						rv = ct.X
					}
					switch y := rv.(type) {
					case *ssa.MakeClosure:
						f, _ := y.Fn.(*ssa.Function)
						add(f)
					case *ssa.Function:
						add(y)
					default:
						okAll = false
					}
				}
			}
			if n == 0 {
				okAll = false
			}
		case *ssa.UnOp:
			// a struct holding functions, built in place
			al, isAl := x.X.(*ssa.Alloc)
			if !isAl || x.Op != token.MUL {
				okAll = false
				return
			}
			for _, ref := range *al.Referrers() {
				if fa, ok := ref.(*ssa.FieldAddr); ok {
					for _, r2 := range *fa.Referrers() {
						if st, ok := r2.(*ssa.Store); ok && st.Addr == ssa.Value(fa) {
							if _, isFn := st.Val.Type().Underlying().(*types.Signature); isFn {
								entry(st.Val, d+1)
							}
						}
					}
				}
			}
		default:
			if _, isFn := v.Type().Underlying().(*types.Signature); isFn {
				okAll = false
			}
		}
	}
	holdsFuncs := func(t types.Type) bool {
		switch u := t.Underlying().(type) {
		case *types.Signature:
			return true
		case *types.Struct:
			for i := 0; i < u.NumFields(); i++ {
				if _, isFn := u.Field(i).Type().Underlying().(*types.Signature); isFn {
					return true
				}
			}
		}
		return false
	}
	for _, fn := range inits {
		containers := map[ssa.Value]bool{}
		for _, b := range fn.Blocks {
			for _, ins := range b.Instrs {
				if st, ok := ins.(*ssa.Store); ok && st.Addr == ssa.Value(g) {
					switch st.Val.(type) {
					case *ssa.MakeMap, *ssa.Slice, *ssa.MakeSlice:
						containers[st.Val] = true
						if sl, ok := st.Val.(*ssa.Slice); ok {
							containers[sl.X] = true
						}
					default:
						entry(st.Val, 0)
					}
				}
			}
		}
		for _, b := range fn.Blocks {
			for _, ins := range b.Instrs {
				switch x := ins.(type) {
				case *ssa.MapUpdate:
					isG := containers[x.Map]
					if ld, ok := x.Map.(*ssa.UnOp); ok && ld.X == ssa.Value(g) {
						isG = true
					}
					if isG && holdsFuncs(x.Value.Type()) {
						entry(x.Value, 0)
					}
				case *ssa.Store:
					if ia, ok := x.Addr.(*ssa.IndexAddr); ok {
						isG := containers[ia.X] || ia.X == ssa.Value(g)
						if ld, ok := ia.X.(*ssa.UnOp); ok && ld.X == ssa.Value(g) {
							isG = true
						}
						if isG && holdsFuncs(x.Val.Type()) {
							entry(x.Val, 0)
						}
					}
				}
			}
		}
	}
	if !okAll {
		return nil, nil, false
	}
	return g, fns, len(fns) > 0
}

// listElems: the values put into a slice that is built in the function itself
// (a literal, make, append of single values, φ of such); ok is false when the
// slice comes from anywhere else.
func listElems(v ssa.Value) ([]ssa.Value, bool) {
	var out []ssa.Value
	seen := map[ssa.Value]bool{}
	ok := true
	var walk func(v ssa.Value, d int)
	walk = func(v ssa.Value, d int) {
		if v == nil || seen[v] || !ok {
			return
		}
		seen[v] = true
		if d > 12 {
			ok = false
			return
		}
		switch x := v.(type) {
		case *ssa.Const:
			if !x.IsNil() {
				ok = false
			}
		case *ssa.Phi:
			for _, e := range x.Edges {
				walk(e, d+1)
			}
		case *ssa.MakeSlice:
		case *ssa.Slice:
			walk(x.X, d+1)
		case *ssa.Alloc:
			// an array literal or the argument array of a variadic call
			for _, ref := range *x.Referrers() {
				switch y := ref.(type) {
				case *ssa.IndexAddr:
					for _, r2 := range *y.Referrers() {
						if st, isSt := r2.(*ssa.Store); isSt && st.Addr == ssa.Value(y) {
							out = append(out, st.Val)
						}
					}
				case *ssa.Slice, *ssa.DebugRef:
				default:
					ok = false
				}
			}
		case *ssa.Call:
			if _, isApp := isBuiltinCall(x, "append"); isApp {
				walk(x.Call.Args[0], d+1)
				walk(x.Call.Args[1], d+1)
				return
			}
			ok = false
		case *ssa.UnOp:
			if al, isAl := x.X.(*ssa.Alloc); isAl && x.Op == token.MUL {
				for _, ref := range *al.Referrers() {
					switch y := ref.(type) {
					case *ssa.Store:
						if y.Addr == ssa.Value(al) {
							walk(y.Val, d+1)
						}
					case *ssa.MakeClosure:
						// the variable is captured: what the closure stores into it
						cf, isFn := y.Fn.(*ssa.Function)
						if !isFn {
							ok = false
							continue
						}
						for i, bnd := range y.Bindings {
							if bnd != ssa.Value(al) || i >= len(cf.FreeVars) {
								continue
							}
							fv := cf.FreeVars[i]
							for _, r2 := range *fv.Referrers() {
								if st, isSt := r2.(*ssa.Store); isSt && st.Addr == ssa.Value(fv) {
									walk(st.Val, d+1)
								}
							}
						}
					}
				}
				return
			}
			// the captured variable read inside the closure: the same list
			if _, isFV := x.X.(*ssa.FreeVar); isFV && x.Op == token.MUL {
				return
			}
			ok = false
		default:
			ok = false
		}
	}
	walk(v, 0)
	return out, ok
}

// localSources: v is read out of a local aggregate — an element of a list
// built in the function, a field of a local struct, or a field of such an
// element — and these are the values that were put there.
func localSources(v ssa.Value) ([]ssa.Value, bool) {
	var project func(e ssa.Value, path []int, d int) ([]ssa.Value, bool)
	var resolve func(v ssa.Value, path []int, d int) ([]ssa.Value, bool)
	// project: the value at the field path inside the (struct) value e
	project = func(e ssa.Value, path []int, d int) ([]ssa.Value, bool) {
		if len(path) == 0 {
			return []ssa.Value{e}, true
		}
		if d > 10 {
			return nil, false
		}
		ld, ok := e.(*ssa.UnOp)
		if !ok || ld.Op != token.MUL {
			return nil, false
		}
		if ia, isIA := ld.X.(*ssa.IndexAddr); isIA {
			// an element of a list built in the function: each value put there
			elems, ok := listElems(ia.X)
			if !ok {
				return nil, false
			}
			var out []ssa.Value
			for _, el := range elems {
				vs, ok := project(el, path, d+1)
				if !ok {
					return nil, false
				}
				out = append(out, vs...)
			}
			return out, len(out) > 0
		}
		al, ok := ld.X.(*ssa.Alloc)
		if !ok {
			return nil, false
		}
		var out []ssa.Value
		for _, ref := range *al.Referrers() {
			switch y := ref.(type) {
			case *ssa.FieldAddr:
				if y.Field != path[0] {
					continue
				}
				for _, r2 := range *y.Referrers() {
					if st, isSt := r2.(*ssa.Store); isSt && st.Addr == ssa.Value(y) {
						vs, ok := project(st.Val, path[1:], d+1)
						if !ok {
							return nil, false
						}
						out = append(out, vs...)
					}
				}
			case *ssa.Store:
				if y.Addr == ssa.Value(al) {
					vs, ok := project(y.Val, path, d+1)
					if !ok {
						return nil, false
					}
					out = append(out, vs...)
				}
			}
		}
		return out, len(out) > 0
	}
	resolve = func(v ssa.Value, path []int, d int) ([]ssa.Value, bool) {
		if d > 10 {
			return nil, false
		}
		switch x := v.(type) {
		case *ssa.MakeInterface:
			return resolve(x.X, path, d+1)
		case *ssa.ChangeInterface:
			return resolve(x.X, path, d+1)
		case *ssa.Field:
			return resolve(x.X, append([]int{x.Field}, path...), d+1)
		case *ssa.UnOp:
			if x.Op != token.MUL {
				return nil, false
			}
			switch a := x.X.(type) {
			case *ssa.FieldAddr:
				// field of a local struct variable, or of an element
				switch base := a.X.(type) {
				case *ssa.Alloc:
					return project(&ssa.UnOp{Op: token.MUL, X: base}, append([]int{a.Field}, path...), d+1)
				case *ssa.IndexAddr:
					elems, ok := listElems(base.X)
					if !ok {
						return nil, false
					}
					var out []ssa.Value
					for _, e := range elems {
						vs, ok := project(e, append([]int{a.Field}, path...), d+1)
						if !ok {
							return nil, false
						}
						out = append(out, vs...)
					}
					return out, len(out) > 0
				}
			case *ssa.IndexAddr:
				elems, ok := listElems(a.X)
				if !ok {
					return nil, false
				}
				var out []ssa.Value
				for _, e := range elems {
					vs, ok := project(e, path, d+1)
					if !ok {
						return nil, false
					}
					out = append(out, vs...)
				}
				return out, len(out) > 0
			case *ssa.Alloc:
				return project(x, path, d+1)
			}
		}
		return nil, false
	}
	return resolve(v, nil, 0)
}

// funcTableEntries: the functions a package-level map with string keys holds,
// by key, as its initialisation stores them.
func funcTableEntries(p *Program, g *ssa.Global) map[string]*ssa.Function {
	out := map[string]*ssa.Function{}
	var fns []*ssa.Function
	if pi := g.Pkg.Func("init"); pi != nil {
		fns = append(fns, pi)
	}
	for _, fn := range p.Fns {
		if fn.Pkg == g.Pkg && strings.HasPrefix(fn.Name(), "init#") {
			fns = append(fns, fn)
		}
	}
	for _, fn := range fns {
		// the map built for g: the MakeMap stored into it
		maps := map[ssa.Value]bool{}
		for _, b := range fn.Blocks {
			for _, ins := range b.Instrs {
				if st, ok := ins.(*ssa.Store); ok && st.Addr == ssa.Value(g) {
					maps[st.Val] = true
				}
			}
		}
		for _, b := range fn.Blocks {
			for _, ins := range b.Instrs {
				mu, ok := ins.(*ssa.MapUpdate)
				if !ok {
					continue
				}
				isG := maps[mu.Map]
				if ld, ok := mu.Map.(*ssa.UnOp); ok && ld.X == ssa.Value(g) {
					isG = true
				}
				k, isK := mu.Key.(*ssa.Const)
				if !isG || !isK || k.Value == nil || k.Value.Kind() != constant.String {
					continue
				}
				v := mu.Value
				if ct, ok := v.(*ssa.ChangeType); ok {
					v = ct.X
				}
				switch x := v.(type) {
				case *ssa.Function:
					out[constant.StringVal(k.Value)] = x
				case *ssa.MakeClosure:
					if f, ok := x.Fn.(*ssa.Function); ok {
						out[constant.StringVal(k.Value)] = f
					}
				}
			}
		}
	}
	return out
}

// funcDeclOf: the declaration of a function or method of the module.
func funcDeclOf(p *Program, fobj *types.Func) *ast.FuncDecl {
	if fobj == nil || fobj.Pkg() == nil {
		return nil
	}
	pk := p.ByPath[fobj.Pkg().Path()]
	if pk == nil {
		return nil
	}
	for _, f := range pk.Syntax {
		for _, d := range f.Decls {
			if fd, ok := d.(*ast.FuncDecl); ok && pk.TypesInfo.Defs[fd.Name] == types.Object(fobj) {
				return fd
			}
		}
	}
	return nil
}

var interpreterOnlyCache = map[*Program]map[*ssa.Function]bool{}

// interpreterOnly: the functions of the machine that only the interpreter
// runs — every static call of them sits in the interpreter itself or in another
// such function, and they are never used as values.  They are parts of opcode
// handlers that were given a function of their own (whatever the number of
// handlers that share them).
func interpreterOnly(p *Program, a *anchors) map[*ssa.Function]bool {
	if m, ok := interpreterOnlyCache[p]; ok {
		return m
	}
	cand := map[*ssa.Function]bool{}
	for _, f := range p.LibFns {
		if fnPkg(f) == nil || fnPkg(f).Pkg.Path() != Mod+"/vm" || f.Parent() != nil || f == a.vmRun || f == a.vmEntry || f == a.vmNew {
			continue
		}
		if f.Object() != nil && f.Object().Exported() {
			continue // part of the machine's API: others may call it
		}
		if functionUsedAsValue(p, f) || len(staticCallSites(p, f)) == 0 {
			continue
		}
		cand[f] = true
	}
	for changed := true; changed; {
		changed = false
		for f := range cand {
			for _, site := range staticCallSites(p, f) {
				caller := site.Parent()
				for caller != nil && caller.Parent() != nil {
					caller = caller.Parent()
				}
				if caller != a.vmRun && !cand[caller] {
					delete(cand, f)
					changed = true
					break
				}
			}
		}
	}
	interpreterOnlyCache[p] = cand
	return cand
}

// closureDeletesFrom: the function literal behind mc removes an entry from the
// set kept in the field fk: delete(set, key) where set is that field read
// through the captured receiver, or a captured local that was assigned that
// field's value (`set := vm.converting; return func() { delete(set, ref) }`).
func closureDeletesFrom(mc *ssa.MakeClosure, fk string) bool {
	body, ok := mc.Fn.(*ssa.Function)
	if !ok {
		return false
	}
	holdsField := func(v ssa.Value) bool {
		// the captured variable: an Alloc whose stores are loads of the field
		al, ok := v.(*ssa.Alloc)
		if !ok {
			return false
		}
		n := 0
		for _, ref := range *al.Referrers() {
			if st, ok := ref.(*ssa.Store); ok && st.Addr == ssa.Value(al) {
				n++
				ld, ok := st.Val.(*ssa.UnOp)
				if !ok || fieldKey(ld.X) != fk {
					return false
				}
			}
		}
		return n > 0
	}
	for _, b := range body.Blocks {
		for _, ins := range b.Instrs {
			c, ok := ins.(*ssa.Call)
			if !ok {
				continue
			}
			bi, ok := c.Call.Value.(*ssa.Builtin)
			if !ok || bi.Name() != "delete" || len(c.Call.Args) != 2 {
				continue
			}
			ld, ok := c.Call.Args[0].(*ssa.UnOp)
			if !ok {
				continue
			}
			if fieldKey(ld.X) == fk {
				return true
			}
			if fv, ok := ld.X.(*ssa.FreeVar); ok {
				for i, q := range body.FreeVars {
					if q == fv && i < len(mc.Bindings) && holdsField(mc.Bindings[i]) {
						return true
					}
				}
			}
		}
	}
	return false
}

// undoHandedBack: h hands back, next to a true last result, a function that
// removes from the set fk — on every such return; and nil (or nothing that
// will be called) otherwise.
func undoHandedBack(h *ssa.Function, fk string) (idx int, ok bool) {
	if h == nil || len(h.Blocks) == 0 {
		return 0, false
	}
	rs := h.Signature.Results()
	idx = -1
	for i := 0; i < rs.Len(); i++ {
		if sg, isSig := rs.At(i).Type().Underlying().(*types.Signature); isSig && sg.Params().Len() == 0 && sg.Results().Len() == 0 {
			idx = i
		}
	}
	if idx < 0 {
		return 0, false
	}
	n := 0
	for _, b := range h.Blocks {
		ret, isRet := terminator(b).(*ssa.Return)
		if !isRet || idx >= len(ret.Results) {
			continue
		}
		v := returnOperand(ret, idx)
		if c, isC := v.(*ssa.Const); isC && c.IsNil() {
			continue
		}
		mc, isMC := v.(*ssa.MakeClosure)
		if !isMC || !closureDeletesFrom(mc, fk) {
			return 0, false
		}
		n++
	}
	return idx, n > 0
}

// defersUndoHandedBack: g defers the function a call of such a helper handed
// back (`leave, ok := vm.enterHost(x); if !ok {…}; defer leave()`).
func defersUndoHandedBack(g *ssa.Function, fk string) bool {
	for _, b := range g.Blocks {
		for _, ins := range b.Instrs {
			d, ok := ins.(*ssa.Defer)
			if !ok || d.Call.IsInvoke() || d.Call.StaticCallee() != nil {
				continue
			}
			for _, o := range origins(d.Call.Value) {
				var cl *ssa.Call
				idx := 0
				switch x := o.(type) {
				case *ssa.Extract:
					cl, _ = x.Tuple.(*ssa.Call)
					idx = x.Index
				case *ssa.Call:
					cl = x
				}
				if cl == nil || cl.Call.StaticCallee() == nil {
					continue
				}
				if hi, ok := undoHandedBack(cl.Call.StaticCallee(), fk); ok && hi == idx {
					return true
				}
			}
		}
	}
	return false
}
