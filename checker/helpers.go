package main

import (
	"go/ast"
	"go/token"
	"go/types"
	"sort"
	"strings"

	"golang.org/x/tools/go/ssa"
)

// Helpers for looking through extracted functions.
//
// A maintainer may move the body of a case, a block or a repeated expression
// into a function of its own without changing anything the program does.  The
// rules are written against constructs ("the case that translates a switch",
// "the call that patches a jump"), not against the function the construct's
// text happens to sit in; these helpers find the construct again.

// Home: for a library function that is called from exactly one instruction of
// library code (statically) and is not used as a value anywhere, the calling
// function and the call.  Otherwise nil.
func (p *Program) Home(fn *ssa.Function) (*ssa.Function, ssa.CallInstruction) {
	if p.homes == nil {
		p.homes = map[*ssa.Function]homeSite{}
		lib := map[*ssa.Function]bool{}
		for _, f := range p.LibFns {
			lib[f] = true
		}
		count := map[*ssa.Function]int{}
		valueUse := map[*ssa.Function]bool{}
		site := map[*ssa.Function]homeSite{}
		for _, f := range p.LibFns {
			for _, b := range f.Blocks {
				for _, ins := range b.Instrs {
					var callee *ssa.Function
					if ci, ok := ins.(ssa.CallInstruction); ok {
						callee = ci.Common().StaticCallee()
						if callee != nil && lib[callee] && callee.Parent() == nil {
							count[callee]++
							site[callee] = homeSite{f, ci}
						}
					}
					for _, op := range ins.Operands(nil) {
						if op == nil || *op == nil {
							continue
						}
						if g, ok := (*op).(*ssa.Function); ok && g != callee {
							valueUse[g] = true
						}
						if mc, ok := (*op).(*ssa.MakeClosure); ok {
							if g, ok := mc.Fn.(*ssa.Function); ok {
								valueUse[g] = true
							}
						}
					}
				}
			}
		}
		for f, n := range count {
			if n == 1 && !valueUse[f] && site[f].caller != f {
				p.homes[f] = site[f]
			}
		}
	}
	h, ok := p.homes[fn]
	if !ok {
		return nil, nil
	}
	return h.caller, h.site
}

type homeSite struct {
	caller *ssa.Function
	site   ssa.CallInstruction
}

// caseHome: the function and the case label (of a switch in its syntax) that
// enclose pos in fn; if fn's own syntax has no case around pos and fn has a
// home, the case around its one call site, and so on.
func caseHome(p *Program, fn *ssa.Function, pos token.Pos) (*ssa.Function, string) {
	for d := 0; d < 4; d++ {
		if l := outerCase(p, fn, pos); l != "" {
			return fn, l
		}
		caller, site := p.Home(fn)
		if caller == nil {
			return fn, ""
		}
		fn, pos = caller, site.Pos()
	}
	return fn, ""
}

// nodeHandler: where the compiler translates one type of syntax node — the
// case of its type switch, or the function that case hands the node to.
type nodeHandler struct {
	typ   *types.Pointer  // *ast.T
	fn    *ssa.Function   // function holding the translation
	node  ssa.Value       // the node, typed (*ast.T), inside fn
	entry *ssa.BasicBlock // first block of the translation
	label string          // "case *ast.T" — as the type switch spells it
}

// in reports whether block b belongs to the handler.
func (h nodeHandler) in(b *ssa.BasicBlock) bool {
	return b.Parent() == h.fn && (b == h.entry || h.entry.Dominates(b))
}

// nodeHandlers lists the handlers of the compiler's type switch.  A case whose
// region does nothing but pass the node on to one library function (and hand
// back its result) is represented by that function.
func nodeHandlers(p *Program, a *anchors) []nodeHandler {
	fn := a.compile
	var out []nodeHandler
	if len(fn.Params) < 2 {
		return nil
	}
	for _, b := range fn.Blocks {
		for _, ins := range b.Instrs {
			ta, ok := ins.(*ssa.TypeAssert)
			if !ok || !ta.CommaOk || ta.X != ssa.Value(fn.Params[1]) {
				continue
			}
			pt, ok := ta.AssertedType.(*types.Pointer)
			if !ok || !isASTish(pt) {
				continue
			}
			var typed, okv ssa.Value
			for _, ref := range *ta.Referrers() {
				if ex, isEx := ref.(*ssa.Extract); isEx {
					if ex.Index == 0 {
						typed = ex
					} else {
						okv = ex
					}
				}
			}
			if okv == nil {
				continue
			}
			var entry *ssa.BasicBlock
			for _, ref := range *okv.Referrers() {
				if iff, isIf := ref.(*ssa.If); isIf {
					entry = iff.Block().Succs[0]
				}
			}
			if entry == nil || len(entry.Preds) != 1 {
				continue
			}
			h := nodeHandler{typ: pt, fn: fn, node: typed, entry: entry, label: "case " + typeStr(pt)}
			if typed != nil {
				if g, prm := passesNodeOn(p, h); g != nil {
					h.fn, h.node, h.entry = g, prm, g.Blocks[0]
				}
			}
			out = append(out, h)
		}
	}
	return out
}

// passesNodeOn: the handler's region contains exactly one call of a library
// function that receives the node, and otherwise no call at all: the callee
// and its parameter for the node.
func passesNodeOn(p *Program, h nodeHandler) (*ssa.Function, ssa.Value) {
	var callee *ssa.Function
	var prm ssa.Value
	for _, b := range h.fn.Blocks {
		if !h.in(b) {
			continue
		}
		for _, ins := range b.Instrs {
			cc := callOf(ins)
			if cc == nil {
				continue
			}
			g := cc.StaticCallee()
			if g == nil || callee != nil || len(g.Blocks) == 0 || fnPkg(g) == nil || !IsLibPath(fnPkg(g).Pkg.Path()) {
				return nil, nil
			}
			idx := -1
			for i, arg := range cc.Args {
				if arg == h.node {
					idx = i
				}
			}
			if idx < 0 || idx >= len(g.Params) {
				return nil, nil
			}
			callee, prm = g, g.Params[idx]
		}
	}
	return callee, prm
}

// compilerFamily: the compile function and the library functions of its
// package that it reaches and that themselves emit code or call back into it —
// the functions among which the translation of the syntax tree is spread.
// (The emitter, the patcher and the constant pool are not members.)
func compilerFamily(p *Program, a *anchors) []*ssa.Function {
	out := []*ssa.Function{a.compile}
	var rest []*ssa.Function
	for f := range p.Reachable(a.compile) {
		if f == a.compile || f == a.emit || f == a.changeOperand || f == a.addConstant || f.Parent() != nil {
			continue
		}
		if fnPkg(f) == nil || fnPkg(f).Pkg.Path() != Mod || !recvNamed(f, "", "Eval") {
			continue
		}
		translates := false
		for _, b := range f.Blocks {
			for _, ins := range b.Instrs {
				if cc := callOf(ins); cc != nil && (cc.StaticCallee() == a.emit || cc.StaticCallee() == a.compile) {
					translates = true
				}
			}
		}
		if translates {
			rest = append(rest, f)
		}
	}
	sort.Slice(rest, func(i, j int) bool { return p.FnName(rest[i]) < p.FnName(rest[j]) })
	return append(out, rest...)
}

// delegatedBody: when the statements do nothing but call one function of the
// module (and hand its result or error on), the statements of that function's
// body and the type information they were checked with; otherwise the
// statements themselves.  A case of a big switch whose text was moved into a
// function of its own is then read where it now lives.
func delegatedBody(p *Program, info *types.Info, stmts []ast.Stmt) ([]ast.Stmt, *types.Info) {
	var calls []*ast.CallExpr
	for _, st := range stmts {
		ast.Inspect(st, func(n ast.Node) bool {
			if ce, ok := n.(*ast.CallExpr); ok {
				if tv, ok := info.Types[ce.Fun]; ok && tv.IsType() {
					return true // a conversion
				}
				calls = append(calls, ce)
			}
			return true
		})
	}
	if len(calls) != 1 || len(stmts) > 3 {
		return stmts, info
	}
	f, ok := calleeObj(info, calls[0]).(*types.Func)
	if !ok || f.Pkg() == nil || !strings.HasPrefix(f.Pkg().Path(), Mod) {
		return stmts, info
	}
	for _, fn := range p.LibFns {
		if fn.Object() == types.Object(f) {
			if fd := p.FuncDecl(fn); fd != nil && fd.Body != nil {
				return fd.Body.List, p.Info(fn)
			}
		}
	}
	return stmts, info
}

// linear: v = base + k for a constant k (through additions and subtractions
// of constants).
func linear(v ssa.Value) (ssa.Value, int64) {
	k := int64(0)
	for d := 0; d < 4; d++ {
		bo, ok := v.(*ssa.BinOp)
		if !ok || (bo.Op != token.ADD && bo.Op != token.SUB) {
			break
		}
		c, ok := constInt(bo.Y)
		if !ok {
			break
		}
		if bo.Op == token.SUB {
			c = -c
		}
		k += c
		v = bo.X
	}
	return v, k
}

// induction: idx = φ + c where φ = φ(init, φ + step) is a loop counter.  The
// counter may be written `for n > lo { … [n-1] …; n-- }` or `for i := hi;
// i >= lo; i-- { … [i] … }`: both give the same first index and step.
func induction(idx ssa.Value) (ph *ssa.Phi, c int64, init ssa.Value, step int64, ok bool) {
	base, c := linear(idx)
	ph, isPhi := base.(*ssa.Phi)
	if !isPhi || len(ph.Edges) != 2 {
		return nil, 0, nil, 0, false
	}
	haveStep := false
	for _, e := range ph.Edges {
		eb, ek := linear(e)
		if eb == ssa.Value(ph) {
			step, haveStep = ek, true
		} else {
			init = e
		}
	}
	if init == nil || !haveStep {
		return nil, 0, nil, 0, false
	}
	return ph, c, init, step, true
}

// mustPerform: on every path from the entry of fn to a return, some
// instruction satisfies pred — or is a call of a library function that itself
// must perform it (followed to the given depth).
func mustPerform(fn *ssa.Function, pred func(ssa.Instruction) bool, depth int) bool {
	if fn == nil || len(fn.Blocks) == 0 || depth < 0 {
		return false
	}
	does := map[*ssa.BasicBlock]bool{}
	for _, b := range fn.Blocks {
		for _, ins := range b.Instrs {
			if performs(ins, pred, depth) {
				does[b] = true
			}
		}
	}
	seen := map[*ssa.BasicBlock]bool{}
	ok := true
	var walk func(b *ssa.BasicBlock)
	walk = func(b *ssa.BasicBlock) {
		if !ok || seen[b] || does[b] {
			return
		}
		seen[b] = true
		if _, isRet := terminator(b).(*ssa.Return); isRet {
			ok = false
			return
		}
		for _, s := range b.Succs {
			walk(s)
		}
	}
	walk(fn.Blocks[0])
	return ok
}

// performs: the instruction satisfies pred, or calls a library function that
// must perform it.
func performs(ins ssa.Instruction, pred func(ssa.Instruction) bool, depth int) bool {
	if pred(ins) {
		return true
	}
	if depth <= 0 {
		return false
	}
	if cc := callOf(ins); cc != nil {
		if g := cc.StaticCallee(); g != nil && fnPkg(g) != nil && IsLibPath(fnPkg(g).Pkg.Path()) && len(g.Blocks) > 0 {
			return mustPerform(g, pred, depth-1)
		}
	}
	return false
}

// mayPerform: some instruction of fn, or of a library function it calls
// (followed to the given depth), satisfies pred; the first such instruction
// of fn itself (the call, when the effect is inside the callee).
func mayPerform(fn *ssa.Function, pred func(ssa.Instruction) bool, depth int) ssa.Instruction {
	if fn == nil || depth < 0 {
		return nil
	}
	for _, b := range fn.Blocks {
		for _, ins := range b.Instrs {
			if pred(ins) {
				return ins
			}
			if depth > 0 {
				if cc := callOf(ins); cc != nil {
					if g := cc.StaticCallee(); g != nil && g != fn && fnPkg(g) != nil && IsLibPath(fnPkg(g).Pkg.Path()) && len(g.Blocks) > 0 {
						if mayPerform(g, pred, depth-1) != nil {
							return ins
						}
					}
				}
			}
		}
	}
	return nil
}

// staticCalleesWithin: the library functions fn calls statically, and those
// they call, down to the given depth (fn itself excluded).
func staticCalleesWithin(p *Program, fn *ssa.Function, depth int) []*ssa.Function {
	seen := map[*ssa.Function]bool{fn: true}
	var out []*ssa.Function
	var walk func(f *ssa.Function, d int)
	walk = func(f *ssa.Function, d int) {
		if d == 0 {
			return
		}
		for _, b := range f.Blocks {
			for _, ins := range b.Instrs {
				cc := callOf(ins)
				if cc == nil {
					continue
				}
				g := cc.StaticCallee()
				if g == nil || seen[g] || len(g.Blocks) == 0 || fnPkg(g) == nil || !IsLibPath(fnPkg(g).Pkg.Path()) {
					continue
				}
				seen[g] = true
				out = append(out, g)
				walk(g, d-1)
			}
		}
	}
	walk(fn, depth)
	return out
}
