package main

// Cell-level rules: small tables and protocols whose every cell is visible in
// the shape of the code — unary operators, regexp-match cells, membership and
// case matching, the logic operators' truth tables, iteration steps, the range
// constructor, the reflection kind table, argument/element order on the stack,
// call errors and lookup order, scope search direction, assignment redirect,
// len(), the time-field table, nil machine.

import (
	"fmt"
	"go/ast"
	"go/constant"
	"go/token"
	"go/types"
	"sort"
	"strings"

	"golang.org/x/tools/go/ssa"
)

func init() {
	register(&Rule{ID: "R-UNARY", Floor: 3, Run: ruleUnary,
		Text: "Unary minus returns the negated value with the operand's own numeric type, square root returns a float computed by math.Sqrt, and ! is decided by the operand's dynamic type: the negated wrapped bool for a boolean, true for null, false for anything else."})
	register(&Rule{ID: "R-MATCHCELLS", Floor: 2, Run: ruleMatchCells,
		Text: "~= pushes true exactly when the match built-in reports a match of (string, regexp) in that order, and !~ pushes the opposite."})
	register(&Rule{ID: "R-MEMBERSHIP", Floor: 2, Run: ruleMembership,
		Text: "`in` on an array and the switch-case comparison find a value only when both its type and its printed form are equal (1 is not \"1\"); a regexp case defers to the match built-in with (value, regexp)."})
	register(&Rule{ID: "R-LOGICCELLS", Floor: 2, Run: ruleLogicCells,
		Text: "The clauses for && and || compute the truth tables of conjunction and disjunction over left.True() and right.True() (all four combinations, evaluated symbolically from the clause bodies)."})
	register(&Rule{ID: "R-ITERNEXT", Floor: 3, Run: ruleIterNext,
		Text: "Every Next() of an iterable steps once: under the guard cursor < length it yields the element at the cursor's old position together with that position (or the entry's key) and advances the cursor by exactly one; otherwise it reports exhaustion."})
	register(&Rule{ID: "R-RANGE", Floor: 3, Run: ruleRange,
		Text: "a..b is the inclusive integer range: its length is b-a+1, element i is a+i, and a start above the end is an error."})
	register(&Rule{ID: "R-KINDTABLE", Floor: 12, Run: ruleKindTable,
		Text: "Host values are converted by kind without loss: int kinds → Integer of the value, floats → Float, string → String, bool → Boolean, time.Time → Integer of Unix seconds, for struct fields / map values and for slice elements alike; a conversion never transforms the value (no negation, no arithmetic)."})
	register(&Rule{ID: "R-POPORDER", Floor: 2, Run: rulePopOrder,
		Text: "Operands are pushed left to right and popped right to left: array elements and call arguments popped from the stack are stored from the last index down, so they keep the written order."})
	register(&Rule{ID: "R-CALLPROTO", Floor: 3, Run: ruleCallProto,
		Text: "A call looks the name up among host/built-in functions before user-defined ones (a built-in wins), an unknown name is a run-time error, and a user-defined function is entered only when the number of arguments equals the number of parameters."})
	register(&Rule{ID: "R-SCOPESEARCH", Floor: 3, Run: ruleScopeSearch,
		Text: "Variables are looked up innermost scope first (the search starts at the last scope and walks towards the first) before the globals, and an assignment to a name that is an existing local updates that local instead of creating a global."})
	register(&Rule{ID: "R-LENKIND", Floor: 3, Run: ruleLenKind,
		Text: "len() counts elements of an array, pairs of a hash, and characters (runes, not bytes) of anything else's printed form."})
	register(&Rule{ID: "R-TIMEFIELDS", Floor: 8, Run: ruleTimeFields,
		Text: "hour/minute/seconds/day/month/year/weekday each return the component of the host time library's decomposition that their name says (Clock: hour, minute, second; Date: year, month, day; Weekday().String())."})
	register(&Rule{ID: "R-MACHINENIL", Floor: 1, Run: ruleMachineNil,
		Text: "An API method without a recover of its own uses the prepared machine only after testing that Prepare built one; and the deferred clean-up of an API method — which runs while a panic unwinds, outside any recover — touches the machine only under such a test (or through a method that tests its own receiver)."})
}

// handlerClause returns the case clause of the interpreter's dispatch switch
// for the named opcode.
func handlerClause(p *Program, a *anchors, op string) *ast.CaseClause {
	sw := dispatchSwitch(p, a.vmRun)
	if sw == nil {
		return nil
	}
	info := p.Info(a.vmRun)
	for _, cc := range sw.Body.List {
		cl := cc.(*ast.CaseClause)
		for _, e := range cl.List {
			if opConstName(info, e) == op {
				return cl
			}
		}
	}
	return nil
}

// handlerStmts: the statements that implement the handler of op — the body of
// its clause in the dispatch loop, or of the one function that clause calls.
func handlerStmts(p *Program, a *anchors, op string) ([]ast.Stmt, *types.Info, token.Pos) {
	cl := handlerClause(p, a, op)
	if cl == nil {
		return nil, nil, token.NoPos
	}
	stmts, info := delegatedBody(p, p.Info(a.vmRun), cl.Body)
	pos := cl.Pos()
	if len(stmts) > 0 {
		pos = stmts[0].Pos()
	}
	return stmts, info, pos
}

// vmFuncCalledFrom: the VM method called in the handler clause of op
// (executeBangOperator etc.), nil when the handler is inline.
func vmFuncCalledFrom(p *Program, a *anchors, op string) *ssa.Function {
	cl := handlerClause(p, a, op)
	if cl == nil {
		return nil
	}
	info := p.Info(a.vmRun)
	var out *ssa.Function
	for _, st := range cl.Body {
		ast.Inspect(st, func(n ast.Node) bool {
			ce, ok := n.(*ast.CallExpr)
			if !ok {
				return true
			}
			if f, ok := calleeObj(info, ce).(*types.Func); ok && f.Pkg() != nil && f.Pkg().Path() == Mod+"/vm" {
				for _, fn := range p.LibFns {
					if fn.Object() == types.Object(f) {
						out = fn
					}
				}
			}
			return true
		})
	}
	return out
}

// ---------------------------------------------------------------------------
// R-UNARY

func ruleUnary(p *Program, r *Reporter) {
	a := needAnchors(p, r)
	if a == nil {
		return
	}
	// minus and square root: type switch on the popped operand
	for _, spec := range []struct{ op, what string }{{"OpMinus", "negation"}, {"OpSquareRoot", "square root"}} {
		key := spec.what + " keeps the language's result type"
		// the handler: its clause in the dispatch loop, or the function the
		// clause hands over to
		stmts, info, hpos := handlerStmts(p, a, spec.op)
		if stmts == nil {
			r.Undecided(key, "-", "cannot find the handler of "+spec.op)
			continue
		}
		var ts *ast.TypeSwitchStmt
		for _, st := range stmts {
			ast.Inspect(st, func(n ast.Node) bool {
				if t, ok := n.(*ast.TypeSwitchStmt); ok && ts == nil {
					ts = t
				}
				return true
			})
		}
		if ts == nil {
			r.Undecided(key, p.Pos(hpos), "no type switch over the operand")
			continue
		}
		good, why := true, ""
		seen := map[string]bool{}
		for _, cc := range ts.Body.List {
			cl := cc.(*ast.CaseClause)
			if len(cl.List) != 1 {
				continue
			}
			in := objectStructName(info.Types[cl.List[0]].Type)
			if in == "" {
				continue
			}
			seen[in] = true
			// result literal in the clause
			var lit *ast.CompositeLit
			var val ast.Expr
			for _, st := range cl.Body {
				ast.Inspect(st, func(n ast.Node) bool {
					if c, ok := n.(*ast.CompositeLit); ok && lit == nil {
						if objectStructName(info.Types[c].Type) != "" {
							lit = c
							for _, el := range c.Elts {
								if kv, ok := el.(*ast.KeyValueExpr); ok {
									val = kv.Value
								}
							}
						}
					}
					return true
				})
			}
			if lit == nil || val == nil {
				good, why = false, "no result object built for a "+in+" operand"
				continue
			}
			out := objectStructName(info.Types[lit].Type)
			switch spec.op {
			case "OpMinus":
				ue, isNeg := ast.Unparen(val).(*ast.UnaryExpr)
				if out != in {
					good, why = false, fmt.Sprintf("negating a %s yields a %s", in, out)
				} else if !isNeg || ue.Op != token.SUB {
					good, why = false, "the result is not the arithmetic negation of the operand's value: "+exprStr(val)
				}
			case "OpSquareRoot":
				ce, isCall := stripConv(info, val).(*ast.CallExpr)
				isSqrt := false
				if isCall {
					if f, ok := calleeObj(info, ce).(*types.Func); ok && f.FullName() == "math.Sqrt" {
						isSqrt = true
					}
				}
				if out != "Float" {
					good, why = false, fmt.Sprintf("the square root of a %s is a %s, not a float", in, out)
				} else if !isSqrt {
					good, why = false, "the result is not math.Sqrt of the operand's value: "+exprStr(val)
				}
			}
		}
		if !seen["Integer"] || !seen["Float"] {
			good, why = false, "the operator does not handle both integers and floats"
		}
		r.Check(good, key, p.Pos(hpos), "integer and float cases", why)
	}
	// bang
	key := "! is decided by the operand's dynamic type"
	stmts, info, hpos := handlerStmts(p, a, "OpBang")
	if stmts == nil {
		r.Undecided(key, "-", "cannot find the handler of OpBang")
		return
	}
	var ts *ast.TypeSwitchStmt
	for _, st := range stmts {
		ast.Inspect(st, func(n ast.Node) bool {
			if t, ok := n.(*ast.TypeSwitchStmt); ok && ts == nil {
				ts = t
			}
			return true
		})
	}
	if ts == nil {
		r.Fail(key, p.Pos(hpos), "the operand's dynamic type is not examined (no type switch): a boolean that is not the VM's own singleton is not negated")
		return
	}
	truth := singletonNames(p)
	got := map[string]string{}
	for _, cc := range ts.Body.List {
		cl := cc.(*ast.CaseClause)
		label := "default"
		if len(cl.List) >= 1 {
			var names []string
			for _, e := range cl.List {
				names = append(names, objectStructName(info.Types[e].Type))
			}
			label = strings.Join(names, ",")
		}
		args := pushArgs(info, cl.Body)
		if len(args) != 1 {
			got[label] = "?"
			continue
		}
		arg := ast.Unparen(args[0])
		if inner, ok := isBoolConv(info, arg); ok {
			if ue, ok := ast.Unparen(inner).(*ast.UnaryExpr); ok && ue.Op == token.NOT {
				if sel, ok := ast.Unparen(ue.X).(*ast.SelectorExpr); ok && sel.Sel.Name == "Value" {
					got[label] = "negated value"
					continue
				}
			}
			got[label] = "converted " + exprStr(inner)
			continue
		}
		if id, ok := arg.(*ast.Ident); ok {
			if t, ok := truth[info.Uses[id]]; ok {
				got[label] = t
				continue
			}
		}
		got[label] = exprStr(arg)
	}
	want := map[string]string{"Boolean": "negated value", "Null": "true", "default": "false"}
	good := true
	var diffs []string
	for k, w := range want {
		if got[k] != w {
			good = false
			diffs = append(diffs, fmt.Sprintf("%s → %s (must be %s)", k, got[k], w))
		}
	}
	for k, g := range got {
		if _, ok := want[k]; !ok && g != "false" {
			good = false
			diffs = append(diffs, fmt.Sprintf("%s → %s (anything that is neither a boolean nor null must give false: !0 is false although 0 is not truthy)", k, g))
		}
	}
	sort.Strings(diffs)
	sort.Strings(diffs)
	r.Check(good, key, p.Pos(hpos), "boolean → negated value, null → true, otherwise false", "the ! operator does not follow the language's table: "+strings.Join(diffs, "; "))
}

// singletonNames: package-level singletons of vm → "true"/"false"/"null"/"void".
func singletonNames(p *Program) map[types.Object]string {
	out := map[types.Object]string{}
	pk := p.ByPath[Mod+"/vm"]
	for _, f := range pk.Syntax {
		for _, d := range f.Decls {
			gd, ok := d.(*ast.GenDecl)
			if !ok || gd.Tok != token.VAR {
				continue
			}
			for _, sp := range gd.Specs {
				vs := sp.(*ast.ValueSpec)
				for i, nm := range vs.Names {
					if i >= len(vs.Values) {
						continue
					}
					ue, ok := vs.Values[i].(*ast.UnaryExpr)
					if !ok {
						continue
					}
					cl, ok := ue.X.(*ast.CompositeLit)
					if !ok {
						continue
					}
					switch objectStructName(pk.TypesInfo.Types[cl].Type) {
					case "Boolean":
						v := "false"
						for _, el := range cl.Elts {
							if kv, ok := el.(*ast.KeyValueExpr); ok {
								if tv := pk.TypesInfo.Types[kv.Value]; tv.Value != nil && constant.BoolVal(tv.Value) {
									v = "true"
								}
							}
						}
						out[pk.TypesInfo.Defs[nm]] = v
					case "Null":
						out[pk.TypesInfo.Defs[nm]] = "null"
					case "Void":
						out[pk.TypesInfo.Defs[nm]] = "void"
					}
				}
			}
		}
	}
	return out
}

// ---------------------------------------------------------------------------
// R-MATCHCELLS / R-MEMBERSHIP

func ruleMatchCells(p *Program, r *Reporter) {
	a := needAnchors(p, r)
	if a == nil {
		return
	}
	truth := singletonNames(p)
	var tbl *tableFn
	for _, fn := range a.optTables {
		if t := extractTable(p, fn); t != nil && t.lType == "String" && t.rType == "Regexp" {
			tbl = t
		}
	}
	if tbl == nil {
		// not written as a switch with a clause per operator: decide the cells
		// by walking the function under each assumption
		matchCellsByEvaluation(p, r, a)
		return
	}
	// read from the text first; where the text is not in the expected form
	// (one clause for both operators with the answer turned round, say) the
	// cells are decided by evaluation instead
	outer := r
	r = &Reporter{rule: outer.rule, prog: outer.prog}
	defer func() {
		for _, o := range r.obls {
			if o.Verdict == Undecided {
				matchCellsByEvaluation(p, outer, a)
				return
			}
		}
		for _, o := range r.obls {
			outer.add(o.Verdict, o.Key, o.Pos, o.Detail, o.Nontrivial)
		}
	}()
	for _, spec := range []struct {
		op        string
		onMatch   string
		onNoMatch string
	}{{"OpMatches", "true", "false"}, {"OpNotMatches", "false", "true"}} {
		key := "cell " + spec.op
		cl := tbl.clause[spec.op]
		if cl == nil {
			r.Fail(key, p.Pos(tbl.sw.Pos()), "the string/regexp table has no case for "+spec.op)
			continue
		}
		// arguments handed to the match function: []object.Object{l, r}
		orderOK := false
		var iff *ast.IfStmt
		for _, st := range cl.Body {
			ast.Inspect(st, func(n ast.Node) bool {
				if c, ok := n.(*ast.CompositeLit); ok && len(c.Elts) == 2 {
					if tbl.sideOf(c.Elts[0]) == "L" && tbl.sideOf(c.Elts[1]) == "R" {
						orderOK = true
					}
				}
				if i, ok := n.(*ast.IfStmt); ok && iff == nil && i.Else != nil {
					iff = i
				}
				return true
			})
		}
		if iff == nil {
			r.Undecided(key, p.Pos(cl.Pos()), "no if/else on the match result")
			continue
		}
		// condition: the boolean result's Value
		condOK := false
		if sel, ok := ast.Unparen(iff.Cond).(*ast.SelectorExpr); ok && sel.Sel.Name == "Value" {
			condOK = true
		}
		pushOf := func(b ast.Stmt) string {
			bs, ok := b.(*ast.BlockStmt)
			if !ok {
				return "?"
			}
			args := pushArgs(tbl.info, bs.List)
			if len(args) != 1 {
				return "?"
			}
			if id, ok := ast.Unparen(args[0]).(*ast.Ident); ok {
				return truth[tbl.info.Uses[id]]
			}
			return "?"
		}
		gotT, gotF := pushOf(iff.Body), pushOf(iff.Else)
		switch {
		case !orderOK:
			r.Fail(key, p.Pos(cl.Pos()), "the match function is not given (string, regexp) in that order")
		case !condOK:
			r.Undecided(key, p.Pos(iff.Pos()), "the branch condition is not the match result's Value")
		case gotT != spec.onMatch || gotF != spec.onNoMatch:
			r.Fail(key, p.Pos(iff.Pos()), fmt.Sprintf("%s pushes %s on a match and %s otherwise; the language defines %s / %s", spec.op, gotT, gotF, spec.onMatch, spec.onNoMatch))
		default:
			r.OkNT(key, p.Pos(iff.Pos()), fmt.Sprintf("match → %s, no match → %s, arguments (string, regexp)", gotT, gotF))
		}
	}
}

// matchCellsByEvaluation: the (String, Regexp) operator function is found by
// the types it asserts its operands to; for each operator and each answer of
// the matcher the function is walked and what it pushes is compared with the
// language's definition.
func matchCellsByEvaluation(p *Program, r *Reporter, a *anchors) {
	var fn *ssa.Function
	for _, f := range a.optTables {
		if len(f.Params) < 4 {
			continue
		}
		l, rr := false, false
		for _, b := range f.Blocks {
			for _, ins := range b.Instrs {
				ta, ok := ins.(*ssa.TypeAssert)
				if !ok {
					continue
				}
				if ta.X == ssa.Value(f.Params[2]) && objectStructName(ta.AssertedType) == "String" {
					l = true
				}
				if ta.X == ssa.Value(f.Params[3]) && objectStructName(ta.AssertedType) == "Regexp" {
					rr = true
				}
			}
		}
		if l && rr {
			fn = f
		}
	}
	if fn == nil {
		r.Undecided("string/regexp table", "-", "no operator function asserting (String, Regexp)")
		return
	}
	oc := p.Opcodes()
	results := loadsOfBooleanValue(fn)
	// the arguments handed to the matcher: a two-element list (left, right)
	orderOK := false
	for _, b := range fn.Blocks {
		for _, ins := range b.Instrs {
			al, ok := ins.(*ssa.Alloc)
			if !ok {
				continue
			}
			at, ok := deref(al.Type()).Underlying().(*types.Array)
			if !ok || at.Len() != 2 || !isObjectIface(at.Elem()) {
				continue
			}
			var e0, e1 ssa.Value
			for _, ref := range *al.Referrers() {
				ia, ok := ref.(*ssa.IndexAddr)
				if !ok {
					continue
				}
				k, _ := constInt(ia.Index)
				for _, r2 := range *ia.Referrers() {
					if st, ok := r2.(*ssa.Store); ok {
						if k == 0 {
							e0 = st.Val
						} else {
							e1 = st.Val
						}
					}
				}
			}
			if e0 != nil && e1 != nil && directPart(e0, fn.Params[2], 0) == "" && directPart(e1, fn.Params[3], 0) == "" {
				orderOK = true
			}
		}
	}
	for _, spec := range []struct {
		op        string
		onMatch   string
		onNoMatch string
	}{{"OpMatches", "true", "false"}, {"OpNotMatches", "false", "true"}} {
		key := "cell " + spec.op
		val, known := oc.byName[spec.op]
		if !known || len(results) == 0 {
			r.Undecided(key, p.Pos(fn.Pos()), "the opcode or the matcher's result cannot be found in "+fn.Name())
			continue
		}
		got := map[bool]pathOutcomes{}
		for _, m := range []bool{true, false} {
			env := map[ssa.Value]constant.Value{fn.Params[1]: constant.MakeInt64(val)}
			for _, ld := range results {
				env[ld] = constant.MakeBool(m)
			}
			got[m] = pushOutcomes(p, fn, env)
		}
		switch {
		case !orderOK:
			r.Fail(key, p.Pos(fn.Pos()), "the match function is not given (string, regexp) in that order")
		case got[true]["?"] || got[false]["?"]:
			r.Undecided(key, p.Pos(fn.Pos()), "the function could not be walked to the end under the assumption "+spec.op)
		case !got[true].only(spec.onMatch) || !got[false].only(spec.onNoMatch):
			r.Fail(key, p.Pos(fn.Pos()), fmt.Sprintf("%s pushes %s on a match and %s otherwise; the language defines %s / %s", spec.op, got[true], got[false], spec.onMatch, spec.onNoMatch))
		default:
			r.OkNT(key, p.Pos(fn.Pos()), fmt.Sprintf("match → %s, no match → %s, arguments (string, regexp); decided by walking %s under each assumption", spec.onMatch, spec.onNoMatch, fn.Name()))
		}
	}
}

// typeAndTextEquality: cond is `X.Type() == Y.Type() && X.Inspect() == Y.Inspect()`
// (either order of the conjuncts, parentheses allowed) over the same pair.
func typeAndTextEquality(cond ast.Expr) (bool, string) {
	be, ok := ast.Unparen(cond).(*ast.BinaryExpr)
	if !ok || be.Op != token.LAND {
		return false, "the comparison is not a conjunction of a type test and a text test: " + exprStr(cond)
	}
	kinds := map[string][2]string{}
	for _, side := range []ast.Expr{be.X, be.Y} {
		eq, ok := ast.Unparen(side).(*ast.BinaryExpr)
		if !ok || eq.Op != token.EQL {
			return false, "a conjunct is not an equality: " + exprStr(side)
		}
		m := func(e ast.Expr) (string, string) {
			ce, ok := ast.Unparen(e).(*ast.CallExpr)
			if !ok {
				return "", ""
			}
			sel, ok := ce.Fun.(*ast.SelectorExpr)
			if !ok {
				return "", ""
			}
			return sel.Sel.Name, exprStr(sel.X)
		}
		m1, r1 := m(eq.X)
		m2, r2 := m(eq.Y)
		if m1 == "" || m1 != m2 || r1 == r2 {
			return false, "a conjunct does not compare the same property of the two values: " + exprStr(side)
		}
		kinds[m1] = [2]string{r1, r2}
	}
	_, hasT := kinds["Type"]
	_, hasI := kinds["Inspect"]
	if !hasT || !hasI {
		return false, "equality must require equal Type() and equal Inspect()"
	}
	return true, ""
}

func ruleMembership(p *Program, r *Reporter) {
	a := needAnchors(p, r)
	if a == nil {
		return
	}
	// (1) `in` on arrays: the clause of the dispatcher deciding op == OpArrayIn
	bv := binopView(p, a)
	fd, info := bv.fd, bv.info
	var inClause *ast.CaseClause
	ast.Inspect(fd.Body, func(n ast.Node) bool {
		cl, ok := n.(*ast.CaseClause)
		if !ok || len(cl.List) != 1 {
			return true
		}
		if be, ok := ast.Unparen(cl.List[0]).(*ast.BinaryExpr); ok && be.Op == token.EQL && opConstName(info, be.Y) == "OpArrayIn" {
			inClause = cl
		}
		return true
	})
	key := "array membership compares type and printed form"
	if inClause == nil {
		r.Undecided(key, p.Pos(fd.Pos()), "no clause deciding on op == OpArrayIn in the dispatcher")
	} else {
		var cond ast.Expr
		inBody, _ := delegatedBody(p, info, inClause.Body)
		for _, st := range inBody {
			ast.Inspect(st, func(n ast.Node) bool {
				if rs, ok := n.(*ast.RangeStmt); ok {
					for _, b := range rs.Body.List {
						if iff, ok := b.(*ast.IfStmt); ok && cond == nil {
							cond = iff.Cond
						}
					}
				}
				return true
			})
		}
		if cond == nil {
			r.Undecided(key, p.Pos(inClause.Pos()), "no comparison inside a loop over the array's elements")
		} else {
			ok, why := typeAndTextEquality(cond)
			r.Check(ok, key, p.Pos(cond.Pos()), "Type() and Inspect() both equal", "`in` finds an element that is not equal in both type and printed form ("+why+"): 1 in [\"1\"] or \"1\" in [1] would be true")
		}
	}
	// (2) case comparison
	cl := handlerClause(p, a, "OpCase")
	key2 := "case comparison: literal match by type and printed form, regexp through match"
	if cl == nil {
		r.Undecided(key2, "-", "no handler for OpCase")
		return
	}
	caseBody, infoR := delegatedBody(p, p.Info(a.vmRun), cl.Body)
	var top *ast.IfStmt
	for _, st := range caseBody {
		if iff, ok := st.(*ast.IfStmt); ok && top == nil && iff.Else != nil {
			top = iff
		}
	}
	if top == nil {
		r.Undecided(key2, p.Pos(cl.Pos()), "no if/else chain in the case handler")
		return
	}
	ok1, why := typeAndTextEquality(top.Cond)
	truth := singletonNames(p)
	pushT := func(b *ast.BlockStmt) string {
		args := pushArgs(infoR, b.List)
		if len(args) != 1 {
			return "?"
		}
		if id, ok := ast.Unparen(args[0]).(*ast.Ident); ok {
			return truth[infoR.Uses[id]]
		}
		return "other"
	}
	good := ok1 && pushT(top.Body) == "true"
	detail := why
	if ok1 && pushT(top.Body) != "true" {
		detail = "an equal case value does not push true"
	}
	// else-if regexp → match(value, regexp); final else → false
	if eif, ok := top.Else.(*ast.IfStmt); ok && good {
		isRegexpTest := strings.Contains(exprStr(eif.Cond), "REGEXP")
		orderOK := false
		ast.Inspect(eif.Body, func(n ast.Node) bool {
			if c, ok := n.(*ast.CompositeLit); ok && len(c.Elts) == 2 {
				// []object.Object{val, caseVal}: the tested value first
				if id1, ok := c.Elts[0].(*ast.Ident); ok {
					if id2, ok := c.Elts[1].(*ast.Ident); ok {
						if strings.Contains(exprStr(eif.Cond), id2.Name) && !strings.Contains(exprStr(eif.Cond), id1.Name+".") {
							orderOK = true
						}
					}
				}
			}
			return true
		})
		if !isRegexpTest || !orderOK {
			good, detail = false, "a regexp case does not hand (value, regexp) to the match built-in"
		}
		if fb, ok := eif.Else.(*ast.BlockStmt); ok {
			if pushT(fb) != "false" {
				good, detail = false, "a case that matches neither literally nor as a regexp does not push false"
			}
		} else {
			good, detail = false, "no final else pushing false"
		}
	} else if good {
		good, detail = false, "no regexp branch in the case comparison"
	}
	r.Check(good, key2, p.Pos(top.Pos()), "equal type and text → true; regexp → match(value, regexp); otherwise false", detail)
}

// ---------------------------------------------------------------------------
// R-LOGICCELLS

// evalLogicClause interprets a clause body with left.True()=l, right.True()=r
// and returns the pushed singleton ("true"/"false"), "" if undecidable.
func evalLogicClause(info *types.Info, truth map[types.Object]string, body []ast.Stmt, left, right types.Object, l, rr bool) string {
	var evalCond func(e ast.Expr) (bool, bool)
	evalCond = func(e ast.Expr) (bool, bool) {
		e = ast.Unparen(e)
		switch x := e.(type) {
		case *ast.UnaryExpr:
			if x.Op == token.NOT {
				v, ok := evalCond(x.X)
				return !v, ok
			}
		case *ast.BinaryExpr:
			a, ok1 := evalCond(x.X)
			b, ok2 := evalCond(x.Y)
			if ok1 && ok2 {
				if x.Op == token.LAND {
					return a && b, true
				}
				if x.Op == token.LOR {
					return a || b, true
				}
			}
		case *ast.CallExpr:
			if sel, ok := x.Fun.(*ast.SelectorExpr); ok && sel.Sel.Name == "True" {
				if id, ok := sel.X.(*ast.Ident); ok {
					switch info.Uses[id] {
					case left:
						return l, left != nil
					case right:
						return rr, right != nil
					}
				}
			}
		}
		return false, false
	}
	var run func(stmts []ast.Stmt) (string, bool)
	run = func(stmts []ast.Stmt) (string, bool) {
		pushed := ""
		for _, st := range stmts {
			switch s := st.(type) {
			case *ast.IfStmt:
				c, ok := evalCond(s.Cond)
				if !ok {
					return "", true
				}
				var res string
				var done bool
				if c {
					res, done = run(s.Body.List)
				} else if s.Else != nil {
					if b, ok := s.Else.(*ast.BlockStmt); ok {
						res, done = run(b.List)
					} else {
						res, done = run([]ast.Stmt{s.Else})
					}
				}
				if res != "" {
					pushed = res
				}
				if done {
					return pushed, true
				}
			case *ast.ExprStmt:
				args := pushArgs(info, []ast.Stmt{s})
				if len(args) == 1 {
					if id, ok := ast.Unparen(args[0]).(*ast.Ident); ok {
						pushed = truth[info.Uses[id]]
					} else {
						return "", true
					}
				}
			case *ast.ReturnStmt:
				return pushed, true
			}
		}
		return pushed, false
	}
	res, _ := run(body)
	return res
}

func ruleLogicCells(p *Program, r *Reporter) {
	a := needAnchors(p, r)
	if a == nil {
		return
	}
	// the dispatcher's operands, by role: the operand popped first is the right
	// one (it was pushed last), the operand popped second the left one
	bv := binopView(p, a)
	fd, info := bv.fd, bv.info
	truth := singletonNames(p)
	leftObj, rightObj := bv.leftObj, bv.rightObj
	var popped []types.Object
	if leftObj != nil && rightObj != nil {
		popped = []types.Object{rightObj, leftObj}
	}
	clauses := map[string]*ast.CaseClause{}
	ast.Inspect(fd.Body, func(n ast.Node) bool {
		cl, ok := n.(*ast.CaseClause)
		if !ok || len(cl.List) != 1 {
			return true
		}
		if be, ok := ast.Unparen(cl.List[0]).(*ast.BinaryExpr); ok && be.Op == token.EQL {
			if o := opConstName(info, be.Y); o == "OpAnd" || o == "OpOr" {
				clauses[o] = cl
			}
		}
		return true
	})
	for _, spec := range []struct {
		op string
		f  func(a, b bool) bool
	}{{"OpAnd", func(a, b bool) bool { return a && b }}, {"OpOr", func(a, b bool) bool { return a || b }}} {
		key := "truth table of " + spec.op
		cl := clauses[spec.op]
		if cl == nil {
			r.Fail(key, p.Pos(fd.Pos()), "no clause for "+spec.op)
			continue
		}
		var wrong []string
		undec := false
		for _, l := range []bool{false, true} {
			for _, rr := range []bool{false, true} {
				got := evalLogicClause(info, truth, cl.Body, leftObj, rightObj, l, rr)
				want := fmt.Sprint(spec.f(l, rr))
				if got == "" {
					undec = true
				} else if got != want {
					wrong = append(wrong, fmt.Sprintf("left=%v right=%v → %s (must be %s)", l, rr, got, want))
				}
			}
		}
		switch {
		case undec:
			r.Undecided(key, p.Pos(cl.Pos()), "the clause body is not a tree of True() tests and pushes of the true/false objects")
		case len(wrong) > 0:
			r.Fail(key, p.Pos(cl.Pos()), "the clause does not compute "+map[string]string{"OpAnd": "conjunction", "OpOr": "disjunction"}[spec.op]+": "+strings.Join(wrong, "; "))
		default:
			r.OkNT(key, p.Pos(cl.Pos()), "all four combinations of left.True()/right.True() agree")
		}
	}
	// operand order: the operator tables receive the operand popped second as
	// their left and the operand popped first as their right argument
	tables := map[types.Object]bool{}
	for _, t := range a.optTables {
		if t.Object() != nil {
			tables[t.Object()] = true
		}
	}
	calls, bad := 0, ""
	ast.Inspect(fd.Body, func(n ast.Node) bool {
		ce, ok := n.(*ast.CallExpr)
		if !ok {
			return true
		}
		f, ok := calleeObj(info, ce).(*types.Func)
		if !ok || !tables[f] || len(ce.Args) != 3 {
			return true
		}
		calls++
		l, okL := ast.Unparen(ce.Args[1]).(*ast.Ident)
		rr, okR := ast.Unparen(ce.Args[2]).(*ast.Ident)
		if !okL || !okR || info.Uses[l] != leftObj || info.Uses[rr] != rightObj || leftObj == nil {
			bad = exprStr(ce)
		}
		return true
	})
	r.Check(len(popped) >= 2 && calls > 0 && bad == "", "binary operands are popped right then left", p.Pos(fd.Pos()), fmt.Sprintf("the operand popped second is the left argument of all %d operator-table calls, the operand popped first the right one", calls), "the dispatcher does not hand the operand popped first (pushed last) to the operator tables as the right operand and the one popped second as the left ("+bad+"): every binary operator would see its operands swapped")
}

// ---------------------------------------------------------------------------
// R-ITERNEXT

func ruleIterNext(p *Program, r *Reporter) {
	n := 0
	for _, fn := range p.LibFns {
		if fn.Name() != "Next" || fn.Signature.Recv() == nil || fn.Parent() != nil {
			continue
		}
		tn := objectStructName(fn.Signature.Recv().Type())
		if tn == "" {
			continue
		}
		n++
		key := "iteration step of object." + tn
		// the iteration cursor: the int field of the iterable value type that
		// the step stores to
		isCursorAddr := func(v ssa.Value) bool {
			fa, ok := v.(*ssa.FieldAddr)
			if !ok || fa.X != ssa.Value(fn.Params[0]) {
				return false
			}
			st, ok := deref(fa.X.Type()).Underlying().(*types.Struct)
			return ok && isBasicKind(types.Int)(st.Field(fa.Field).Type())
		}
		isCursorLoad := func(v ssa.Value) bool {
			ld, ok := v.(*ssa.UnOp)
			return ok && ld.Op == token.MUL && isCursorAddr(ld.X)
		}
		// the step kept in a method of the cursor's own type: judged there,
		// and here only that its answers are used as they are meant
		if ok, why, decided := iterNextViaCursor(fn); decided {
			if ok {
				r.OkNT(key, p.Pos(fn.Pos()), why)
			} else {
				r.Fail(key, p.Pos(fn.Pos()), why)
			}
			continue
		}
		var yields, exhausts []*ssa.BasicBlock
		for _, b := range fn.Blocks {
			ret, ok := terminator(b).(*ssa.Return)
			if !ok || len(ret.Results) != 3 {
				continue
			}
			if c, ok := ret.Results[2].(*ssa.Const); ok && c.Value != nil && c.Value.Kind() == constant.Bool {
				if constant.BoolVal(c.Value) {
					yields = append(yields, b)
				} else {
					exhausts = append(exhausts, b)
				}
			}
		}
		if len(yields) == 0 {
			r.Undecided(key, p.Pos(fn.Pos()), "no return that yields an element (…, true)")
			continue
		}
		// (a) every yield lies on the cursor < length side of a comparison
		lengthLike := func(v ssa.Value) bool {
			for _, o := range origins(v) {
				if _, ok := isBuiltinCall(o, "len"); ok {
					return true
				}
				if c, ok := o.(*ssa.Call); ok && c.Call.StaticCallee() != nil && strings.Contains(c.Call.StaticCallee().Name(), "RuneCount") {
					return true
				}
			}
			return false
		}
		guarded, lenOK := true, true
		guardPos := fn.Pos()
		for _, yb := range yields {
			g := false
			for d := yb; d.Idom() != nil; d = d.Idom() {
				id := d.Idom()
				iff, ok := terminator(id).(*ssa.If)
				if !ok || len(d.Preds) != 1 {
					continue
				}
				bo, ok := iff.Cond.(*ssa.BinOp)
				if !ok {
					continue
				}
				var inside *ssa.BasicBlock // where cursor < other holds
				var other ssa.Value
				switch {
				case isCursorLoad(bo.X) && bo.Op == token.LSS:
					inside, other = id.Succs[0], bo.Y
				case isCursorLoad(bo.X) && bo.Op == token.GEQ:
					inside, other = id.Succs[1], bo.Y
				case isCursorLoad(bo.Y) && bo.Op == token.GTR:
					inside, other = id.Succs[0], bo.X
				case isCursorLoad(bo.Y) && bo.Op == token.LEQ:
					inside, other = id.Succs[1], bo.X
				default:
					continue
				}
				if inside == d {
					g = true
					guardPos = iff.Pos()
					if !lengthLike(other) {
						lenOK = false
					}
				}
			}
			if !g {
				guarded = false
			}
		}
		// (b) the cursor advances by exactly one on the way to a yield
		var stores []*ssa.Store
		plusOne := true
		for _, b := range fn.Blocks {
			for _, ins := range b.Instrs {
				st, ok := ins.(*ssa.Store)
				if !ok || !isCursorAddr(st.Addr) {
					continue
				}
				stores = append(stores, st)
				base, k := linear(st.Val)
				if !isCursorLoad(base) || k != 1 {
					plusOne = false
				}
			}
		}
		once := plusOne && len(stores) > 0
		for _, yb := range yields {
			n := 0
			for _, st := range stores {
				if st.Block() == yb || st.Block().Dominates(yb) {
					n++
				}
			}
			if n != 1 {
				once = false
			}
		}
		for _, s1 := range stores {
			for _, s2 := range stores {
				if s1 != s2 && blockReaches(s1.Block(), s2.Block(), nil) {
					once = false
				}
			}
		}
		// (c) the element yielded is the one at the cursor's old position
		idxOK := false
		for _, b := range fn.Blocks {
			for _, ins := range b.Instrs {
				switch x := ins.(type) {
				case *ssa.IndexAddr:
					base, k := linear(x.Index)
					if isCursorLoad(base) {
						// old value read before the store (k == 0), or the new
						// value minus one
						before := true
						for _, st := range stores {
							if dominatesInstr(st, base.(ssa.Instruction)) {
								before = false
							}
						}
						if (before && k == 0) || (!before && k == -1) {
							idxOK = true
						}
					}
				case *ssa.BinOp:
					// hash: the entry whose ordinal equals the cursor
					if x.Op == token.EQL && (isCursorLoad(x.X) || isCursorLoad(x.Y)) {
						idxOK = true
					}
				}
			}
		}
		switch {
		case !guarded:
			r.Fail(key, p.Pos(guardPos), "the step is not guarded by cursor < length: the last element is skipped or the step runs past the end")
		case !lenOK:
			r.Fail(key, p.Pos(guardPos), "the cursor is not compared with the length of the container")
		case !once:
			r.Fail(key, p.Pos(guardPos), fmt.Sprintf("the cursor is not advanced by exactly one per step (%d store(s) to it): elements would be skipped or repeated", len(stores)))
		case !idxOK:
			r.Fail(key, p.Pos(guardPos), "the element yielded is not the one at the cursor's position before the step")
		case len(exhausts) == 0:
			r.Fail(key, p.Pos(fn.Pos()), "past the end the step does not report exhaustion (false)")
		default:
			r.OkNT(key, p.Pos(fn.Pos()), "guard cursor < length; one increment; element at the old position; false when exhausted")
		}
	}
	if n < 3 {
		r.Undecided("iterables", "-", fmt.Sprintf("found %d Next() implementations; expected array, hash and string", n))
	}
}

// ---------------------------------------------------------------------------
// R-RANGE

func ruleRange(p *Program, r *Reporter) {
	a := needAnchors(p, r)
	if a == nil {
		return
	}
	cl := handlerClause(p, a, "OpRange")
	if cl == nil {
		r.Undecided("range handler", "-", "no handler for OpRange")
		return
	}
	info := p.Info(a.vmRun)
	// names: minI/maxI are the values asserted from the two popped operands:
	// first pop = end, second pop = start
	var popNames []string
	vals := map[string]string{} // local → "start"/"end"
	for _, st := range cl.Body {
		as, ok := st.(*ast.AssignStmt)
		if !ok || len(as.Rhs) != 1 {
			continue
		}
		if ce, ok := as.Rhs[0].(*ast.CallExpr); ok {
			if f, ok := calleeObj(info, ce).(*types.Func); ok && f.Name() == "Pop" {
				if id, ok := as.Lhs[0].(*ast.Ident); ok {
					popNames = append(popNames, id.Name)
				}
			}
		}
	}
	if len(popNames) != 2 {
		r.Undecided("range operands", p.Pos(cl.Pos()), "expected two pops")
		return
	}
	role := map[string]string{popNames[0]: "end", popNames[1]: "start"}
	for _, st := range cl.Body {
		as, ok := st.(*ast.AssignStmt)
		if !ok || len(as.Lhs) != 1 || len(as.Rhs) != 1 {
			continue
		}
		id, ok := as.Lhs[0].(*ast.Ident)
		if !ok {
			continue
		}
		for nm, ro := range role {
			found := false
			ast.Inspect(as.Rhs[0], func(n ast.Node) bool {
				if x, ok := n.(*ast.Ident); ok && x.Name == nm {
					found = true
				}
				return true
			})
			if found && strings.Contains(exprStr(as.Rhs[0]), ".Value") {
				vals[id.Name] = ro
			}
		}
	}
	var startV, endV string
	for k, v := range vals {
		if v == "start" {
			startV = k
		} else {
			endV = k
		}
	}
	if startV == "" || endV == "" {
		r.Undecided("range values", p.Pos(cl.Pos()), "cannot find the integer values of the start and end operands")
		return
	}
	norm := func(e ast.Expr) string { return strings.ReplaceAll(exprStr(e), " ", "") }
	lengthOK, elemOK, guardOK := false, false, false
	var lenVar string
	for _, st := range cl.Body {
		ast.Inspect(st, func(n ast.Node) bool {
			switch x := n.(type) {
			case *ast.AssignStmt:
				if len(x.Rhs) == 1 {
					s := norm(x.Rhs[0])
					if s == endV+"-"+startV+"+1" || s == "1+"+endV+"-"+startV {
						lengthOK = true
						if id, ok := x.Lhs[0].(*ast.Ident); ok {
							lenVar = id.Name
						}
					}
				}
			case *ast.CompositeLit:
				if objectStructName(info.Types[x].Type) == "Integer" {
					for _, el := range x.Elts {
						if kv, ok := el.(*ast.KeyValueExpr); ok {
							s := norm(kv.Value)
							if strings.HasPrefix(s, startV+"+") || strings.HasSuffix(s, "+"+startV) {
								elemOK = true
							}
						}
					}
				}
			case *ast.IfStmt:
				if norm(x.Cond) == startV+">"+endV || norm(x.Cond) == endV+"<"+startV {
					for _, b := range x.Body.List {
						if rs, ok := b.(*ast.ReturnStmt); ok && len(rs.Results) == 2 && !info.Types[rs.Results[1]].IsNil() {
							guardOK = true
						}
					}
				}
			}
			return true
		})
	}
	_ = lenVar
	r.Check(lengthOK, "range length is end-start+1", p.Pos(cl.Pos()), "", "the number of elements of a..b is not computed as b-a+1: the range is not inclusive (or too long)")
	r.Check(elemOK, "range element i is start+i", p.Pos(cl.Pos()), "", "element i of the range is not start+i")
	r.Check(guardOK, "a range whose start exceeds its end is an error", p.Pos(cl.Pos()), "", "a start above the end is not rejected with an error: the length becomes zero or negative (a negative length panics in make)")
}

// ---------------------------------------------------------------------------
// R-KINDTABLE

func ruleKindTable(p *Program, r *Reporter) {
	// (1) the kind switch: function of vm with parameter reflect.Value returning Object
	var conv *ssa.Function
	var sliceConv *ssa.Function
	for _, fn := range p.LibFns {
		if fnPkg(fn).Pkg.Path() != Mod+"/vm" || fn.Parent() != nil {
			continue
		}
		ps, rs := sigParams(fn), sigResults(fn)
		if len(ps) == 1 && isStdNamed(ps[0], "reflect", "Value") && len(rs) == 1 && isObjectIface(rs[0]) {
			fd := p.FuncDecl(fn)
			hasKindSwitch, hasAsserts := false, false
			ast.Inspect(fd.Body, func(n ast.Node) bool {
				if sw, ok := n.(*ast.SwitchStmt); ok && sw.Tag != nil && strings.Contains(exprStr(sw.Tag), "Kind()") {
					hasKindSwitch = true
				}
				if ta, ok := n.(*ast.TypeAssertExpr); ok && ta.Type != nil {
					if _, isBasic := p.Info(fn).Types[ta.Type].Type.Underlying().(*types.Basic); isBasic {
						hasAsserts = true
					}
				}
				return true
			})
			// the slice conversion walks the members with Index
			walksMembers := false
			for _, b := range fn.Blocks {
				for _, ins := range b.Instrs {
					if c, ok := ins.(*ssa.Call); ok && c.Call.StaticCallee() != nil && c.Call.StaticCallee().String() == "(reflect.Value).Index" {
						walksMembers = true
					}
				}
			}
			if hasKindSwitch {
				conv = fn
			} else if hasAsserts || walksMembers {
				sliceConv = fn
			}
		}
	}
	if conv == nil || sliceConv == nil {
		r.Undecided("conversion functions", "-", "cannot find the kind switch and the slice-element conversion in package vm")
		return
	}
	// expected: kind → (object type, accessor)
	want := map[string][2]string{
		"Int": {"Integer", "Int"}, "Int64": {"Integer", "Int"},
		"Int8": {"Integer", "Int"}, "Int16": {"Integer", "Int"}, "Int32": {"Integer", "Int"},
		"Uint8": {"Integer", "int64(Uint)"}, "Uint16": {"Integer", "int64(Uint)"}, "Uint32": {"Integer", "int64(Uint)"},
		"Uint": {"Integer", "checked"}, "Uint64": {"Integer", "checked"},
		"Float32": {"Float", "Float"}, "Float64": {"Float", "Float"},
		"String": {"String", "String"}, "Bool": {"Boolean", "Bool"},
	}
	info := p.Info(conv)
	fd := p.FuncDecl(conv)
	seen := map[string]bool{}
	ast.Inspect(fd.Body, func(n ast.Node) bool {
		sw, ok := n.(*ast.SwitchStmt)
		if !ok || sw.Tag == nil || !strings.Contains(exprStr(sw.Tag), "Kind()") {
			return true
		}
		for _, cc := range sw.Body.List {
			cl := cc.(*ast.CaseClause)
			var lit *ast.CompositeLit
			var val ast.Expr
			for _, st := range cl.Body {
				ast.Inspect(st, func(m ast.Node) bool {
					if c, ok := m.(*ast.CompositeLit); ok && lit == nil && objectStructName(info.Types[c].Type) != "" {
						lit = c
						for _, el := range c.Elts {
							if kv, ok := el.(*ast.KeyValueExpr); ok {
								val = kv.Value
							}
						}
					}
					return true
				})
			}
			for _, e := range cl.List {
				sel, ok := ast.Unparen(e).(*ast.SelectorExpr)
				if !ok {
					continue // timeKind etc.
				}
				kind := sel.Sel.Name
				w, tracked := want[kind]
				if !tracked {
					// kinds the table does not require: they may yield null, but if a
					// number object is built for them it must hold the value itself
					if lit != nil && val != nil {
						got := objectStructName(info.Types[lit].Type)
						extra := "host kind " + kind + " (optional)"
						unsigned64 := kind == "Uint" || kind == "Uint64" || kind == "Uintptr"
						switch {
						case strings.HasPrefix(kind, "Int") && got == "Integer" && strings.HasSuffix(exprStr(val), ".Int()"):
							r.Ok(extra, p.Pos(val.Pos()), "→ Integer of field.Int()")
						case strings.HasPrefix(kind, "Uint") && got == "Integer" && !unsigned64 && strings.Contains(exprStr(val), ".Uint()"):
							r.Ok(extra, p.Pos(val.Pos()), "→ Integer of field.Uint(): every value of the kind fits")
						case strings.HasPrefix(kind, "Uint") && got == "Integer" && clauseMentions(cl, "MaxInt64"):
							r.Ok(extra, p.Pos(val.Pos()), "→ Integer of field.Uint() under a comparison with math.MaxInt64")
						case strings.HasPrefix(kind, "Uint") && got == "Integer":
							r.Fail(extra, p.Pos(val.Pos()), fmt.Sprintf("a host value of kind %s becomes Integer{Value: %s}: values from 2^63 upwards do not fit a signed 64-bit integer and arrive as negative numbers (MaxUint64 as -1) — the field is not converted without loss; such a kind must yield null or an error unless the range is checked", kind, exprStr(val)))
						case got == "Integer" || got == "Float":
							r.Undecided(extra, p.Pos(val.Pos()), fmt.Sprintf("a host value of kind %s becomes %s{Value: %s}: not a conversion this rule knows to be lossless", kind, got, exprStr(val)))
						}
					}
					continue
				}
				seen[kind] = true
				key := "host kind " + kind
				if lit == nil || val == nil {
					r.Fail(key, p.Pos(cl.Pos()), "no object is built for this kind")
					continue
				}
				got := objectStructName(info.Types[lit].Type)
				if w[1] == "int64(Uint)" || w[1] == "checked" {
					// unsigned kinds: the value is int64(<the field's Uint()>); for the
					// 64-bit kinds only under a comparison with math.MaxInt64
					txt := exprStr(val)
					okConv := got == w[0] && strings.HasPrefix(txt, "int64(")
					src := ""
					ast.Inspect(cl, func(m ast.Node) bool {
						if c, ok := m.(*ast.CallExpr); ok {
							if s, ok := c.Fun.(*ast.SelectorExpr); ok && s.Sel.Name == "Uint" && len(c.Args) == 0 {
								src = "Uint"
							}
						}
						return true
					})
					guarded := false
					ast.Inspect(cl, func(m ast.Node) bool {
						if be, ok := m.(*ast.BinaryExpr); ok && (be.Op == token.LEQ || be.Op == token.LSS || be.Op == token.GTR || be.Op == token.GEQ) {
							if strings.Contains(exprStr(be), "MaxInt64") {
								guarded = true
							}
						}
						return true
					})
					switch {
					case !okConv || src != "Uint":
						r.Fail(key, p.Pos(val.Pos()), fmt.Sprintf("a host value of kind %s becomes %s{Value: %s}; it must become Integer of the value's Uint()", kind, got, txt))
					case w[1] == "checked" && !guarded:
						r.Fail(key, p.Pos(val.Pos()), fmt.Sprintf("a host value of kind %s becomes Integer{Value: %s} without a range check: values from 2^63 upwards do not fit a signed 64-bit integer and arrive as negative numbers (MaxUint64 as -1)", kind, txt))
					default:
						r.Ok(key, p.Pos(val.Pos()), "→ Integer of field.Uint()"+map[bool]string{true: " when it fits, else null", false: ""}[w[1] == "checked"])
					}
					continue
				}
				ce, isCall := ast.Unparen(val).(*ast.CallExpr)
				acc := ""
				if isCall {
					if s, ok := ce.Fun.(*ast.SelectorExpr); ok {
						acc = s.Sel.Name
					}
				}
				if got != w[0] || acc != w[1] || len(ce.Args) != 0 {
					r.Fail(key, p.Pos(val.Pos()), fmt.Sprintf("a host value of kind %s becomes %s{Value: %s}; it must become %s of the value's %s() without transformation", kind, got, exprStr(val), w[0], w[1]))
				} else {
					r.Ok(key, p.Pos(val.Pos()), fmt.Sprintf("→ %s of field.%s()", got, acc))
				}
			}
		}
		return false
	})
	var missing []string
	for k := range want {
		if !seen[k] {
			missing = append(missing, k)
		}
	}
	sort.Strings(missing)
	for _, k := range missing {
		r.Fail("host kind "+k, p.Pos(conv.Pos()), "the kind switch has no case for this kind: a field of this integer (or float, string, bool) kind reaches the script as null, not as its value — `struct{ Count int32 }{5}` makes `if (Count)` take the false branch")
	}
	// time.Time → Unix seconds, in both functions
	for _, fn := range []*ssa.Function{conv, sliceConv} {
		unix := false
		// (in the function or in a function of the package it hands the value to)
		for _, g := range append([]*ssa.Function{fn}, staticCalleesWithin(p, fn, 1)...) {
			if g != fn && (fnPkg(g) == nil || fnPkg(g).Pkg.Path() != Mod+"/vm" || g == conv || g == sliceConv) {
				continue
			}
			for _, b := range g.Blocks {
				for _, ins := range b.Instrs {
					if c, ok := ins.(*ssa.Call); ok && c.Call.StaticCallee() != nil && c.Call.StaticCallee().String() == "(time.Time).Unix" {
						unix = true
					}
				}
			}
		}
		for _, b := range fn.Blocks {
			for _, ins := range b.Instrs {
				if c, ok := ins.(*ssa.Call); ok && c.Call.StaticCallee() != nil && c.Call.StaticCallee().String() == "(time.Time).Unix" {
					unix = true
				}
			}
		}
		r.Check(unix, fn.Name()+" converts time.Time to Unix seconds", p.Pos(fn.Pos()), "", "time.Time values are not converted with Unix(): scripts see something other than seconds since the epoch")
	}
	// (2a) every member of a host slice yields an element: the loop has no
	// iteration that appends nothing
	{
		key := sliceConv.Name() + " keeps the length and order of a host slice"
		var header *ssa.BasicBlock
		for _, b := range sliceConv.Blocks {
			for _, pd := range b.Preds {
				if b.Dominates(pd) {
					header = b
				}
			}
		}
		if header == nil {
			r.Undecided(key, p.Pos(sliceConv.Pos()), "no loop over the members found")
		} else {
			appends := map[*ssa.BasicBlock]bool{}
			for _, b := range sliceConv.Blocks {
				for _, ins := range b.Instrs {
					if _, ok := isBuiltinCall(valueOfInstr(ins), "append"); ok {
						appends[b] = true
					}
				}
			}
			// a path header → … → header that avoids every appending block?
			skip := false
			seenB := map[*ssa.BasicBlock]bool{}
			var w func(b *ssa.BasicBlock)
			w = func(b *ssa.BasicBlock) {
				if skip || seenB[b] || appends[b] {
					return
				}
				seenB[b] = true
				for _, s := range b.Succs {
					if s == header {
						skip = true
						return
					}
					if header.Dominates(s) {
						w(s)
					}
				}
			}
			for _, s := range header.Succs {
				if header.Dominates(s) && s != header {
					w(s)
				}
			}
			r.Check(!skip, key, p.Pos(firstPos(header)), "every iteration appends an element", "some iteration of the loop over a host slice appends nothing: members the conversion does not know (null, nested arrays and objects of a JSON document, numbers of other sizes) are dropped, so len() and every later index disagree with the host's slice — `[1, null, 2]` has length 2 and its element 1 is 2")
		}
	}
	// (2) slice elements: x, ok := in.(T); if ok { el = append(el, &object.O{Value: conv(x)}) }
	wantElem := map[string]string{"string": "String", "bool": "Boolean", "float32": "Float", "float64": "Float", "int": "Integer", "int32": "Integer", "int64": "Integer"}
	infoS := p.Info(sliceConv)
	fdS := p.FuncDecl(sliceConv)
	seenE := map[string]bool{}
	var stmts []ast.Stmt
	ast.Inspect(fdS.Body, func(n ast.Node) bool {
		if f, ok := n.(*ast.ForStmt); ok {
			stmts = f.Body.List
			return false
		}
		return true
	})
	// the conversion of one member may have a function of its own: the loop
	// appends what that function returns for the member
	memberFn := sliceConv
	hasTyped := func(list []ast.Stmt) bool {
		for _, st := range list {
			switch x := st.(type) {
			case *ast.TypeSwitchStmt:
				return true
			case *ast.AssignStmt:
				if len(x.Rhs) == 1 {
					if _, ok := x.Rhs[0].(*ast.TypeAssertExpr); ok {
						return true
					}
				}
			}
		}
		return false
	}
	if !hasTyped(stmts) {
		for _, st := range stmts {
			ast.Inspect(st, func(n ast.Node) bool {
				ce, ok := n.(*ast.CallExpr)
				if !ok || memberFn != sliceConv {
					return true
				}
				f, ok := calleeObj(infoS, ce).(*types.Func)
				if !ok || f.Pkg() == nil || f.Pkg().Path() != Mod+"/vm" {
					return true
				}
				sig := f.Type().(*types.Signature)
				if sig.Results().Len() != 1 || !isObjectIface(sig.Results().At(0).Type()) {
					return true
				}
				if g := p.SSA.FuncValue(f); g != nil && p.FuncDecl(g) != nil && g != conv && hasTyped(p.FuncDecl(g).Body.List) {
					memberFn = g
				}
				return true
			})
		}
		if memberFn != sliceConv {
			stmts = p.FuncDecl(memberFn).Body.List
			infoS = p.Info(memberFn)
		}
	}
	// the typed conversions of a member, in either spelling: a chain of
	// `x, ok := in.(T); if ok {…}` or a type switch with one case per type
	type elemCase struct {
		goT     string
		varName string
		body    ast.Node
		pos     token.Pos
	}
	var cases []elemCase
	for i, st := range stmts {
		switch x := st.(type) {
		case *ast.AssignStmt:
			if len(x.Lhs) != 2 || len(x.Rhs) != 1 || i+1 >= len(stmts) {
				continue
			}
			ta, ok := x.Rhs[0].(*ast.TypeAssertExpr)
			if !ok || ta.Type == nil {
				continue
			}
			iff, ok := stmts[i+1].(*ast.IfStmt)
			if !ok {
				continue
			}
			name := ""
			if id, ok := x.Lhs[0].(*ast.Ident); ok {
				name = id.Name
			}
			cases = append(cases, elemCase{exprStr(ta.Type), name, iff.Body, iff.Pos()})
		case *ast.TypeSwitchStmt:
			name := ""
			if as, ok := x.Assign.(*ast.AssignStmt); ok && len(as.Lhs) == 1 {
				if id, ok := as.Lhs[0].(*ast.Ident); ok {
					name = id.Name
				}
			}
			for _, cc := range x.Body.List {
				cl := cc.(*ast.CaseClause)
				if len(cl.List) != 1 {
					continue
				}
				cases = append(cases, elemCase{exprStr(cl.List[0]), name, cl, cl.Pos()})
			}
		}
	}
	for _, ec := range cases {
		goT := ec.goT
		w, tracked := wantElem[goT]
		if !tracked {
			continue
		}
		varName := ec.varName
		seenE[goT] = true
		key := "slice element of Go type " + goT
		var lit *ast.CompositeLit
		var val ast.Expr
		ast.Inspect(ec.body, func(m ast.Node) bool {
			if c, ok := m.(*ast.CompositeLit); ok && lit == nil && objectStructName(infoS.Types[c].Type) != "" {
				lit = c
				for _, el := range c.Elts {
					if kv, ok := el.(*ast.KeyValueExpr); ok {
						val = kv.Value
					}
				}
			}
			return true
		})
		if lit == nil || val == nil {
			r.Fail(key, p.Pos(ec.pos), "no object is appended for this element type")
			continue
		}
		got := objectStructName(infoS.Types[lit].Type)
		core := stripConv(infoS, val)
		id, isID := core.(*ast.Ident)
		if got != w || !isID || id.Name != varName {
			r.Fail(key, p.Pos(val.Pos()), fmt.Sprintf("a %s element becomes %s{Value: %s}; it must become %s of the element itself", goT, got, exprStr(val), w))
		} else {
			r.Ok(key, p.Pos(val.Pos()), "→ "+got)
		}
	}
	// a type without a case of its own goes the way of every other member:
	// through the kind switch, which has the case (checked above)
	fallback := false
	for _, g := range []*ssa.Function{sliceConv, memberFn} {
		for _, b := range g.Blocks {
			for _, ins := range b.Instrs {
				if c, ok := ins.(*ssa.Call); ok && c.Call.StaticCallee() == conv {
					fallback = true
				}
			}
		}
	}
	var untyped []string
	for k := range wantElem {
		if !seenE[k] {
			untyped = append(untyped, k)
		}
	}
	sort.Strings(untyped)
	for _, k := range untyped {
		if fallback {
			r.Ok("slice element of Go type "+k, p.Pos(sliceConv.Pos()), "no case of its own: converted by kind like a field")
		} else {
			r.Fail("slice element of Go type "+k, p.Pos(sliceConv.Pos()), "slice elements of this type are not converted (they are dropped, shortening the array)")
		}
	}
	// order: elements are appended in index order (loop runs 0..len-1, append)
	orderOK := false
	ast.Inspect(fdS.Body, func(n ast.Node) bool {
		if f, ok := n.(*ast.ForStmt); ok {
			if be, ok := f.Cond.(*ast.BinaryExpr); ok && be.Op == token.LSS {
				if inc, ok := f.Post.(*ast.IncDecStmt); ok && inc.Tok == token.INC {
					if as, ok := f.Init.(*ast.AssignStmt); ok && len(as.Rhs) == 1 {
						if tv := infoS.Types[as.Rhs[0]]; tv.Value != nil && constant.Sign(tv.Value) == 0 {
							orderOK = true
						}
					}
				}
			}
		}
		return true
	})
	r.Check(orderOK, "slice elements are converted in index order", p.Pos(sliceConv.Pos()), "for i := 0; i < len; i++ with append", "the slice is not walked from index 0 upwards: the array's order differs from the slice's")
	kindTableMembers(p, r, conv)
}

// kindTableMembers: a member of a host container (a slice element, a map value,
// a map key) that is handed to the kind switch has been taken out of its
// interface first.  The element type of []interface{} and map[…]interface{} —
// what decoded JSON consists of — has kind Interface, which the kind switch
// has no case for: handed over as it is, every nested array, object and
// number of such a container arrives as null.
func kindTableMembers(p *Program, r *Reporter, conv *ssa.Function) {
	// does the kind switch itself look inside interfaces?
	handlesIface := false
	for _, b := range conv.Blocks {
		for _, ins := range b.Instrs {
			if bo, ok := ins.(*ssa.BinOp); ok && bo.Op == token.EQL {
				for _, e := range []ssa.Value{bo.X, bo.Y} {
					if k, ok := e.(*ssa.Const); ok && isStdNamed(k.Type(), "reflect", "Kind") {
						if n, ok := constInt(k); ok && n == 20 { // reflect.Interface
							handlesIface = true
						}
					}
				}
			}
		}
	}
	// unwrapper: reflect.Value → reflect.Value, returns Elem() of its argument
	// where the kind is Interface
	isUnwrapper := func(f *ssa.Function) bool {
		if f == nil || len(f.Blocks) == 0 || len(f.Params) != 1 || !isStdNamed(f.Params[0].Type(), "reflect", "Value") {
			return false
		}
		rs := sigResults(f)
		if len(rs) != 1 || !isStdNamed(rs[0], "reflect", "Value") {
			return false
		}
		for _, b := range f.Blocks {
			for _, ins := range b.Instrs {
				if c, ok := ins.(*ssa.Call); ok && c.Call.StaticCallee() != nil && c.Call.StaticCallee().String() == "(reflect.Value).Elem" {
					return true
				}
			}
		}
		return false
	}
	// origin of a reflect.Value: "concrete", "member:<what>", "field", "unknown"
	var origin func(v ssa.Value, depth int, seen map[ssa.Value]bool) []string
	origin = func(v ssa.Value, depth int, seen map[ssa.Value]bool) []string {
		if depth > 10 || seen[v] {
			return nil
		}
		seen[v] = true
		switch x := v.(type) {
		case *ssa.Call:
			cal := x.Call.StaticCallee()
			if cal == nil {
				return []string{"unknown"}
			}
			switch cal.String() {
			case "reflect.ValueOf":
				return []string{"concrete"}
			case "reflect.Indirect":
				return origin(x.Call.Args[0], depth+1, seen)
			case "(reflect.Value).Elem":
				return []string{"concrete"}
			case "(reflect.Value).Index":
				return []string{"member:an element of a slice"}
			case "(reflect.Value).MapIndex":
				return []string{"member:a value of a map"}
			case "(reflect.Value).Field", "(reflect.Value).FieldByName", "(reflect.Value).FieldByIndex":
				return []string{"field"}
			}
			if isUnwrapper(cal) {
				return []string{"concrete"}
			}
			if fnPkg(cal) != nil && IsLibPath(fnPkg(cal).Pkg.Path()) && len(cal.Blocks) > 0 {
				var out []string
				for _, b := range cal.Blocks {
					if ret, ok := terminator(b).(*ssa.Return); ok && len(ret.Results) == 1 {
						out = append(out, origin(ret.Results[0], depth+1, seen)...)
					}
				}
				return out
			}
			return []string{"unknown"}
		case *ssa.Phi:
			var out []string
			for _, e := range x.Edges {
				out = append(out, origin(e, depth+1, seen)...)
			}
			return out
		case *ssa.Parameter:
			return []string{"concrete"} // the callers' business: their arguments are judged where they call
		case *ssa.UnOp:
			// a load: an element of the slice MapKeys() returned, or a local
			if x.Op == token.MUL {
				if ia, ok := x.X.(*ssa.IndexAddr); ok {
					for _, o := range origins(ia.X) {
						if c, ok := o.(*ssa.Call); ok && c.Call.StaticCallee() != nil {
							if c.Call.StaticCallee().String() == "(reflect.Value).MapKeys" {
								return []string{"member:a key of a map"}
							}
							// a helper that returns the keys (sorted)
							if cal := c.Call.StaticCallee(); fnPkg(cal) != nil && IsLibPath(fnPkg(cal).Pkg.Path()) {
								for _, b := range cal.Blocks {
									for _, ins := range b.Instrs {
										if c2, ok := ins.(*ssa.Call); ok && c2.Call.StaticCallee() != nil && c2.Call.StaticCallee().String() == "(reflect.Value).MapKeys" {
											return []string{"member:a key of a map"}
										}
									}
								}
							}
						}
					}
					return []string{"unknown"}
				}
				if al, ok := x.X.(*ssa.Alloc); ok {
					var out []string
					for _, ref := range *al.Referrers() {
						if st, ok := ref.(*ssa.Store); ok && st.Addr == ssa.Value(al) {
							out = append(out, origin(st.Val, depth+1, seen)...)
						}
					}
					return out
				}
			}
			return []string{"unknown"}
		case *ssa.Extract:
			// the key / value of a range over MapKeys(): next(iter)
			return []string{"unknown"}
		}
		return []string{"unknown"}
	}
	nth := map[string]int{}
	for _, fn := range p.LibFns {
		if fnPkg(fn).Pkg.Path() != Mod+"/vm" {
			continue
		}
		for _, c := range callsTo(fn, conv) {
			cc := c.Common()
			if len(cc.Args) < 2 {
				continue
			}
			arg := cc.Args[len(cc.Args)-1]
			os := origin(arg, 0, map[ssa.Value]bool{})
			nth[p.FnName(fn)]++
			key := fmt.Sprintf("%s/value %d handed to the kind switch is not still inside an interface", p.FnName(fn), nth[p.FnName(fn)])
			member, unknown := "", false
			for _, o := range os {
				if strings.HasPrefix(o, "member:") {
					member = strings.TrimPrefix(o, "member:")
				}
				if o == "unknown" {
					unknown = true
				}
			}
			switch {
			case handlesIface:
				r.OkNT(key, p.Pos(c.Pos()), "the kind switch has a case for Interface")
			case member != "":
				r.Fail(key, p.Pos(c.Pos()), member+" is handed to the kind switch as reflection gave it: in a []interface{} or map[…]interface{} — a decoded JSON document — its kind is Interface, for which the switch has no case, so nested arrays, objects and numbers arrive as null (reflect.ValueOf(x.Interface()) or Elem() takes the value out first)")
			case unknown || len(os) == 0:
				r.Undecided(key, p.Pos(c.Pos()), "cannot tell where the value handed to the kind switch comes from")
			default:
				r.OkNT(key, p.Pos(c.Pos()), "reflect.ValueOf of a value, an unwrapped member, or a struct field")
			}
		}
	}
}

// ---------------------------------------------------------------------------
// R-POPORDER

func rulePopOrder(p *Program, r *Reporter) {
	a := needAnchors(p, r)
	if a == nil {
		return
	}
	// value = base + k for a constant k
	lin := func(v ssa.Value) (ssa.Value, int64) {
		k := int64(0)
		for d := 0; d < 4; d++ {
			bo, ok := v.(*ssa.BinOp)
			if !ok || (bo.Op != token.ADD && bo.Op != token.SUB) {
				break
			}
			c, ok := constInt(bo.Y)
			if !ok {
				break
			}
			if bo.Op == token.SUB {
				c = -c
			}
			k += c
			v = bo.X
		}
		return v, k
	}
	found := map[string]bool{}
	why := map[string]string{}
	pos := map[string]token.Pos{}
	// the handlers, wherever their text sits
	fns := []*ssa.Function{a.vmRun}
	for _, f := range p.LibFns {
		if root, _ := caseHome(p, f, f.Pos()); root == a.vmRun && f != a.vmRun {
			fns = append(fns, f)
		}
	}
	for _, fn := range fns {
		for _, b := range fn.Blocks {
			for _, ins := range b.Instrs {
				st, ok := ins.(*ssa.Store)
				if !ok {
					continue
				}
				ia, ok := st.Addr.(*ssa.IndexAddr)
				if !ok {
					continue
				}
				mk, ok := ia.X.(*ssa.MakeSlice)
				if !ok {
					continue
				}
				// the stored value is what a Pop returned
				fromPop := false
				for _, o := range origins(st.Val) {
					if ex, ok := o.(*ssa.Extract); ok {
						if c, ok := ex.Tuple.(*ssa.Call); ok && c.Call.StaticCallee() != nil && c.Call.StaticCallee().Name() == "Pop" {
							fromPop = true
						}
					}
				}
				if !fromPop {
					continue
				}
				_, label := caseHome(p, fn, st.Pos())
				op := ""
				for _, o := range []string{"OpArray", "OpCall"} {
					if strings.Contains(label, o) {
						op = o
					}
				}
				if op == "" {
					continue
				}
				pos[op] = st.Pos()
				// index = φ + c, φ = φ(init, φ + step): first index is the length
				// minus one, and it goes down by one
				base, c := lin(ia.Index)
				ph, ok := base.(*ssa.Phi)
				if !ok || len(ph.Edges) != 2 {
					why[op] = "the index at which a popped value is stored is not a loop counter"
					continue
				}
				var init ssa.Value
				step, haveStep := int64(0), false
				for _, e := range ph.Edges {
					eb, ek := lin(e)
					if eb == ssa.Value(ph) {
						step, haveStep = ek, true
					} else {
						init = e
					}
				}
				if init == nil || !haveStep {
					why[op] = "the index at which a popped value is stored is not a simple loop counter"
					continue
				}
				ib, ik := lin(init)
				lb, lk := lin(mk.Len)
				switch {
				case step != -1:
					why[op] = fmt.Sprintf("the index moves by %d per popped value, not down by one", step)
				case ib != lb || ik+c != lk-1:
					why[op] = "the first popped value is not stored in the last position of the slice (popped values are stored from another index than length-1 downwards): the last value pushed must land in the last position"
				default:
					found[op] = true
				}
			}
		}
	}
	for _, op := range []string{"OpArray", "OpCall"} {
		key := op + " stores popped values from the last index down"
		switch {
		case found[op] && why[op] == "":
			r.OkNT(key, p.Pos(pos[op]), "slice[n-1], slice[n-2], … as the values are popped")
		case why[op] != "":
			r.Fail(key, p.Pos(pos[op]), why[op]+": elements / arguments would arrive in reverse order")
		default:
			r.Fail(key, "-", "no loop that pops the operands into a slice of their number, last position first: elements / arguments would arrive in reverse order")
		}
	}
}

// ---------------------------------------------------------------------------
// R-CALLPROTO

func ruleCallProto(p *Program, r *Reporter) {
	a := needAnchors(p, r)
	if a == nil {
		return
	}
	run := a.vmRun
	var getFn *ssa.Call
	var userLookup *ssa.Lookup
	for _, ins := range handlerInstrs(p, a, "OpCall") {
		switch x := ins.(type) {
		case *ssa.Call:
			if x.Call.StaticCallee() != nil && x.Call.StaticCallee().Name() == "GetFunction" {
				getFn = x
			}
		case *ssa.Lookup:
			if u, ok := x.X.(*ssa.UnOp); ok && fieldKey(u.X) == "vm.VM.functions" {
				userLookup = x
			}
		}
	}
	if getFn == nil || userLookup == nil {
		r.Undecided("call handler lookups", p.Pos(run.Pos()), "cannot find the host-table lookup and the user-function lookup in the call handler")
		return
	}
	// the two lookups seen from the function that holds both (the later one
	// possibly through the call that leads to it)
	lg, lu := liftPair(p, getFn, userLookup)
	if lg == nil || lu == nil {
		r.Undecided("call handler lookups", p.Pos(run.Pos()), "the host-table lookup and the user-function lookup are in functions neither of which is reached only from the other")
		return
	}
	r.Check(dominatesInstr(lg, lu) && lg == ssa.Instruction(getFn), "a built-in wins over a user-defined function", p.Pos(getFn.Pos()), "the host/built-in table is consulted first", "user-defined functions are looked up before (or without) the host/built-in table: a script can shadow a built-in")
	// the user lookup happens only when the built-in was not found
	viaMiss := false
	for _, ref := range liveRefs(getFn) {
		if ex, ok := ref.(*ssa.Extract); ok && ex.Index == 1 {
			for _, r2 := range liveRefs(ex) {
				if iff, ok := r2.(*ssa.If); ok {
					miss := iff.Block().Succs[1]
					if lg == ssa.Instruction(getFn) && (miss == lu.Block() || miss.Dominates(lu.Block())) {
						viaMiss = true
					}
				}
			}
		}
	}
	r.Check(viaMiss, "user-defined functions are only tried when no built-in has the name", p.Pos(userLookup.Pos()), "", "the user-function lookup is not on the branch where the host table missed")
	// unknown function → error
	unknownErr := false
	for _, ref := range liveRefs(userLookup) {
		if ex, ok := ref.(*ssa.Extract); ok && ex.Index == 1 {
			for _, r2 := range liveRefs(ex) {
				if iff, ok := r2.(*ssa.If); ok {
					miss := iff.Block().Succs[1]
					if ret, ok := terminator(miss).(*ssa.Return); ok && !isSuccessReturn(ret) {
						unknownErr = true
					}
					// `if !ok2 { return err }` compiles with the error on the true edge of the negation
					if u, ok := iff.Cond.(*ssa.UnOp); ok && u.Op == token.NOT {
						if ret, ok := terminator(iff.Block().Succs[0]).(*ssa.Return); ok && !isSuccessReturn(ret) {
							unknownErr = true
						}
					}
				}
				if u, ok := r2.(*ssa.UnOp); ok && u.Op == token.NOT {
					for _, r3 := range liveRefs(u) {
						if iff, ok := r3.(*ssa.If); ok {
							if ret, ok := terminator(iff.Block().Succs[0]).(*ssa.Return); ok && !isSuccessReturn(ret) {
								unknownErr = true
							}
						}
					}
				}
			}
		}
	}
	r.Check(unknownErr, "calling an unknown function is a run-time error", p.Pos(userLookup.Pos()), "", "a name that is neither a built-in nor a user-defined function does not end the run with an error")
	// arity check dominates the re-entry
	arity := false
	var reentry ssa.Instruction
	inHandler := map[ssa.Instruction]bool{}
	for _, ins := range handlerInstrs(p, a, "OpCall") {
		inHandler[ins] = true
	}
	for _, re := range runReentries(p, run) {
		if re.fn == run {
			reentry = re.call.(ssa.Instruction)
		} else {
			// the function that re-enters the interpreter: its call in the handler
			for _, site := range staticCallSites(p, re.fn) {
				if inHandler[site.(ssa.Instruction)] {
					reentry = site.(ssa.Instruction)
				}
			}
		}
	}
	if reentry != nil {
		for d := reentry.Block(); d.Idom() != nil; d = d.Idom() {
			iff, ok := terminator(d.Idom()).(*ssa.If)
			if !ok {
				continue
			}
			bo, ok := iff.Cond.(*ssa.BinOp)
			if !ok || bo.Op != token.NEQ {
				continue
			}
			_, l1 := isBuiltinCall(bo.X, "len")
			_, l2 := isBuiltinCall(bo.Y, "len")
			if l1 && l2 && d.Idom().Succs[1] == d {
				if ret, ok := terminator(d.Idom().Succs[0]).(*ssa.Return); ok && !isSuccessReturn(ret) {
					arity = true
				}
			}
		}
	}
	r.Check(arity, "a wrong argument count is a run-time error", p.Pos(run.Pos()), "len(parameters) != len(arguments) returns an error before the function is entered", "a user-defined function is entered without comparing the number of arguments with the number of parameters")
}

// ---------------------------------------------------------------------------
// R-SCOPESEARCH

func ruleScopeSearch(p *Program, r *Reporter) {
	er := resolveEnvRoles(p)
	if er.scopeField == "" {
		r.Undecided("scope stack", "-", "not found")
		return
	}
	envGet := methodOf(p, "environment", "Environment", "Get")
	envSet := methodOf(p, "environment", "Environment", "Set")
	if envGet == nil || envSet == nil {
		r.Undecided("Get/Set", "-", "not found")
		return
	}
	// the search helper: function of environment with a loop indexing the scope
	// stack and returning (Object, bool)
	var search *ssa.Function
	for _, fn := range p.LibFns {
		if !recvNamed(fn, "environment", "Environment") || fn.Parent() != nil {
			continue
		}
		rs := sigResults(fn)
		// (object, found) — possibly with more, such as the scope it was found in
		if len(rs) >= 2 && isObjectIface(rs[0]) && isBoolType(rs[len(rs)-1]) && fn != envGet {
			search = fn
		}
	}
	if search == nil {
		// … or (the scope it was found in — nil when it was not —, the object)
		for _, fn := range p.LibFns {
			if !recvNamed(fn, "environment", "Environment") || fn.Parent() != nil || fn == envGet || fn == envSet {
				continue
			}
			rs := sigResults(fn)
			hasObj, hasScope := false, false
			for _, t := range rs {
				if isObjectIface(t) {
					hasObj = true
				}
				if _, isMap := t.Underlying().(*types.Map); isMap {
					hasScope = true
				}
			}
			if len(rs) >= 2 && hasObj && hasScope {
				search = fn
			}
		}
	}
	if search == nil {
		search = envGet
	}
	// the loop itself may live in a helper of the search (one that hands back
	// the scope the name was found in)
	loopFn := search
	indexesScopes := func(fn *ssa.Function) bool {
		for _, b := range fn.Blocks {
			for _, ins := range b.Instrs {
				if ia, ok := ins.(*ssa.IndexAddr); ok {
					if u, ok := ia.X.(*ssa.UnOp); ok && fieldKey(u.X) == er.scopeField {
						if _, _, _, _, ok := induction(ia.Index); ok {
							return true
						}
					}
				}
			}
		}
		return false
	}
	if !indexesScopes(search) {
		var find func(fn *ssa.Function, d int) *ssa.Function
		find = func(fn *ssa.Function, d int) *ssa.Function {
			if d > 2 {
				return nil
			}
			for _, b := range fn.Blocks {
				for _, ins := range b.Instrs {
					cc := callOf(ins)
					if cc == nil || cc.StaticCallee() == nil || !recvNamed(cc.StaticCallee(), "environment", "Environment") {
						continue
					}
					if indexesScopes(cc.StaticCallee()) {
						return cc.StaticCallee()
					}
					if g := find(cc.StaticCallee(), d+1); g != nil {
						return g
					}
				}
			}
			return nil
		}
		if g := find(search, 0); g != nil {
			loopFn = g
		}
	}
	// loop shape: φ(len(scopes), φ-1); index φ-1
	good := false
	why := "no search loop over the scope stack found"
	for _, b := range loopFn.Blocks {
		for _, ins := range b.Instrs {
			ia, ok := ins.(*ssa.IndexAddr)
			if !ok {
				continue
			}
			u, ok := ia.X.(*ssa.UnOp)
			if !ok || fieldKey(u.X) != er.scopeField {
				continue
			}
			ph, c, init, step, ok := induction(ia.Index)
			if !ok {
				why = "the index with which the scope stack is searched is not a loop counter"
				continue
			}
			// the first index is len(scopes)-1 and it goes down by one
			startsAtLen, stepsDown := false, step == -1
			ib, ik := linear(init)
			if lc, ok := isBuiltinCall(ib, "len"); ok && ik+c == -1 {
				if u2, ok := lc.Call.Args[0].(*ssa.UnOp); ok && fieldKey(u2.X) == er.scopeField {
					startsAtLen = true
				}
			}
			if startsAtLen && stepsDown {
				good = true
				// where does the search stop?  A lower bound that is the constant 0
				// means the callers' scopes are searched as well.
				stopsAtZero, hasBound := false, false
				for _, ref := range *ph.Referrers() {
					cmp, ok := ref.(*ssa.BinOp)
					if !ok || (cmp.Op != token.GTR && cmp.Op != token.GEQ && cmp.Op != token.NEQ && cmp.Op != token.LSS && cmp.Op != token.LEQ && cmp.Op != token.EQL) {
						continue
					}
					other := cmp.Y
					if cmp.Y == ssa.Value(ph) {
						other = cmp.X
					}
					hasBound = true
					if _, isConst := constInt(other); isConst {
						stopsAtZero = true
					}
				}
				bkey := "a variable is searched for in the scopes of the running function only"
				switch {
				case !hasBound:
					r.Undecided(bkey, p.Pos(search.Pos()), "cannot see what ends the search over the scope stack")
				case stopsAtZero:
					r.Fail(bkey, p.Pos(ia.Pos()), "the search over the scope stack runs down to its bottom — through the scopes of every function that is still running: a callee that reads or assigns a name it has not declared finds its caller's parameter, local or loop variable of that name, so `function g() { n = 99; } function f(n) { g(); return n; } return f(1);` returns 99 and the global n is never set (assignments to other names are not global, and the caller's variable does not keep its value)")
				default:
					r.OkNT(bkey, p.Pos(ia.Pos()), "the search is bounded below by a value that is not the constant 0 (the base of the running function's scopes)")
				}
			} else {
				why = fmt.Sprintf("the search does not start at the innermost scope and walk outwards (starts at len: %v, steps down: %v)", startsAtLen, stepsDown)
			}
		}
	}
	r.Check(good, "scopes are searched innermost first", p.Pos(search.Pos()), "counter starts at len(scopes) and decreases; index counter-1", why+": a variable of an outer scope would shadow the same name in an inner one")
	// every other loop over the scope stack (the one that updates an existing
	// local) must walk the same way
	for _, fn := range p.LibFns {
		if !recvNamed(fn, "environment", "Environment") || fn == search || fn == loopFn {
			continue
		}
		for _, b := range fn.Blocks {
			for _, ins := range b.Instrs {
				ia, ok := ins.(*ssa.IndexAddr)
				if !ok {
					continue
				}
				base := ia.X
				if sl, ok := base.(*ssa.Slice); ok {
					base = sl.X // a part of the stack: e.local[from:]
				}
				u, ok := base.(*ssa.UnOp)
				if !ok || fieldKey(u.X) != er.scopeField {
					continue
				}
				// loop-carried index?
				var ph *ssa.Phi
				switch x := ia.Index.(type) {
				case *ssa.Phi:
					ph = x
				case *ssa.BinOp:
					ph, _ = x.X.(*ssa.Phi)
				}
				if ph == nil {
					continue
				}
				down := false
				for _, e := range ph.Edges {
					if b2, ok := e.(*ssa.BinOp); ok && b2.Op == token.SUB && b2.X == ssa.Value(ph) {
						down = true
					}
				}
				key := p.FnName(fn) + "/walks the scope stack innermost first"
				if down {
					r.OkNT(key, p.Pos(ia.Pos()), "descending index")
				} else {
					r.Fail(key, p.Pos(ia.Pos()), "this loop walks the scope stack from the outermost scope (ascending index / range): when a name is bound in two open scopes the outer one is found and updated, so an assignment in a callee or inner loop overwrites the caller's variable and leaves its own unchanged")
				}
			}
		}
	}
	// Get consults the scopes before the globals
	var searchCall ssa.CallInstruction
	for _, c := range callsTo(envGet, search) {
		searchCall = c
	}
	var globalLookup *ssa.Lookup
	for _, b := range envGet.Blocks {
		for _, ins := range b.Instrs {
			if lk, ok := ins.(*ssa.Lookup); ok {
				if u, ok := lk.X.(*ssa.UnOp); ok && strings.HasSuffix(fieldKey(u.X), ".global") {
					globalLookup = lk
				}
			}
		}
	}
	if search != envGet {
		r.Check(searchCall != nil && globalLookup != nil && dominatesInstr(searchCall.(ssa.Instruction), globalLookup), "locals shadow globals", p.Pos(envGet.Pos()), "the scope search precedes the global lookup", "Get does not consult the scopes before the global variables")
	}
	// Set: the global store is on the branch where the name is not a local
	redirect := false
	for _, b := range envSet.Blocks {
		for _, ins := range b.Instrs {
			mu, ok := ins.(*ssa.MapUpdate)
			if !ok {
				continue
			}
			u, ok := mu.Map.(*ssa.UnOp)
			if !ok || !strings.HasSuffix(fieldKey(u.X), ".global") {
				continue
			}
			for d := b; d.Idom() != nil; d = d.Idom() {
				iff, ok := terminator(d.Idom()).(*ssa.If)
				if !ok {
					continue
				}
				// the search says "found" with a boolean, or by handing back
				// the scope (nil when there is none)
				var ex *ssa.Extract
				missIdx := 1
				switch c := iff.Cond.(type) {
				case *ssa.Extract:
					if isBoolType(c.Type()) {
						ex = c
					}
				case *ssa.BinOp:
					x, y := c.X, c.Y
					if isNilConst(x) {
						x, y = y, x
					}
					if e2, isEx := x.(*ssa.Extract); isEx && isNilConst(y) && (c.Op == token.NEQ || c.Op == token.EQL) {
						if _, isMap := e2.Type().Underlying().(*types.Map); isMap {
							ex = e2
							if c.Op == token.EQL {
								missIdx = 0
							}
						}
					}
				}
				if ex == nil {
					continue
				}
				if c, ok := ex.Tuple.(*ssa.Call); ok && c.Call.StaticCallee() == search && d.Idom().Succs[missIdx] == d {
					// and the found branch writes the local: through a method of
					// the environment, or into the scope the search reported
					tb := d.Idom().Succs[1-missIdx]
					for _, i2 := range tb.Instrs {
						if mu2, ok := i2.(*ssa.MapUpdate); ok {
							if e3, isEx := mu2.Map.(*ssa.Extract); isEx && e3.Tuple == ex.Tuple {
								if _, isMap := e3.Type().Underlying().(*types.Map); isMap {
									redirect = true
								}
							}
						}
					}
					for _, i2 := range tb.Instrs {
						if cc := callOf(i2); cc != nil && cc.StaticCallee() != nil && recvNamed(cc.StaticCallee(), "environment", "Environment") {
							redirect = true
						}
						if mu2, ok := i2.(*ssa.MapUpdate); ok {
							if ld, ok := mu2.Map.(*ssa.UnOp); ok {
								if ia, ok := ld.X.(*ssa.IndexAddr); ok {
									if u2, ok := ia.X.(*ssa.UnOp); ok && fieldKey(u2.X) == er.scopeField {
										if ex2, ok := ia.Index.(*ssa.Extract); ok && ex2.Tuple == ex.Tuple {
											redirect = true
										}
									}
								}
							}
						}
					}
				}
			}
		}
	}
	r.Check(redirect, "assignment to an existing local updates the local", p.Pos(envSet.Pos()), "Set writes the global map only when the scope search misses; otherwise it updates the scope", "Set stores globally without first checking whether the name is a local: assigning to a parameter or loop variable creates a global and leaves the local unchanged")
}

// ---------------------------------------------------------------------------
// R-LENKIND

func ruleLenKind(p *Program, r *Reporter) {
	fn := registeredBuiltins(p)["len"]
	if fn == nil {
		r.Undecided("len built-in", "-", "not registered")
		return
	}
	info := p.Info(fn)
	fd := p.FuncDecl(fn)
	got := map[string]string{}
	ast.Inspect(fd.Body, func(n ast.Node) bool {
		ts, ok := n.(*ast.TypeSwitchStmt)
		if !ok {
			return true
		}
		for _, cc := range ts.Body.List {
			cl := cc.(*ast.CaseClause)
			if len(cl.List) != 1 {
				continue
			}
			tn := objectStructName(info.Types[cl.List[0]].Type)
			for _, st := range cl.Body {
				if rs, ok := st.(*ast.ReturnStmt); ok && len(rs.Results) == 1 {
					got[tn] = "?"
					ast.Inspect(rs.Results[0], func(m ast.Node) bool {
						if ce, ok := m.(*ast.CallExpr); ok {
							if id, ok := ce.Fun.(*ast.Ident); ok && id.Name == "len" && len(ce.Args) == 1 {
								got[tn] = strings.ReplaceAll(exprStr(ce), " ", "")
							}
						}
						return true
					})
				}
			}
		}
		return true
	})
	r.Check(strings.Contains(got["Array"], "len(") && strings.Contains(got["Array"], ".Elements)"), "len of an array counts its elements", p.Pos(fn.Pos()), got["Array"], "len() of an array is not len(Elements): "+got["Array"])
	r.Check(strings.Contains(got["Hash"], "len(") && strings.Contains(got["Hash"], ".Pairs)"), "len of a hash counts its pairs", p.Pos(fn.Pos()), got["Hash"], "len() of a hash is not len(Pairs): "+got["Hash"])
	// every count the built-in returns: what is counted?  Bytes of a string are
	// never the answer (a regexp, or any text with a non-ASCII character, has
	// more bytes than characters)
	var fns []*ssa.Function
	seenFn := map[*ssa.Function]bool{}
	var collect func(f *ssa.Function, depth int)
	collect = func(f *ssa.Function, depth int) {
		if f == nil || seenFn[f] || depth > 2 || len(f.Blocks) == 0 || fnPkg(f) == nil || !IsLibPath(fnPkg(f).Pkg.Path()) {
			return
		}
		seenFn[f] = true
		fns = append(fns, f)
		for _, b := range f.Blocks {
			for _, ins := range b.Instrs {
				if c, ok := ins.(*ssa.Call); ok && c.Call.StaticCallee() != nil && c.Call.StaticCallee().Signature.Recv() == nil {
					collect(c.Call.StaticCallee(), depth+1)
				}
			}
		}
	}
	collect(fn, 0)
	runes, bytesAt, unknown := 0, token.NoPos, token.NoPos
	var classify func(v ssa.Value, depth int)
	classify = func(v ssa.Value, depth int) {
		if depth > 8 {
			unknown = v.Pos()
			return
		}
		switch x := v.(type) {
		case *ssa.Convert:
			classify(x.X, depth+1)
		case *ssa.ChangeType:
			classify(x.X, depth+1)
		case *ssa.Phi:
			for _, e := range x.Edges {
				classify(e, depth+1)
			}
		case *ssa.Const:
		case *ssa.Call:
			if _, ok := isBuiltinCall(x, "len"); ok {
				switch t := x.Call.Args[0].Type().Underlying().(type) {
				case *types.Basic:
					if t.Info()&types.IsString != 0 {
						bytesAt = x.Pos()
					}
				case *types.Slice:
					if b, ok := t.Elem().Underlying().(*types.Basic); ok && b.Kind() == types.Uint8 {
						bytesAt = x.Pos()
					} else if ok && b.Kind() == types.Int32 {
						runes++ // len([]rune(s))
					}
				}
				return
			}
			if cal := x.Call.StaticCallee(); cal != nil {
				switch cal.String() {
				case "unicode/utf8.RuneCountInString", "unicode/utf8.RuneCount":
					runes++
					return
				}
				if seenFn[cal] {
					for _, b := range cal.Blocks {
						if ret, ok := terminator(b).(*ssa.Return); ok && len(ret.Results) == 1 {
							classify(ret.Results[0], depth+1)
						}
					}
					return
				}
			}
			unknown = x.Pos()
		case *ssa.BinOp:
			classify(x.X, depth+1)
			classify(x.Y, depth+1)
		default:
			unknown = v.Pos()
		}
	}
	counts := 0
	for _, f := range fns {
		for _, b := range f.Blocks {
			for _, ins := range b.Instrs {
				st, ok := ins.(*ssa.Store)
				if !ok {
					continue
				}
				fa, ok := st.Addr.(*ssa.FieldAddr)
				if !ok || objectStructName(fa.X.Type()) != "Integer" {
					continue
				}
				if _, fname, _ := fieldOf(fa); fname != "Value" {
					continue
				}
				counts++
				classify(st.Val, 0)
			}
		}
	}
	key := "len of anything else counts characters"
	switch {
	case bytesAt.IsValid():
		r.Fail(key, p.Pos(bytesAt), "len() returns the number of bytes of a string (Go's len of a string or of its bytes): for text with a character outside ASCII — a string, but also the printed form of a regexp — that is more than the number of characters")
	case counts == 0 || runes == 0:
		r.Fail(key, p.Pos(fn.Pos()), "len() of a string does not count runes (a byte count differs for non-ASCII text)")
	case unknown.IsValid():
		r.Undecided(key, p.Pos(unknown), "a count returned by len() is computed in a way this rule does not know")
	default:
		r.OkNT(key, p.Pos(fn.Pos()), fmt.Sprintf("%d count(s) returned; text is counted by utf8.RuneCountInString / len([]rune) only", counts))
	}
}

// ---------------------------------------------------------------------------
// R-TIMEFIELDS

func ruleTimeFields(p *Program, r *Reporter) {
	reg := registeredBuiltins(p)
	want := map[string]string{"hour": "Clock#0", "minute": "Clock#1", "seconds": "Clock#2", "year": "Date#0", "month": "Date#1", "day": "Date#2", "weekday": "Weekday"}
	var names []string
	for n := range want {
		names = append(names, n)
	}
	sort.Strings(names)
	for _, name := range names {
		key := "time built-in " + name
		fn := reg[name]
		if fn == nil {
			r.Fail(key, "-", "no built-in registered under this name")
			continue
		}
		// fn calls a helper (args, "<field>")
		var helper *ssa.Function
		field := ""
		for _, b := range fn.Blocks {
			for _, ins := range b.Instrs {
				if c, ok := ins.(*ssa.Call); ok && c.Call.StaticCallee() != nil && len(c.Call.Args) == 2 {
					if k, ok := c.Call.Args[1].(*ssa.Const); ok && k.Value != nil && k.Value.Kind() == constant.String {
						helper, field = c.Call.StaticCallee(), constant.StringVal(k.Value)
					}
				}
			}
		}
		if helper == nil {
			r.Undecided(key, p.Pos(fn.Pos()), "the built-in does not delegate to a helper with a field name")
			continue
		}
		// in the helper: the block reached when the selector equals `field`
		// returns an object whose value derives from which component
		got := ""
		for _, b := range helper.Blocks {
			for _, ins := range b.Instrs {
				bo, ok := ins.(*ssa.BinOp)
				if !ok || bo.Op != token.EQL {
					continue
				}
				k, ok := bo.Y.(*ssa.Const)
				if !ok || k.Value == nil || k.Value.Kind() != constant.String || constant.StringVal(k.Value) != field {
					continue
				}
				for _, ref := range liveRefs(bo) {
					iff, ok := ref.(*ssa.If)
					if !ok {
						continue
					}
					tb := iff.Block().Succs[0]
					ret, ok := terminator(tb).(*ssa.Return)
					if !ok {
						continue
					}
					got = timeComponent(ret.Results[0])
				}
			}
		}
		if got == "" {
			// the fields kept in a table of functions, one per name
			for _, b := range helper.Blocks {
				for _, ins := range b.Instrs {
					c, ok := ins.(*ssa.Call)
					if !ok || c.Call.StaticCallee() != nil || c.Call.IsInvoke() {
						continue
					}
					g, _, ok := moduleFuncTable(p, c.Call.Value)
					if !ok {
						continue
					}
					if h := funcTableEntries(p, g)[field]; h != nil {
						for _, hb := range h.Blocks {
							if ret, ok := terminator(hb).(*ssa.Return); ok && len(ret.Results) == 1 {
								got = timeComponent(ret.Results[0])
							}
						}
					}
				}
			}
		}
		// a single accessor of the time stands for the component it returns
		if alias, ok := map[string]string{"Hour": "Clock#0", "Minute": "Clock#1", "Second": "Clock#2", "Year": "Date#0", "Month": "Date#1", "Day": "Date#2"}[got]; ok {
			got = alias
		}
		if got == want[name] {
			r.OkNT(key, p.Pos(fn.Pos()), "→ "+got)
		} else {
			r.Fail(key, p.Pos(fn.Pos()), fmt.Sprintf("%s() returns component %q of the time decomposition; its name requires %q", name, got, want[name]))
		}
		if !zoneDone[helper] {
			zoneDone[helper] = true
			timeZoneObligation(p, r, helper)
		}
	}
}

var zoneDone = map[*ssa.Function]bool{}

// timeZoneObligation: the time that is decomposed has been moved into the
// configured zone — the location named by $TZ, or UTC when that is unset — on
// every path on which loading the location was possible.
func timeZoneObligation(p *Program, r *Reporter, helper *ssa.Function) {
	key := p.FnName(helper) + "/the time is decomposed in the configured zone (UTC when none is configured)"
	var load *ssa.Call
	var recvs []ssa.Value
	for _, b := range helper.Blocks {
		for _, ins := range b.Instrs {
			c, ok := ins.(*ssa.Call)
			if !ok || c.Call.StaticCallee() == nil {
				continue
			}
			switch calleeFullName(&c.Call) {
			case "time.LoadLocation":
				load = c
			case "(time.Time).Clock", "(time.Time).Date", "(time.Time).Weekday", "(time.Time).Hour", "(time.Time).Minute", "(time.Time).Second", "(time.Time).Year", "(time.Time).Month", "(time.Time).Day", "(time.Time).YearDay":
				recvs = append(recvs, c.Call.Args[0])
			}
		}
	}
	// a time handed to a function out of a table of the module's own functions
	// is decomposed there
	for _, b := range helper.Blocks {
		for _, ins := range b.Instrs {
			c, ok := ins.(*ssa.Call)
			if !ok || c.Call.StaticCallee() != nil || c.Call.IsInvoke() {
				continue
			}
			if _, _, ok := moduleFuncTable(p, c.Call.Value); ok {
				for _, arg := range c.Call.Args {
					if isStdNamed(arg.Type(), "time", "Time") {
						recvs = append(recvs, arg)
					}
				}
			}
		}
	}
	if load == nil || len(recvs) == 0 {
		r.Undecided(key, p.Pos(helper.Pos()), "the helper does not load a location / decompose a time in a recognised way")
		return
	}
	// the name loaded: $TZ or the constant "UTC"
	nameOK := true
	nameWhy := ""
	for _, o := range origins(load.Call.Args[0]) {
		switch x := o.(type) {
		case *ssa.Const:
			if x.Value == nil || x.Value.Kind() != constant.String || constant.StringVal(x.Value) != "UTC" {
				nameOK, nameWhy = false, "the default location is not \"UTC\""
			}
		case *ssa.Call:
			if x.Call.StaticCallee() == nil || calleeFullName(&x.Call) != "os.Getenv" {
				nameOK, nameWhy = false, "the location name comes from "+calleeFullName(&x.Call)
			}
		default:
			nameOK, nameWhy = false, "the location name is neither $TZ nor the constant \"UTC\""
		}
	}
	if !nameOK {
		r.Fail(key, p.Pos(load.Pos()), nameWhy)
		return
	}
	// every value the decomposition is applied to
	bad := ""
	seen := map[ssa.Value]bool{}
	var chk func(v ssa.Value, from *ssa.BasicBlock)
	chk = func(v ssa.Value, from *ssa.BasicBlock) {
		if seen[v] || bad != "" {
			return
		}
		seen[v] = true
		switch x := v.(type) {
		case *ssa.Phi:
			for i, e := range x.Edges {
				chk(e, x.Block().Preds[i])
			}
			return
		case *ssa.Call:
			if x.Call.StaticCallee() != nil {
				switch calleeFullName(&x.Call) {
				case "(time.Time).In", "(time.Time).UTC":
					return
				}
			}
		case *ssa.UnOp:
			// a spilled local: look at what is stored
			if al, ok := x.X.(*ssa.Alloc); ok && x.Op == token.MUL {
				for _, ref := range *al.Referrers() {
					if st, ok := ref.(*ssa.Store); ok && st.Addr == ssa.Value(al) {
						chk(st.Val, st.Block())
					}
				}
				return
			}
		}
		// a time that was not moved into a zone: acceptable only on a path on
		// which the location had been asked for (and could not be loaded)
		if from == nil || !(load.Block() == from || load.Block().Dominates(from)) {
			bad = "on some path the time is decomposed as it came from time.Unix — in the host's local zone — without the configured location (or UTC) having been applied: with $TZ unset, hour(), day(), weekday() … then depend on the zone of the machine the host runs on"
		}
	}
	for _, v := range recvs {
		chk(v, nil)
	}
	if bad != "" {
		r.Fail(key, p.Pos(load.Pos()), bad)
	} else {
		r.OkNT(key, p.Pos(load.Pos()), "every decomposed time is the result of In(loc) unless loading the location failed; the name is $TZ or \"UTC\"")
	}
}

// timeComponent: which result of Clock()/Date() (or Weekday) the returned
// object's value derives from.
// clauseMentions: some comparison in the clause mentions the given name.
func clauseMentions(cl *ast.CaseClause, name string) bool {
	found := false
	ast.Inspect(cl, func(m ast.Node) bool {
		if be, ok := m.(*ast.BinaryExpr); ok && strings.Contains(exprStr(be), name) {
			found = true
		}
		return true
	})
	return found
}

// valueOfInstr: the instruction as a value, or nil.
func valueOfInstr(ins ssa.Instruction) ssa.Value {
	if v, ok := ins.(ssa.Value); ok {
		return v
	}
	return nil
}

func timeComponent(v ssa.Value) string {
	mi, ok := v.(*ssa.MakeInterface)
	if !ok {
		return "?"
	}
	al, ok := mi.X.(*ssa.Alloc)
	if !ok {
		return "?"
	}
	for _, ref := range *al.Referrers() {
		fa, ok := ref.(*ssa.FieldAddr)
		if !ok {
			continue
		}
		for _, r2 := range *fa.Referrers() {
			st, ok := r2.(*ssa.Store)
			if !ok {
				continue
			}
			var walk func(x ssa.Value, d int) string
			walk = func(x ssa.Value, d int) string {
				if d > 6 {
					return "?"
				}
				switch y := x.(type) {
				case *ssa.Convert:
					return walk(y.X, d+1)
				case *ssa.ChangeType:
					return walk(y.X, d+1)
				case *ssa.Extract:
					if c, ok := y.Tuple.(*ssa.Call); ok && c.Call.StaticCallee() != nil {
						return fmt.Sprintf("%s#%d", c.Call.StaticCallee().Name(), y.Index)
					}
				case *ssa.Call:
					if y.Call.StaticCallee() != nil {
						if y.Call.StaticCallee().Name() == "String" && len(y.Call.Args) == 1 {
							return walk(y.Call.Args[0], d+1)
						}
						return y.Call.StaticCallee().Name()
					}
				}
				return "?"
			}
			return walk(st.Val, 0)
		}
	}
	return "?"
}

// ---------------------------------------------------------------------------
// R-MACHINENIL

func ruleMachineNil(p *Program, r *Reporter) {
	for _, fn := range p.LibFns {
		if fn.Parent() != nil || !recvNamed(fn, "", "Eval") || !ast.IsExported(fn.Name()) {
			continue
		}
		// uses of Eval.machine as a receiver / dereference
		var uses []ssa.Instruction
		for _, b := range fn.Blocks {
			for _, ins := range b.Instrs {
				cc := callOf(ins)
				if cc == nil || len(cc.Args) == 0 {
					continue
				}
				if u, ok := cc.Args[0].(*ssa.UnOp); ok && fieldKey(u.X) == "evalfilter.Eval.machine" {
					uses = append(uses, ins)
				}
			}
		}
		if len(uses) == 0 {
			continue
		}
		key := p.FnName(fn) + " uses the machine only when there is one"
		// a deferred recover in the function makes a nil dereference an error
		recovers := false
		for _, b := range fn.Blocks {
			for _, ins := range b.Instrs {
				d, ok := ins.(*ssa.Defer)
				if !ok {
					continue
				}
				var body *ssa.Function
				if mc, ok := d.Call.Value.(*ssa.MakeClosure); ok {
					body, _ = mc.Fn.(*ssa.Function)
				} else {
					body = d.Call.StaticCallee()
				}
				if body == nil {
					continue
				}
				for _, bb := range body.Blocks {
					for _, i2 := range bb.Instrs {
						if c, ok := i2.(*ssa.Call); ok {
							if bi, ok := c.Call.Value.(*ssa.Builtin); ok && bi.Name() == "recover" {
								recovers = true
							}
						}
					}
				}
			}
		}
		// the machine is stored in this function before the use (Prepare builds it)
		builds := false
		storesMachine := func(in ssa.Instruction) bool {
			st, ok := in.(*ssa.Store)
			if !ok || fieldKey(st.Addr) != "evalfilter.Eval.machine" {
				return false
			}
			_, isCall := st.Val.(*ssa.Call)
			return isCall
		}
		for _, b := range fn.Blocks {
			for _, ins := range b.Instrs {
				// a helper that stores a newly built machine on every path
				if cc := callOf(ins); cc != nil && cc.StaticCallee() != nil && performs(ins, storesMachine, 2) {
					all := true
					for _, u := range uses {
						if !dominatesInstr(ins, u) {
							all = false
						}
					}
					if all {
						builds = true
					}
				}
				if st, ok := ins.(*ssa.Store); ok && fieldKey(st.Addr) == "evalfilter.Eval.machine" {
					all := true
					for _, u := range uses {
						if !dominatesInstr(st, u) {
							all = false
						}
					}
					if all {
						builds = true
					}
				}
			}
		}
		if recovers {
			r.Ok(key, p.Pos(fn.Pos()), "runs under its own recover: a missing machine becomes an error")
			continue
		}
		if builds {
			r.Ok(key, p.Pos(fn.Pos()), "builds the machine before using it")
			continue
		}
		guarded := true
		for _, u := range uses {
			g := false
			for d := u.Block(); d.Idom() != nil; d = d.Idom() {
				iff, ok := terminator(d.Idom()).(*ssa.If)
				if !ok {
					continue
				}
				bo, ok := iff.Cond.(*ssa.BinOp)
				if !ok || !(isNilConst(bo.X) || isNilConst(bo.Y)) {
					continue
				}
				other := bo.X
				if isNilConst(bo.X) {
					other = bo.Y
				}
				if ld, ok := other.(*ssa.UnOp); !ok || fieldKey(ld.X) != "evalfilter.Eval.machine" {
					continue
				}
				nonNil := d.Idom().Succs[1]
				if bo.Op == token.NEQ {
					nonNil = d.Idom().Succs[0]
				}
				if nonNil == d {
					g = true
				}
			}
			if !g {
				guarded = false
			}
		}
		r.Check(guarded, key, p.Pos(fn.Pos()), "guarded by a nil test", "this API method dereferences the machine without a recover and without testing that Prepare built one: after a script that Prepare rejected the call panics in the host (nil pointer dereference)")
	}
	// the clean-up that runs while a panic unwinds is not under anybody's
	// recover: in a deferred function of an API method the machine may only be
	// touched where it has been tested
	for _, fn := range p.LibFns {
		if fn.Parent() == nil || !recvNamed(fn.Parent(), "", "Eval") || !ast.IsExported(fn.Parent().Name()) {
			continue
		}
		// deferred by its parent?
		deferred := false
		for _, b := range fn.Parent().Blocks {
			for _, ins := range b.Instrs {
				if d, ok := ins.(*ssa.Defer); ok {
					if mc, ok := d.Call.Value.(*ssa.MakeClosure); ok && mc.Fn == ssa.Value(fn) {
						deferred = true
					}
				}
			}
		}
		if !deferred {
			continue
		}
		nth := 0
		for _, b := range fn.Blocks {
			for _, ins := range b.Instrs {
				cc := callOf(ins)
				if cc == nil || len(cc.Args) == 0 {
					continue
				}
				u, ok := cc.Args[0].(*ssa.UnOp)
				if !ok || fieldKey(u.X) != "evalfilter.Eval.machine" {
					continue
				}
				nth++
				key := fmt.Sprintf("%s: deferred clean-up, use %d of the machine is under a nil test", p.FnName(fn.Parent()), nth)
				g := false
				for d := b; d.Idom() != nil; d = d.Idom() {
					iff, ok := terminator(d.Idom()).(*ssa.If)
					if !ok {
						continue
					}
					bo, ok := iff.Cond.(*ssa.BinOp)
					if !ok || !(isNilConst(bo.X) || isNilConst(bo.Y)) {
						continue
					}
					other := bo.X
					if isNilConst(bo.X) {
						other = bo.Y
					}
					if ld, ok := other.(*ssa.UnOp); !ok || fieldKey(ld.X) != "evalfilter.Eval.machine" {
						continue
					}
					nonNil := d.Idom().Succs[1]
					if bo.Op == token.NEQ {
						nonNil = d.Idom().Succs[0]
					}
					if nonNil == d {
						g = true
					}
				}
				// a method that tests its own receiver first is safe to call
				if cal := cc.StaticCallee(); cal != nil && len(cal.Blocks) > 0 && len(cal.Params) > 0 {
					if iff, ok := terminator(cal.Blocks[0]).(*ssa.If); ok {
						if bo, ok := iff.Cond.(*ssa.BinOp); ok && (bo.Op == token.EQL || bo.Op == token.NEQ) {
							if (bo.X == ssa.Value(cal.Params[0]) && isNilConst(bo.Y)) || (bo.Y == ssa.Value(cal.Params[0]) && isNilConst(bo.X)) {
								derefFirst := false
								for _, in := range cal.Blocks[0].Instrs {
									if fa, ok := in.(*ssa.FieldAddr); ok && fa.X == ssa.Value(cal.Params[0]) {
										derefFirst = true
									}
								}
								if !derefFirst {
									g = true
								}
							}
						}
					}
				}
				r.Check(g, key, p.Pos(ins.Pos()), "guarded by a nil test", "the deferred clean-up of this API method calls a method of the machine without testing that there is one: when the evaluator has no machine (Prepare was not called, or rejected the script) the run panics, and the clean-up — which runs outside any recover — panics again, so the panic reaches the host and the evaluator's lock stays held")
			}
		}
	}
}

// cursorStep: h is a method on a pointer to an integer cursor that takes the
// number of members and returns (index, ok): when the cursor is below that
// number it moves the cursor on by one and hands back its old value with
// true; otherwise it leaves the cursor alone and answers false.
func cursorStep(h *ssa.Function) bool {
	if h == nil || len(h.Params) != 2 || h.Signature.Results().Len() != 2 || !isBoolType(h.Signature.Results().At(1).Type()) {
		return false
	}
	c, size := ssa.Value(h.Params[0]), ssa.Value(h.Params[1])
	pt, ok := c.Type().Underlying().(*types.Pointer)
	if !ok {
		return false
	}
	if b, ok := pt.Elem().Underlying().(*types.Basic); !ok || b.Info()&types.IsInteger == 0 {
		return false
	}
	isLoad := func(v ssa.Value) bool {
		v = stripConvSSA(v)
		ld, ok := v.(*ssa.UnOp)
		return ok && ld.Op == token.MUL && ld.X == c
	}
	var stores []*ssa.Store
	for _, b := range h.Blocks {
		for _, ins := range b.Instrs {
			if st, ok := ins.(*ssa.Store); ok && st.Addr == c {
				stores = append(stores, st)
			}
		}
	}
	if len(stores) != 1 {
		return false
	}
	base, k := linear(stripConvSSA(stores[0].Val))
	if !isLoad(base) || k != 1 {
		return false
	}
	sawTrue, sawFalse := false, false
	for _, b := range h.Blocks {
		ret, ok := terminator(b).(*ssa.Return)
		if !ok {
			continue
		}
		okc, isC := returnOperand(ret, 1).(*ssa.Const)
		if !isC || okc.Value == nil || okc.Value.Kind() != constant.Bool {
			return false
		}
		stored := stores[0].Block() == b || stores[0].Block().Dominates(b)
		if constant.BoolVal(okc.Value) {
			sawTrue = true
			// behind cursor < size, after the step, with the old value
			guarded := false
			for d := b; d.Idom() != nil; d = d.Idom() {
				id := d.Idom()
				iff, ok := terminator(id).(*ssa.If)
				if !ok || len(d.Preds) != 1 {
					continue
				}
				bo, ok := iff.Cond.(*ssa.BinOp)
				if !ok {
					continue
				}
				switch {
				case isLoad(bo.X) && bo.Y == size && bo.Op == token.LSS && id.Succs[0] == d,
					isLoad(bo.X) && bo.Y == size && bo.Op == token.GEQ && id.Succs[1] == d,
					isLoad(bo.Y) && bo.X == size && bo.Op == token.GTR && id.Succs[0] == d,
					isLoad(bo.Y) && bo.X == size && bo.Op == token.LEQ && id.Succs[1] == d:
					guarded = true
				}
			}
			idx := stripConvSSA(returnOperand(ret, 0))
			ib, ik := linear(idx)
			old := false
			if isLoad(ib) {
				if ld, ok := stripConvSSA(ib).(*ssa.UnOp); ok {
					before := !dominatesInstr(stores[0], ld)
					old = (before && ik == 0) || (!before && ik == -1)
				}
			}
			if !guarded || !stored || !old {
				return false
			}
		} else {
			sawFalse = true
			if stored {
				return false
			}
		}
	}
	return sawTrue && sawFalse
}

// iterNextViaCursor: the iteration step asks such a cursor method with the
// length of the container, yields the member at the index it was given when
// the answer is true and reports exhaustion when it is false.
func iterNextViaCursor(fn *ssa.Function) (ok bool, why string, decided bool) {
	var call *ssa.Call
	for _, b := range fn.Blocks {
		for _, ins := range b.Instrs {
			c, isC := ins.(*ssa.Call)
			if !isC || !cursorStep(c.Call.StaticCallee()) {
				continue
			}
			if fa, isFA := c.Call.Args[0].(*ssa.FieldAddr); isFA && fa.X == ssa.Value(fn.Params[0]) {
				call = c
			}
		}
	}
	if call == nil {
		return false, "", false
	}
	lengthLike := false
	for _, o := range origins(call.Call.Args[1]) {
		if _, isLen := isBuiltinCall(o, "len"); isLen {
			lengthLike = true
		}
		if c, isC := o.(*ssa.Call); isC && c.Call.StaticCallee() != nil && strings.Contains(c.Call.StaticCallee().Name(), "RuneCount") {
			lengthLike = true
		}
	}
	if !lengthLike {
		return false, "the cursor is not compared with the length of the container", true
	}
	var idx, flag *ssa.Extract
	for _, ref := range *call.Referrers() {
		if ex, isEx := ref.(*ssa.Extract); isEx {
			if ex.Index == 0 {
				idx = ex
			} else {
				flag = ex
			}
		}
	}
	if idx == nil || flag == nil {
		return false, "the answer of the cursor's step is not used", true
	}
	var yes, no *ssa.BasicBlock
	for _, ref := range *flag.Referrers() {
		if iff, isIf := ref.(*ssa.If); isIf {
			yes, no = iff.Block().Succs[0], iff.Block().Succs[1]
		}
	}
	if yes == nil {
		return false, "the step does not branch on the cursor's answer", true
	}
	for _, b := range fn.Blocks {
		ret, isRet := terminator(b).(*ssa.Return)
		if !isRet || len(ret.Results) != 3 {
			continue
		}
		c, isC := ret.Results[2].(*ssa.Const)
		if !isC || c.Value == nil || c.Value.Kind() != constant.Bool {
			return false, "the step's third result is not a constant", true
		}
		onYes := yes == b || yes.Dominates(b)
		onNo := no == b || no.Dominates(b)
		if constant.BoolVal(c.Value) && !onYes {
			return false, "the step is not guarded by cursor < length: the last element is skipped or the step runs past the end", true
		}
		if !constant.BoolVal(c.Value) && !onNo {
			return false, "past the end the step does not report exhaustion (false)", true
		}
	}
	// the member yielded is the one at the index handed back
	indexed := false
	for _, b := range fn.Blocks {
		for _, ins := range b.Instrs {
			if ia, isIA := ins.(*ssa.IndexAddr); isIA {
				base, k := linear(ia.Index)
				if base == ssa.Value(idx) {
					if k != 0 {
						return false, "the element yielded is not the one at the cursor's position before the step", true
					}
					indexed = true
				}
			}
		}
	}
	if !indexed {
		return false, "the element yielded is not the one at the cursor's position before the step", true
	}
	return true, "the step asks the cursor's own method with the container's length (cursor < length, moved on by one, old position handed back — checked there), yields the member at that position on true and reports exhaustion on false", true
}
