package main

// Loading of the repository under analysis: type-checked syntax for every
// package of the module, SSA for the whole program, and (lazily) the VTA call
// graph.  Every check starts here and reads /repo's *current working tree*.

import (
	"fmt"
	"go/ast"
	"go/token"
	"go/types"
	"os"
	"path/filepath"
	"sort"
	"strings"

	"golang.org/x/tools/go/callgraph"
	"golang.org/x/tools/go/callgraph/cha"
	"golang.org/x/tools/go/callgraph/vta"
	"golang.org/x/tools/go/packages"
	"golang.org/x/tools/go/ssa"
	"golang.org/x/tools/go/ssa/ssautil"
)

// Mod is the module path of the code under analysis.
const Mod = "github.com/skx/evalfilter/v2"

// The ten library packages the properties speak about (everything in the
// module except cmd/...).
var libPkgs = []string{
	Mod, Mod + "/ast", Mod + "/code", Mod + "/environment", Mod + "/lexer",
	Mod + "/object", Mod + "/parser", Mod + "/stack", Mod + "/token", Mod + "/vm",
}

const cmdPkg = Mod + "/cmd/evalfilter"

// Config is one build configuration.
type Config struct {
	GOOS, GOARCH string
	Tags         string
}

func (c Config) String() string {
	s := c.GOOS + "/" + c.GOARCH
	if c.Tags != "" {
		s += " tags=" + c.Tags
	}
	return s
}

// Program is the loaded repository.
type Program struct {
	Root   string
	Cfg    Config
	Fset   *token.FileSet
	Pkgs   []*packages.Package          // module packages only
	ByPath map[string]*packages.Package // module packages by import path
	SSA    *ssa.Program
	SSAPkg map[string]*ssa.Package

	// Fns holds every source-level function of the module (methods and
	// anonymous functions included), sorted by name.
	Fns    []*ssa.Function
	LibFns []*ssa.Function // Fns minus cmd/...

	homes  map[*ssa.Function]homeSite // single call sites (helpers.go)
	byName map[string]*ssa.Function

	cg *callgraph.Graph
}

// Load loads root with the given configuration.  Any load or type error is
// returned: a check must fail rather than analyse half a program.
func Load(root string, c Config) (*Program, error) {
	env := os.Environ()
	env = append(env, "GOFLAGS=-mod=mod", "GOPROXY=off", "GOSUMDB=off", "GOTOOLCHAIN=local", "GOWORK=off", "CGO_ENABLED=0")
	if c.GOOS != "" {
		env = append(env, "GOOS="+c.GOOS, "GOARCH="+c.GOARCH)
	}
	cfg := &packages.Config{
		Mode:  packages.LoadAllSyntax,
		Dir:   root,
		Tests: false,
		Env:   env,
	}
	if c.Tags != "" {
		cfg.BuildFlags = []string{"-tags=" + c.Tags}
	}
	pkgs, err := packages.Load(cfg, "./...")
	if err != nil {
		return nil, fmt.Errorf("packages.Load: %v", err)
	}
	if len(pkgs) == 0 {
		return nil, fmt.Errorf("no packages matched ./... in %s", root)
	}
	p := &Program{Root: root, Cfg: c, ByPath: map[string]*packages.Package{}, SSAPkg: map[string]*ssa.Package{}, byName: map[string]*ssa.Function{}}
	var errs []string
	packages.Visit(pkgs, nil, func(pk *packages.Package) {
		for _, e := range pk.Errors {
			errs = append(errs, e.Error())
		}
	})
	if len(errs) > 0 {
		sort.Strings(errs)
		if len(errs) > 8 {
			errs = errs[:8]
		}
		return nil, fmt.Errorf("load/type errors: %s", strings.Join(errs, "; "))
	}
	for _, pk := range pkgs {
		if pk.PkgPath == Mod || strings.HasPrefix(pk.PkgPath, Mod+"/") {
			p.Pkgs = append(p.Pkgs, pk)
			p.ByPath[pk.PkgPath] = pk
			p.Fset = pk.Fset
		}
	}
	sort.Slice(p.Pkgs, func(i, j int) bool { return p.Pkgs[i].PkgPath < p.Pkgs[j].PkgPath })
	for _, want := range libPkgs {
		if p.ByPath[want] == nil {
			return nil, fmt.Errorf("library package %s did not resolve", want)
		}
	}
	// js/wasm builds exclude nothing of cmd/evalfilter today, but do not insist
	// on it for foreign configurations.
	if p.ByPath[cmdPkg] == nil && c.GOOS == "" {
		return nil, fmt.Errorf("package %s did not resolve", cmdPkg)
	}

	prog, spkgs := ssautil.AllPackages(pkgs, ssa.InstantiateGenerics)
	prog.Build()
	p.SSA = prog
	for i, pk := range pkgs {
		if spkgs[i] != nil {
			p.SSAPkg[pk.PkgPath] = spkgs[i]
		}
	}
	for fn := range ssautil.AllFunctions(prog) {
		if fn.Synthetic != "" || fn.Blocks == nil {
			continue
		}
		pk := fnPkg(fn)
		if pk == nil {
			continue
		}
		path := pk.Pkg.Path()
		if path == Mod || strings.HasPrefix(path, Mod+"/") {
			p.Fns = append(p.Fns, fn)
		}
	}
	sort.Slice(p.Fns, func(i, j int) bool {
		a, b := p.FnName(p.Fns[i]), p.FnName(p.Fns[j])
		if a != b {
			return a < b
		}
		return p.Fns[i].Pos() < p.Fns[j].Pos()
	})
	for _, fn := range p.Fns {
		if !strings.HasPrefix(fnPkg(fn).Pkg.Path(), Mod+"/cmd") {
			p.LibFns = append(p.LibFns, fn)
		}
	}
	p.resolveRoles()
	for _, fn := range p.Fns {
		p.byName[p.FnName(fn)] = fn
	}
	curProgram = p
	return p, nil
}

func fnPkg(fn *ssa.Function) *ssa.Package {
	for fn.Parent() != nil {
		fn = fn.Parent()
	}
	return fn.Pkg
}

// IsLibPath reports whether path is one of the library packages.
func IsLibPath(path string) bool {
	return (path == Mod || strings.HasPrefix(path, Mod+"/")) && !strings.HasPrefix(path, Mod+"/cmd")
}

func shortPkg(path string) string {
	if path == Mod {
		return "evalfilter"
	}
	return strings.TrimPrefix(path, Mod+"/")
}

// FnName gives a stable, line-free name: pkg.(*Recv).Name or pkg.Name, with
// $n suffixes for anonymous functions.
func (p *Program) FnName(fn *ssa.Function) string {
	return canonName(p.rawFnName(fn))
}

// rawFnName is FnName before role aliasing.
func (p *Program) rawFnName(fn *ssa.Function) string {
	pk := fnPkg(fn)
	pre := ""
	if pk != nil {
		pre = shortPkg(pk.Pkg.Path()) + "."
	}
	name := fn.Name()
	if fn.Parent() != nil {
		// anonymous: Parent$1 ; build from the root
		chain := []string{fn.Name()}
		par := fn.Parent()
		for par.Parent() != nil {
			par = par.Parent()
		}
		_ = chain
		name = fn.Name()
		if recv := par.Signature.Recv(); recv != nil {
			return pre + "(" + types.TypeString(recv.Type(), func(*types.Package) string { return "" }) + ")." + name
		}
		return pre + name
	}
	if recv := fn.Signature.Recv(); recv != nil {
		return pre + "(" + types.TypeString(recv.Type(), func(*types.Package) string { return "" }) + ")." + name
	}
	return pre + name
}

// Fn looks a function up by its FnName; nil when absent.
func (p *Program) Fn(name string) *ssa.Function { return p.byName[name] }

// Pos renders a position relative to the repository root.
func (p *Program) Pos(pos token.Pos) string {
	if !pos.IsValid() {
		return "-"
	}
	q := p.Fset.Position(pos)
	rel, err := filepath.Rel(p.Root, q.Filename)
	if err != nil {
		rel = q.Filename
	}
	return fmt.Sprintf("%s:%d", rel, q.Line)
}

// CallGraph returns the VTA call graph seeded with CHA (the most precise graph
// x/tools v0.29.0 offers; there is no pointer analysis in that release).
func (p *Program) CallGraph() *callgraph.Graph {
	if p.cg == nil {
		p.cg = vta.CallGraph(ssautil.AllFunctions(p.SSA), cha.CallGraph(p.SSA))
	}
	return p.cg
}

// Reachable returns the module functions reachable from the given roots in
// the call graph (roots included).
func (p *Program) Reachable(roots ...*ssa.Function) map[*ssa.Function]bool {
	cg := p.CallGraph()
	seen := map[*ssa.Function]bool{}
	var work []*ssa.Function
	for _, r := range roots {
		if r != nil && !seen[r] {
			seen[r] = true
			work = append(work, r)
		}
	}
	for len(work) > 0 {
		f := work[len(work)-1]
		work = work[:len(work)-1]
		n := cg.Nodes[f]
		if n == nil {
			continue
		}
		for _, e := range n.Out {
			c := e.Callee.Func
			if !seen[c] {
				seen[c] = true
				work = append(work, c)
			}
		}
		// anonymous functions created by f are treated as reachable too (they
		// may be invoked through stdlib code whose edges VTA resolves, but
		// belt and braces costs nothing).
		for _, a := range f.AnonFuncs {
			if !seen[a] {
				seen[a] = true
				work = append(work, a)
			}
		}
	}
	return seen
}

// FuncDecl returns the syntax of a source function (nil for anonymous ones).
func (p *Program) FuncDecl(fn *ssa.Function) *ast.FuncDecl {
	if d, ok := fn.Syntax().(*ast.FuncDecl); ok {
		return d
	}
	return nil
}

// Info returns the types.Info of the package that declares fn.
func (p *Program) Info(fn *ssa.Function) *types.Info {
	pk := fnPkg(fn)
	if pk == nil {
		return nil
	}
	if pp := p.ByPath[pk.Pkg.Path()]; pp != nil {
		return pp.TypesInfo
	}
	return nil
}

// LibFiles lists every *.go file (tests excluded) under the library
// directories, whether or not the typed load included it.
func LibFiles(root string) (all []string, err error) {
	err = filepath.Walk(root, func(path string, fi os.FileInfo, err error) error {
		if err != nil {
			return err
		}
		rel, _ := filepath.Rel(root, path)
		if fi.IsDir() {
			base := fi.Name()
			if rel != "." && (strings.HasPrefix(base, ".") || strings.HasPrefix(base, "_") || base == "testdata" || base == "vendor") {
				return filepath.SkipDir
			}
			if rel == "cmd" || rel == "misc" {
				return filepath.SkipDir
			}
			return nil
		}
		all = append(all, rel)
		return nil
	})
	sort.Strings(all)
	return
}

// curProgram: the program loaded last (for evaluators that read package-level
// tables through their syntax).
var curProgram *Program
