package main

// Thorough tier: the same rules under foreign build configurations, and the
// positive controls (checker self-tests on one-construct breakages of a scratch
// copy of the current tree).

import (
	"bytes"
	"encoding/json"
	"fmt"
	"io"
	"os"
	"os/exec"
	"path/filepath"
	"sort"
	"strings"
	"sync"
)

var foreignConfigs = []string{
	"linux/386", "windows/amd64", "darwin/arm64", "js/wasm",
	"linux/amd64/verif",
}

func selfExe() string {
	exe, err := os.Executable()
	if err != nil {
		return os.Args[0]
	}
	return exe
}

func runSub(repo string, rules []string, cfg string) (*subResult, error) {
	args := []string{"-json", "-repo", repo, "-rules", strings.Join(rules, ",")}
	if cfg != "" {
		args = append(args, "-config", cfg)
	}
	cmd := exec.Command(selfExe(), args...)
	var out, errb bytes.Buffer
	cmd.Stdout, cmd.Stderr = &out, &errb
	if err := cmd.Run(); err != nil {
		return nil, fmt.Errorf("sub-process failed: %v: %s", err, lastLines(errb.String(), 5))
	}
	var res subResult
	if err := json.Unmarshal(out.Bytes(), &res); err != nil {
		return nil, fmt.Errorf("sub-process output unparsable: %v", err)
	}
	return &res, nil
}

// thoroughConfigs re-runs the property's rules under every foreign
// configuration, one process each, at most four at a time.
func thoroughConfigs(pr *Property, repo string) ([]Obligation, []string) {
	type res struct {
		cfg string
		r   *subResult
		err error
	}
	results := make([]res, len(foreignConfigs))
	sem := make(chan struct{}, 4)
	var wg sync.WaitGroup
	for i, c := range foreignConfigs {
		wg.Add(1)
		go func(i int, c string) {
			defer wg.Done()
			sem <- struct{}{}
			defer func() { <-sem }()
			r, err := runSub(repo, pr.Rules, c)
			results[i] = res{c, r, err}
		}(i, c)
	}
	wg.Wait()
	var obls []Obligation
	var cfgs []string
	for _, r := range results {
		switch {
		case r.err != nil:
			obls = append(obls, Obligation{Rule: "LOAD", Key: "config " + r.cfg, Pos: "-", Verdict: Undecided, Detail: r.err.Error()})
		case r.r.LoadError != "":
			obls = append(obls, Obligation{Rule: "LOAD", Key: "config " + r.cfg, Pos: "-", Verdict: Undecided, Detail: r.r.LoadError})
		default:
			cfgs = append(cfgs, r.cfg)
			for _, o := range r.r.Obligations {
				// Same construct, other configuration: keep the key (so a known
				// finding still matches) and tag the position.
				o.Pos = o.Pos + " [" + r.cfg + "]"
				if o.Verdict == Info {
					continue
				}
				obls = append(obls, o)
			}
		}
	}
	return obls, cfgs
}

// ---------------------------------------------------------------------------
// Positive controls

// Mutant is one catalogued one-construct breakage.
type Mutant struct {
	Name   string `json:"name"`
	Rule   string `json:"rule"`
	File   string `json:"file"`
	Old    string `json:"old"`
	New    string `json:"new"`
	Expect string `json:"expect_key_contains"`
	Why    string `json:"why"`
	// Patch, when set, is a unified diff (path relative to the verification
	// directory) applied to the scratch copy instead of the File/Old/New edit:
	// the kept seeded changes serve as controls this way.
	Patch string `json:"patch,omitempty"`
	// Base, when set, is a behaviour-preserving refactoring (a unified diff
	// under the verification directory) applied to the scratch copy before the
	// File/Old/New edit: the breakage is made in the refactored shape of the
	// code, to show that a rule which follows the refactoring still sees it.
	Base string `json:"base,omitempty"`
	// Config, when set, is the build configuration (GOOS/GOARCH) under which
	// the rule is run on the variant and on the baseline: a breakage that only
	// exists where int has 32 bits is only visible there.
	Config string `json:"config,omitempty"`
}

type controlResult struct {
	Name   string `json:"name"`
	Rule   string `json:"rule"`
	Status string `json:"status"` // fired | did-not-fire | control-skipped | does-not-build
	Detail string `json:"detail,omitempty"`
}

func loadMutants(verif string) ([]Mutant, error) {
	files, _ := filepath.Glob(filepath.Join(verif, "mutants", "*.json"))
	sort.Strings(files)
	var out []Mutant
	for _, f := range files {
		b, err := os.ReadFile(f)
		if err != nil {
			return nil, err
		}
		var ms []Mutant
		if err := json.Unmarshal(b, &ms); err != nil {
			return nil, fmt.Errorf("%s: %v", f, err)
		}
		out = append(out, ms...)
	}
	return out, nil
}

func copyTree(src, dst string) error {
	return filepath.Walk(src, func(path string, fi os.FileInfo, err error) error {
		if err != nil {
			return err
		}
		rel, _ := filepath.Rel(src, path)
		if fi.IsDir() {
			if fi.Name() == ".git" {
				return filepath.SkipDir
			}
			return os.MkdirAll(filepath.Join(dst, rel), 0o755)
		}
		if !fi.Mode().IsRegular() {
			return nil
		}
		in, err := os.Open(path)
		if err != nil {
			return err
		}
		defer in.Close()
		out, err := os.Create(filepath.Join(dst, rel))
		if err != nil {
			return err
		}
		defer out.Close()
		_, err = io.Copy(out, in)
		return err
	})
}

func goEnv() []string {
	return append(os.Environ(), "GOFLAGS=-mod=mod", "GOPROXY=off", "GOSUMDB=off", "GOTOOLCHAIN=local", "GOWORK=off")
}

// runControls applies each mutant of the property's rules to a scratch copy
// of the current tree and demands that the rule reports it.
func runControls(pr *Property, repo, verif string) ([]controlResult, []Obligation) {
	muts, err := loadMutants(verif)
	if err != nil {
		return nil, []Obligation{{Rule: "CONTROL", Key: "mutants", Pos: "-", Verdict: Undecided, Detail: err.Error()}}
	}
	inProp := map[string]bool{}
	for _, r := range pr.Rules {
		inProp[r] = true
	}
	var sel []Mutant
	for _, m := range muts {
		if inProp[m.Rule] {
			sel = append(sel, m)
		}
	}
	results := make([]controlResult, len(sel))
	sem := make(chan struct{}, 4)
	var wg sync.WaitGroup
	for i, m := range sel {
		wg.Add(1)
		go func(i int, m Mutant) {
			defer wg.Done()
			sem <- struct{}{}
			defer func() { <-sem }()
			results[i] = runControl(m, repo, verif)
		}(i, m)
	}
	wg.Wait()
	var obls []Obligation
	for _, c := range results {
		switch c.Status {
		case "fired", "control-skipped":
		default:
			obls = append(obls, Obligation{Rule: c.Rule, Key: "control " + c.Name, Pos: "-", Verdict: Undecided, Detail: "positive control " + c.Status + ": " + c.Detail})
		}
	}
	return results, obls
}

var (
	baselineMu    sync.Mutex
	baselineCache = map[string]map[string]bool{}
	baselineErr   = map[string]error{}
)

func baselineFailures(repo, rule string, cfg ...string) (map[string]bool, error) {
	baselineMu.Lock()
	defer baselineMu.Unlock()
	c := ""
	if len(cfg) > 0 {
		c = cfg[0]
	}
	ruleKey := rule
	if c != "" {
		ruleKey = rule + "@" + c
	}
	if b, ok := baselineCache[ruleKey]; ok {
		return b, baselineErr[ruleKey]
	}
	base, err := runSub(repo, []string{rule}, c)
	out := map[string]bool{}
	if err == nil && base.LoadError != "" {
		err = fmt.Errorf("%s", base.LoadError)
	}
	if err == nil {
		for _, o := range base.Obligations {
			if o.Verdict == Fail || o.Verdict == Undecided {
				out[o.Key] = true
			}
		}
	}
	baselineCache[ruleKey], baselineErr[ruleKey] = out, err
	return out, err
}

func runControl(m Mutant, repo, verif string) controlResult {
	res := controlResult{Name: m.Name, Rule: m.Rule}
	if m.Patch != "" {
		return runPatchControl(m, repo, verif)
	}
	if m.Base != "" {
		return runBasedControl(m, repo, verif)
	}
	src, err := os.ReadFile(filepath.Join(repo, m.File))
	newFile := m.Old == ""
	if newFile {
		if err == nil {
			res.Status = "control-skipped"
			res.Detail = "file " + m.File + " already exists"
			return res
		}
		src = nil
	} else if err != nil || strings.Count(string(src), m.Old) != 1 {
		res.Status = "control-skipped"
		res.Detail = "anchor text not present exactly once in " + m.File + " (the code moved on)"
		return res
	}
	// baseline failures of this rule on the unmodified tree (computed once per rule)
	baseFail, err := baselineFailures(repo, m.Rule, m.Config)
	if err != nil {
		res.Status = "did-not-fire"
		res.Detail = fmt.Sprintf("baseline run failed: %v", err)
		return res
	}
	dir, err := os.MkdirTemp("", "evcheck-control-")
	if err != nil {
		res.Status = "did-not-fire"
		res.Detail = err.Error()
		return res
	}
	defer os.RemoveAll(dir)
	if err := copyTree(repo, dir); err != nil {
		res.Status = "did-not-fire"
		res.Detail = err.Error()
		return res
	}
	mutated := strings.Replace(string(src), m.Old, m.New, 1)
	if newFile {
		mutated = m.New
	}
	if err := os.WriteFile(filepath.Join(dir, m.File), []byte(mutated), 0o644); err != nil {
		res.Status = "did-not-fire"
		res.Detail = err.Error()
		return res
	}
	// (whether the variant compiles is seen when it is loaded and type-checked
	// for the analysis: no object code is built, so nothing is left in the build
	// cache)
	got, err := runSub(dir, []string{m.Rule}, m.Config)
	if err == nil && got.LoadError != "" {
		res.Status = "does-not-build"
		res.Detail = lastLines(got.LoadError, 3)
		return res
	}
	if err != nil || got.LoadError != "" {
		res.Status = "did-not-fire"
		res.Detail = fmt.Sprintf("run on variant failed: %v %s", err, got.LoadError)
		return res
	}
	for _, o := range got.Obligations {
		if (o.Verdict == Fail || o.Verdict == Undecided) && !baseFail[o.Key] && strings.Contains(o.Key, m.Expect) {
			res.Status = "fired"
			res.Detail = o.Key
			return res
		}
	}
	res.Status = "did-not-fire"
	res.Detail = "variant compiled but the rule reported no new failing obligation whose key contains " + m.Expect
	return res
}

// runBasedControl: refactor (Base), then break (File/Old/New), then demand the report.
func runBasedControl(m Mutant, repo, verif string) controlResult {
	res := controlResult{Name: m.Name, Rule: m.Rule}
	base, _ := filepath.Abs(filepath.Join(verif, m.Base))
	if _, err := os.Stat(base); err != nil {
		res.Status, res.Detail = "did-not-fire", "base patch missing: "+m.Base
		return res
	}
	baseFail, err := baselineFailures(repo, m.Rule, m.Config)
	if err != nil {
		res.Status, res.Detail = "did-not-fire", fmt.Sprintf("baseline run failed: %v", err)
		return res
	}
	dir, err := os.MkdirTemp("", "evcheck-control-")
	if err != nil {
		res.Status, res.Detail = "did-not-fire", err.Error()
		return res
	}
	defer os.RemoveAll(dir)
	if err := copyTree(repo, dir); err != nil {
		res.Status, res.Detail = "did-not-fire", err.Error()
		return res
	}
	ap := exec.Command("git", "apply", "--whitespace=nowarn", base)
	ap.Dir = dir
	ap.Env = append(os.Environ(), "GIT_CEILING_DIRECTORIES="+filepath.Dir(dir))
	if out, err := ap.CombinedOutput(); err != nil {
		res.Status = "control-skipped"
		res.Detail = "the refactoring no longer applies (the code moved on): " + lastLines(string(out), 2)
		return res
	}
	src, err := os.ReadFile(filepath.Join(dir, m.File))
	if err != nil || strings.Count(string(src), m.Old) != 1 {
		res.Status = "control-skipped"
		res.Detail = "anchor text not present exactly once in the refactored " + m.File
		return res
	}
	if err := os.WriteFile(filepath.Join(dir, m.File), []byte(strings.Replace(string(src), m.Old, m.New, 1)), 0o644); err != nil {
		res.Status, res.Detail = "did-not-fire", err.Error()
		return res
	}
	// (whether the variant compiles is seen when it is loaded and type-checked
	// for the analysis: no object code is built, so nothing is left in the build
	// cache)
	got, err := runSub(dir, []string{m.Rule}, m.Config)
	if err == nil && got.LoadError != "" {
		res.Status, res.Detail = "does-not-build", lastLines(got.LoadError, 3)
		return res
	}
	if err != nil {
		res.Status, res.Detail = "did-not-fire", fmt.Sprintf("run on variant failed: %v %s", err, got.LoadError)
		return res
	}
	for _, o := range got.Obligations {
		if (o.Verdict == Fail || o.Verdict == Undecided) && !baseFail[o.Key] && strings.Contains(o.Key, m.Expect) {
			res.Status, res.Detail = "fired", o.Key
			return res
		}
	}
	res.Status = "did-not-fire"
	res.Detail = "refactored and broken variant compiled but the rule reported no new failing obligation whose key contains " + m.Expect
	return res
}

// runPatchControl applies a kept seeded change to a scratch copy of the tree;
// the rule must report a new failing obligation whose key contains Expect.
func runPatchControl(m Mutant, repo, verif string) controlResult {
	res := controlResult{Name: m.Name, Rule: m.Rule}
	patch, err := filepath.Abs(filepath.Join(verif, m.Patch))
	if err != nil {
		res.Status, res.Detail = "did-not-fire", err.Error()
		return res
	}
	if _, err := os.Stat(patch); err != nil {
		res.Status, res.Detail = "did-not-fire", "patch file missing: "+m.Patch
		return res
	}
	baseFail, err := baselineFailures(repo, m.Rule, m.Config)
	if err != nil {
		res.Status, res.Detail = "did-not-fire", fmt.Sprintf("baseline run failed: %v", err)
		return res
	}
	dir, err := os.MkdirTemp("", "evcheck-control-")
	if err != nil {
		res.Status, res.Detail = "did-not-fire", err.Error()
		return res
	}
	defer os.RemoveAll(dir)
	if err := copyTree(repo, dir); err != nil {
		res.Status, res.Detail = "did-not-fire", err.Error()
		return res
	}
	ap := exec.Command("git", "apply", "--whitespace=nowarn", patch)
	ap.Dir = dir
	ap.Env = append(os.Environ(), "GIT_CEILING_DIRECTORIES="+filepath.Dir(dir))
	if out, err := ap.CombinedOutput(); err != nil {
		res.Status = "control-skipped"
		res.Detail = "the seeded change no longer applies (the code moved on): " + lastLines(string(out), 2)
		return res
	}
	// (whether the variant compiles is seen when it is loaded and type-checked
	// for the analysis: no object code is built, so nothing is left in the build
	// cache)
	got, err := runSub(dir, []string{m.Rule}, m.Config)
	if err == nil && got.LoadError != "" {
		res.Status, res.Detail = "does-not-build", lastLines(got.LoadError, 3)
		return res
	}
	if err != nil {
		res.Status, res.Detail = "did-not-fire", fmt.Sprintf("run on variant failed: %v %s", err, got.LoadError)
		return res
	}
	for _, o := range got.Obligations {
		if (o.Verdict == Fail || o.Verdict == Undecided) && !baseFail[o.Key] && strings.Contains(o.Key, m.Expect) {
			res.Status, res.Detail = "fired", o.Key
			return res
		}
	}
	res.Status = "did-not-fire"
	res.Detail = "the seeded change compiled but the rule reported no new failing obligation whose key contains " + m.Expect
	return res
}

// ---------------------------------------------------------------------------
// Negative controls: behaviour-preserving refactorings (/verif/benign) on which
// the property's rules must report nothing they do not report on the tree as
// it is.  A report there is a defect of the checker, not of the repository: it
// is recorded in the evidence and printed, and does not decide the property.

type negativeResult struct {
	Name   string   `json:"name"`
	Status string   `json:"status"` // silent | alarm | skipped
	Alarms []string `json:"alarms,omitempty"`
	Detail string   `json:"detail,omitempty"`
}

func runNegativeControls(pr *Property, repo, verif string) []negativeResult {
	dirs, _ := filepath.Glob(filepath.Join(verif, "benign", "*", "patch.diff"))
	if len(dirs) == 0 {
		return nil
	}
	sort.Strings(dirs)
	base, err := runSub(repo, pr.Rules, "")
	baseFail := map[string]bool{}
	if err == nil && base.LoadError == "" {
		for _, o := range base.Obligations {
			if o.Verdict == Fail || o.Verdict == Undecided {
				baseFail[o.Rule+"|"+o.Key] = true
			}
		}
	}
	results := make([]negativeResult, len(dirs))
	sem := make(chan struct{}, 6)
	var wg sync.WaitGroup
	for i, patch := range dirs {
		wg.Add(1)
		go func(i int, patch string) {
			defer wg.Done()
			sem <- struct{}{}
			defer func() { <-sem }()
			res := negativeResult{Name: filepath.Base(filepath.Dir(patch))}
			defer func() { results[i] = res }()
			if err != nil {
				res.Status, res.Detail = "skipped", "baseline run failed"
				return
			}
			dir, e := os.MkdirTemp("", "evcheck-negative-")
			if e != nil {
				res.Status, res.Detail = "skipped", e.Error()
				return
			}
			defer os.RemoveAll(dir)
			if e := copyTree(repo, dir); e != nil {
				res.Status, res.Detail = "skipped", e.Error()
				return
			}
			abs, _ := filepath.Abs(patch)
			ap := exec.Command("git", "apply", "--whitespace=nowarn", abs)
			ap.Dir = dir
			ap.Env = append(os.Environ(), "GIT_CEILING_DIRECTORIES="+filepath.Dir(dir))
			if out, e := ap.CombinedOutput(); e != nil {
				res.Status, res.Detail = "skipped", "the refactoring no longer applies (the code moved on): "+lastLines(string(out), 1)
				return
			}
			got, e := runSub(dir, pr.Rules, "")
			if e == nil && got.LoadError != "" {
				res.Status, res.Detail = "skipped", "does not build on this tree: "+lastLines(got.LoadError, 1)
				return
			}
			if e != nil || got.LoadError != "" {
				res.Status, res.Detail = "skipped", fmt.Sprintf("run failed: %v %s", e, got.LoadError)
				return
			}
			for _, o := range got.Obligations {
				if (o.Verdict == Fail || o.Verdict == Undecided) && !baseFail[o.Rule+"|"+o.Key] {
					res.Alarms = append(res.Alarms, o.Rule+": "+o.Key)
				}
			}
			if len(res.Alarms) > 0 {
				res.Status = "alarm"
			} else {
				res.Status = "silent"
			}
		}(i, patch)
	}
	wg.Wait()
	return results
}
