package main

// Untyped scan of every .go file under the library directories, regardless of
// build constraints: the typed load only sees what the default configuration
// builds, and a change could hide code in a constrained file.

import (
	"go/parser"
	"go/token"
	"path/filepath"
	"strings"
)

type rawFile struct {
	Rel      string
	Imports  []string
	Typed    bool // included in the typed load of the default configuration
	Linkname bool
	Cgo      bool
	ParseErr string
}

// scanFiles parses imports and comments of every non-test .go file of the
// library and notes non-Go sources.
func scanFiles(p *Program, root string) (files []rawFile, others []string, err error) {
	typed := map[string]bool{}
	if p != nil {
		for _, pk := range p.Pkgs {
			for _, f := range pk.CompiledGoFiles {
				rel, _ := filepath.Rel(p.Root, f)
				typed[rel] = true
			}
		}
	}
	all, err := LibFiles(root)
	if err != nil {
		return nil, nil, err
	}
	fset := token.NewFileSet()
	for _, rel := range all {
		ext := filepath.Ext(rel)
		switch ext {
		case ".go":
			if strings.HasSuffix(rel, "_test.go") {
				continue
			}
			rf := rawFile{Rel: rel, Typed: typed[rel]}
			f, perr := parser.ParseFile(fset, filepath.Join(root, rel), nil, parser.ImportsOnly|parser.ParseComments)
			if perr != nil {
				rf.ParseErr = perr.Error()
			}
			if f != nil {
				for _, im := range f.Imports {
					path := strings.Trim(im.Path.Value, "\"`")
					rf.Imports = append(rf.Imports, path)
					if path == "C" {
						rf.Cgo = true
					}
				}
				for _, cg := range f.Comments {
					for _, c := range cg.List {
						if strings.HasPrefix(c.Text, "//go:linkname") || strings.HasPrefix(c.Text, "//go:cgo_") {
							rf.Linkname = true
						}
					}
				}
			}
			files = append(files, rf)
		case ".s", ".S", ".c", ".h", ".cc", ".cpp", ".cxx", ".m", ".f", ".F", ".syso", ".swig", ".swigcxx":
			others = append(others, rel)
		}
	}
	return files, others, nil
}

// untypedScan lists, for every property, the library files the typed load did
// not include (they are only checked at the import level, by R-IMPORTS).
func untypedScan(p *Program, root string) []Obligation {
	files, _, err := scanFiles(p, root)
	if err != nil {
		return []Obligation{{Rule: "SCAN", Key: "walk", Pos: "-", Verdict: Undecided, Detail: err.Error()}}
	}
	var out []Obligation
	for _, f := range files {
		if !f.Typed {
			out = append(out, Obligation{Rule: "SCAN", Key: "file " + f.Rel, Pos: f.Rel, Verdict: Info,
				Detail: "not part of the default build configuration: analysed only at the import level here; the thorough tier loads foreign configurations"})
		}
	}
	return out
}
