package main

// R-TOKENSTATE: a typestate analysis of the parser's current and next token.
//
// For every point of every parser method the analysis keeps a set of abstract
// states; a state says whether the current token may be the end of input,
// whether it may be an illegal token, the same two for the next token, and
// whether an error has been recorded on the way.  The states are refined by the
// parser's own tests (curTokenIs, peekTokenIs, expectPeek, comparisons of
// p.curToken.Type, the look-up of a parselet) and carried through calls by
// context-insensitive summaries; parselets called through the tables are
// entered with the kinds they are registered for.  At every advance the token
// stepped off must not be one that may be the end of input or illegal, unless
// an error has been recorded.

import (
	"fmt"
	"go/constant"
	"go/token"
	"go/types"
	"os"
	"sort"
	"strings"

	"golang.org/x/tools/go/ssa"
)

const (
	tsCurE  = 1
	tsCurI  = 2
	tsPeekE = 4
	tsPeekI = 8
	tsErr   = 16
	tsTop   = tsCurE | tsCurI | tsPeekE | tsPeekI
)

type tsSet uint32 // a set of states, one bit per state 0..31

func (s tsSet) has(t int) bool { return s&(1<<uint(t)) != 0 }
func tsOf(t int) tsSet {
	if t&tsErr != 0 {
		t = tsErr
	}
	return 1 << uint(t)
}
func (s tsSet) each(f func(t int)) {
	for t := 0; t < 32; t++ {
		if s.has(t) {
			f(t)
		}
	}
}
func (s tsSet) mapEach(f func(t int) tsSet) tsSet {
	var out tsSet
	s.each(func(t int) {
		if t&tsErr != 0 {
			out |= tsOf(tsErr)
			return
		}
		out |= f(t)
	})
	return out
}

// tsCtx is a function together with the constant arguments (booleans and token
// kinds) it is called with: `parseStatements(true)` and `parseStatements(false)`
// are analysed separately.
type tsCtx struct {
	fn  *ssa.Function
	key string
}

type tokenState struct {
	p      *Program
	pr     *parserRoles
	curIs  *ssa.Function
	peekIs *ssa.Function
	eof    string
	ill    string
	regs   []registration
	// kinds registered per table type
	tableHas map[string]map[string]bool
	entry    map[tsCtx]tsSet
	// summaries, per entry state: the exit states; those on which a boolean
	// result is true; those on which it is false
	exit    map[tsCtx]*[32]tsSet
	exitT   map[tsCtx]*[32]tsSet
	exitF   map[tsCtx]*[32]tsSet
	consts  map[tsCtx]map[int]*ssa.Const
	order   []tsCtx
	changed bool
	// per advance site: the worst state seen
	bad map[ssa.Instruction]int
	ok  map[ssa.Instruction]bool
	// constant kinds passed for a token.Type parameter
	tupleBool map[tsCtx]tsBoolPart // for (…, bool) results: exits by the boolean
	// the states in which a call of one of the parser's own methods was made (in
	// the run of the dataflow that is under way)
	before map[ssa.Instruction]tsSet
}

// tokenOf: v is a load of p.curToken.Type ("cur") or p.peekToken.Type ("peek").
func tokenOf(v ssa.Value) string {
	for depth := 0; depth < 6 && v != nil; depth++ {
		switch x := v.(type) {
		case *ssa.UnOp:
			v = x.X
		case *ssa.ChangeType:
			v = x.X
		case *ssa.Convert:
			v = x.X
		case *ssa.Field:
			v = x.X
		case *ssa.FieldAddr:
			switch fieldKey(x) {
			case "parser.Parser.curToken":
				return "cur"
			case "parser.Parser.peekToken":
				return "peek"
			}
			v = x.X
		default:
			return ""
		}
	}
	return ""
}

func (ts *tokenState) kindConst(v ssa.Value) (string, bool) {
	c, ok := v.(*ssa.Const)
	if !ok || c.Value == nil || c.Value.Kind() != constant.String {
		return "", false
	}
	return constant.StringVal(c.Value), true
}

// kindsOf: the kinds a token.Type value can be: a constant, or a parameter whose
// value is a constant in this context.
func (ts *tokenState) kindsOf(ctx tsCtx, v ssa.Value) (map[string]bool, bool) {
	if k, ok := ts.kindConst(v); ok {
		return map[string]bool{k: true}, true
	}
	if c := ts.paramConst(ctx, v); c != nil {
		if k, ok := ts.kindConst(c); ok {
			return map[string]bool{k: true}, true
		}
	}
	return nil, false
}

// paramConst: v is a parameter with a constant value in this context.
func (ts *tokenState) paramConst(ctx tsCtx, v ssa.Value) *ssa.Const {
	pm, ok := v.(*ssa.Parameter)
	if !ok {
		return nil
	}
	for i, q := range ctx.fn.Params {
		if q == pm {
			return ts.consts[ctx][i]
		}
	}
	return nil
}

// ctxOf: the context in which a call runs its callee.
func (ts *tokenState) ctxOf(caller tsCtx, cal *ssa.Function, args []ssa.Value) tsCtx {
	consts := map[int]*ssa.Const{}
	var parts []string
	for i, a := range args {
		if i >= len(cal.Params) {
			break
		}
		c, _ := a.(*ssa.Const)
		if c == nil {
			c = ts.paramConst(caller, a)
		}
		if c == nil || c.Value == nil {
			continue
		}
		t := cal.Params[i].Type()
		if !isBoolType(t) && !isNamed(t, "token", "Type") {
			continue
		}
		consts[i] = c
		parts = append(parts, fmt.Sprintf("%d=%s", i, c.Value.ExactString()))
	}
	ctx := tsCtx{fn: cal, key: strings.Join(parts, ";")}
	if _, seen := ts.consts[ctx]; !seen {
		ts.consts[ctx] = consts
		ts.order = append(ts.order, ctx)
		ts.changed = true
	}
	return ctx
}

// refineKind: the token (cur or peek) was tested against the kinds ks with the
// given outcome.  Returns the refined state, or -1 when the outcome is
// impossible in state t.
func (ts *tokenState) refineKind(t int, which string, ks map[string]bool, outcome bool) int {
	eBit, iBit := tsCurE, tsCurI
	if which == "peek" {
		eBit, iBit = tsPeekE, tsPeekI
	}
	if outcome {
		// the token is one of ks
		mayE := ks[ts.eof] && t&eBit != 0
		mayI := ks[ts.ill] && t&iBit != 0
		other := false
		for k := range ks {
			if k != ts.eof && k != ts.ill {
				other = true
			}
		}
		if !mayE && !mayI && !other {
			return -1
		}
		t &^= eBit | iBit
		if mayE {
			t |= eBit
		}
		if mayI {
			t |= iBit
		}
		return t
	}
	// the token is none of ks
	if len(ks) == 1 {
		if ks[ts.eof] {
			t &^= eBit
		}
		if ks[ts.ill] {
			t &^= iBit
		}
	}
	return t
}

// tableOfLookup: v is the result of a look-up in a parselet table indexed by
// the current or the next token's kind; returns the table's element type name
// and which token.
func (ts *tokenState) tableOfLookup(v ssa.Value) (string, string) {
	for depth := 0; depth < 6 && v != nil; depth++ {
		switch x := v.(type) {
		case *ssa.Extract:
			v = x.Tuple
		case *ssa.ChangeType:
			v = x.X
		case *ssa.Field:
			v = x.X
		case *ssa.Phi:
			// a value that is one look-up on every edge
			if len(x.Edges) == 0 {
				return "", ""
			}
			v = x.Edges[0]
		case *ssa.Lookup:
			mt, ok := x.X.Type().Underlying().(*types.Map)
			if !ok || !isNamed(mt.Key(), "token", "Type") {
				return "", ""
			}
			which := tokenOf(x.Index)
			if which == "" {
				return "", ""
			}
			if nt, ok := types.Unalias(mt.Elem()).(*types.Named); ok {
				return nt.Obj().Name(), which
			}
			return "", ""
		default:
			return "", ""
		}
	}
	return "", ""
}

// refine: the states of s in which cond has the given outcome.
func (ts *tokenState) refine(ctx tsCtx, cond ssa.Value, outcome bool, s tsSet) tsSet {
	fn := ctx.fn
	_ = fn
	if c := ts.paramConst(ctx, cond); c != nil && c.Value != nil && c.Value.Kind() == constant.Bool {
		if constant.BoolVal(c.Value) != outcome {
			return 0
		}
		return s
	}
	if c, ok := cond.(*ssa.Const); ok && c.Value != nil && c.Value.Kind() == constant.Bool {
		if constant.BoolVal(c.Value) != outcome {
			return 0
		}
		return s
	}
	switch x := cond.(type) {
	case *ssa.Extract:
		// the ok of `list, ok := p.parseList(…)`: false after an error (the
		// helper's own false exits say so)
		if cl, isCall := x.Tuple.(*ssa.Call); isCall {
			if cal := cl.Call.StaticCallee(); cal != nil && ts.isParserMethod(cal) && x.Index < cal.Signature.Results().Len() && isBoolType(cal.Signature.Results().At(x.Index).Type()) {
				cc := ts.ctxOf(ctx, cal, cl.Call.Args)
				if pt, ok := ts.tupleBool[cc]; ok && pt.idx == x.Index {
					if pre, ok := ts.before[cl]; ok {
						if outcome {
							return through(ts.exitT[cc], pre)
						}
						return through(ts.exitF[cc], pre)
					}
				}
			}
		}
	case *ssa.UnOp:
		if x.Op == token.NOT {
			return ts.refine(ctx, x.X, !outcome, s)
		}
	case *ssa.Call:
		cal := x.Call.StaticCallee()
		switch {
		case cal != nil && (cal == ts.curIs || cal == ts.peekIs) && len(x.Call.Args) == 2:
			which := "cur"
			if cal == ts.peekIs {
				which = "peek"
			}
			ks, ok := ts.kindsOf(ctx, x.Call.Args[1])
			if !ok {
				return s
			}
			return s.mapEach(func(t int) tsSet {
				if nt := ts.refineKind(t, which, ks, outcome); nt >= 0 {
					return tsOf(nt)
				}
				return 0
			})
		case cal != nil && cal == ts.pr.expect:
			if !outcome {
				return tsOf(tsErr)
			}
			return s
		case cal != nil && ts.isParserMethod(cal) && cal.Signature.Results().Len() >= 1 && isBoolType(cal.Signature.Results().At(0).Type()):
			// a predicate of the parser's own: the states in which it gave this answer
			cc := ts.ctxOf(ctx, cal, x.Call.Args)
			if pre, ok := ts.before[x]; ok {
				if outcome {
					return through(ts.exitT[cc], pre)
				}
				return through(ts.exitF[cc], pre)
			}
			return s
		}
	case *ssa.BinOp:
		if x.Op != token.EQL && x.Op != token.NEQ {
			return s
		}
		eq := (x.Op == token.EQL) == outcome
		a, b := x.X, x.Y
		if _, isC := a.(*ssa.Const); isC {
			a, b = b, a
		}
		// p.curToken.Type == K
		if which := tokenOf(a); which != "" && isNamed(a.Type(), "token", "Type") {
			if ks, ok := ts.kindsOf(ctx, b); ok {
				return s.mapEach(func(t int) tsSet {
					if nt := ts.refineKind(t, which, ks, eq); nt >= 0 {
						return tsOf(nt)
					}
					return 0
				})
			}
			return s
		}
		// result of a parse function == nil: R-NILERR shows that a parse
		// function returns nil only after an error was recorded
		if isNilConst(b) && ts.fromParseCall(fn, a, 0) {
			if eq {
				return tsOf(tsErr)
			}
			return s
		}
		// parselet == nil
		if isNilConst(b) {
			if tbl, which := ts.tableOfLookup(a); tbl != "" {
				if eq {
					return s // no parselet: nothing learnt that matters here
				}
				has := ts.tableHas[tbl]
				eBit, iBit := tsCurE, tsCurI
				if which == "peek" {
					eBit, iBit = tsPeekE, tsPeekI
				}
				return s.mapEach(func(t int) tsSet {
					if !has[ts.eof] {
						t &^= eBit
					}
					if !has[ts.ill] {
						t &^= iBit
					}
					return tsOf(t)
				})
			}
		}
	}
	return s
}

// fromParseCall: v is the result of a call of a parse function (a method of the
// parser that returns a syntax node, or a parselet called through a table),
// directly or through a field it was stored in by this function.
func (ts *tokenState) fromParseCall(fn *ssa.Function, v ssa.Value, depth int) bool {
	if depth > 4 {
		return false
	}
	switch x := v.(type) {
	case *ssa.MakeInterface:
		return ts.fromParseCall(fn, x.X, depth+1)
	case *ssa.ChangeInterface:
		return ts.fromParseCall(fn, x.X, depth+1)
	case *ssa.ChangeType:
		return ts.fromParseCall(fn, x.X, depth+1)
	case *ssa.Call:
		if cal := x.Call.StaticCallee(); cal != nil {
			return ts.pr.parseFns[cal]
		}
		if nt, ok := types.Unalias(x.Call.Value.Type()).(*types.Named); ok && ts.tableHas[nt.Obj().Name()] != nil {
			return true
		}
		return false
	case *ssa.Phi:
		if len(x.Edges) == 0 {
			return false
		}
		for _, e := range x.Edges {
			if !ts.fromParseCall(fn, e, depth+1) {
				return false
			}
		}
		return true
	case *ssa.UnOp:
		fa, ok := x.X.(*ssa.FieldAddr)
		if x.Op != token.MUL || !ok {
			return false
		}
		n := 0
		for _, b := range fn.Blocks {
			for _, ins := range b.Instrs {
				st, ok := ins.(*ssa.Store)
				if !ok {
					continue
				}
				f2, ok := st.Addr.(*ssa.FieldAddr)
				if !ok || f2.Field != fa.Field || f2.X != fa.X {
					continue
				}
				n++
				if !ts.fromParseCall(fn, st.Val, depth+1) {
					return false
				}
			}
		}
		return n > 0
	}
	return false
}

func (ts *tokenState) addEntry(c tsCtx, s tsSet) {
	if _, seen := ts.consts[c]; !seen {
		ts.consts[c] = map[int]*ssa.Const{}
		ts.order = append(ts.order, c)
		ts.changed = true
	}
	if s == 0 {
		return
	}
	if ts.entry[c]|s != ts.entry[c] {
		ts.entry[c] |= s
		ts.changed = true
	}
}

func (ts *tokenState) isParserMethod(cal *ssa.Function) bool {
	return cal != nil && fnPkg(cal) != nil && fnPkg(cal).Pkg.Path() == Mod+"/parser" && recvNamed(cal, "parser", "Parser") && len(cal.Blocks) > 0 &&
		cal != ts.pr.advance && cal != ts.pr.expect && cal != ts.curIs && cal != ts.peekIs
}

type tsBoolPart struct {
	idx int
}

// through applies a summary to a set of states (a state with an error on
// record stays one).
func through(rel *[32]tsSet, s tsSet) tsSet {
	var out tsSet
	if rel == nil {
		return s & tsOf(tsErr)
	}
	s.each(func(t int) {
		if t&tsErr != 0 {
			out |= tsOf(tsErr)
			return
		}
		out |= rel[t]
	})
	return out
}

// analyse runs the dataflow over one function in one context, once for every
// state it is entered in.
func (ts *tokenState) analyse(ctx tsCtx, report bool) {
	if len(ctx.fn.Blocks) == 0 || ts.entry[ctx] == 0 {
		return
	}
	ts.entry[ctx].each(func(t int) { ts.analyseFrom(ctx, t, report) })
}

func (ts *tokenState) analyseFrom(ctx tsCtx, entry int, report bool) {
	fn := ctx.fn
	ts.before = map[ssa.Instruction]tsSet{}
	in := map[*ssa.BasicBlock]tsSet{fn.Blocks[0]: tsOf(entry)}
	edge := map[[2]*ssa.BasicBlock]tsSet{}
	work := []*ssa.BasicBlock{fn.Blocks[0]}
	queued := map[*ssa.BasicBlock]bool{fn.Blocks[0]: true}
	atReturn := map[*ssa.Return]tsSet{}
	for len(work) > 0 {
		b := work[0]
		work = work[1:]
		queued[b] = false
		s := in[b]
		for _, ins := range b.Instrs {
			s = ts.transfer(ctx, ins, s, report)
			if ret, ok := ins.(*ssa.Return); ok {
				atReturn[ret] |= s
			}
		}
		for i, sc := range b.Succs {
			out := s
			if iff, ok := terminator(b).(*ssa.If); ok && len(b.Succs) == 2 && b.Succs[0] != b.Succs[1] {
				out = ts.refine(ctx, iff.Cond, i == 0, s)
			}
			edge[[2]*ssa.BasicBlock{b, sc}] |= out
			if in[sc]|out != in[sc] {
				in[sc] |= out
				if !queued[sc] {
					queued[sc] = true
					work = append(work, sc)
				}
			}
		}
	}
	var exit, exitT, exitF tsSet
	// which result is the boolean that tells callers how the call went
	boolIdx := -1
	rs := fn.Signature.Results()
	for i := 0; i < rs.Len(); i++ {
		if isBoolType(rs.At(i).Type()) {
			boolIdx = i
		}
	}
	for ret, s := range atReturn {
		exit |= s
		if boolIdx < 0 || boolIdx >= len(ret.Results) {
			continue
		}
		// split the states by the value of the boolean result
		var split func(v ssa.Value, st tsSet, depth int)
		split = func(v ssa.Value, st tsSet, depth int) {
			if phi, ok := v.(*ssa.Phi); ok && phi.Block() == ret.Block() && depth < 3 {
				// nothing but the φ and the return may touch the state
				plain := true
				for _, ins := range ret.Block().Instrs {
					if cc := callOf(ins); cc != nil {
						plain = false
					}
				}
				if plain {
					for i, e := range phi.Edges {
						split(e, edge[[2]*ssa.BasicBlock{ret.Block().Preds[i], ret.Block()}], depth+1)
					}
					return
				}
			}
			exitT |= ts.refine(ctx, v, true, st)
			exitF |= ts.refine(ctx, v, false, st)
		}
		split(returnOperand(ret, boolIdx), s, 0)
	}
	if boolIdx >= 0 {
		exit = exitT | exitF // the states as the boolean result lets them be told apart
	}
	grow := func(m map[tsCtx]*[32]tsSet, v tsSet) {
		if m[ctx] == nil {
			m[ctx] = &[32]tsSet{}
		}
		if m[ctx][entry]|v != m[ctx][entry] {
			m[ctx][entry] |= v
			ts.changed = true
		}
	}
	grow(ts.exit, exit)
	if boolIdx >= 0 {
		grow(ts.exitT, exitT)
		grow(ts.exitF, exitF)
		if rs.Len() > 1 {
			ts.tupleBool[ctx] = tsBoolPart{idx: boolIdx}
		}
	}
}

// check: may the token that is stepped off be the end of input / illegal?
func (ts *tokenState) check(ins ssa.Instruction, s tsSet, report bool) {
	if !report {
		return
	}
	worst := 0
	s.each(func(t int) {
		if t&tsErr != 0 {
			return
		}
		worst |= t & (tsCurE | tsCurI)
	})
	if worst != 0 {
		ts.bad[ins] |= worst
	} else {
		ts.ok[ins] = true
	}
}

func (ts *tokenState) transfer(ctx tsCtx, ins ssa.Instruction, s tsSet, report bool) tsSet {
	fn := ctx.fn
	if s == 0 {
		return 0
	}
	if isErrorRecord(ts.pr, ins) {
		return tsOf(tsErr)
	}
	cc := callOf(ins)
	if cc == nil {
		return s
	}
	if _, isBuiltin := cc.Value.(*ssa.Builtin); isBuiltin {
		return s
	}
	if _, isGo := ins.(*ssa.Go); isGo {
		return s
	}
	if _, isDefer := ins.(*ssa.Defer); isDefer {
		return s
	}
	cal := cc.StaticCallee()
	switch {
	case cal != nil && cal == ts.pr.advance:
		ts.check(ins, s, report)
		return s.mapEach(func(t int) tsSet {
			nt := 0
			if t&tsPeekE != 0 {
				nt |= tsCurE
			}
			if t&tsPeekI != 0 {
				nt |= tsCurI
			}
			return tsOf(nt | tsPeekE | tsPeekI)
		})
	case cal != nil && cal == ts.pr.expect:
		ts.check(ins, s, report)
		ks, ok := map[string]bool(nil), false
		if len(cc.Args) == 2 {
			ks, ok = ts.kindsOf(ctx, cc.Args[1])
		}
		out := tsOf(tsErr) // the failing outcome records an error
		s.each(func(t int) {
			if t&tsErr != 0 {
				return
			}
			// the next token is tested, and on success becomes the current one
			pt := t
			if ok {
				pt = ts.refineKind(t, "peek", ks, true)
				if pt < 0 {
					return
				}
			}
			nt := 0
			if pt&tsPeekE != 0 {
				nt |= tsCurE
			}
			if pt&tsPeekI != 0 {
				nt |= tsCurI
			}
			out |= tsOf(nt | tsPeekE | tsPeekI)
		})
		return out
	case cal != nil && (cal == ts.curIs || cal == ts.peekIs || cal == ts.pr.curPrec || cal == ts.pr.peekPrec):
		return s
	}
	if cal != nil {
		if fnPkg(cal) == nil || fnPkg(cal).Pkg.Path() != Mod+"/parser" || !recvNamed(cal, "parser", "Parser") || len(cal.Blocks) == 0 {
			return s // nothing of the parser's tokens is touched elsewhere
		}
		if recordsParseError(ts.pr, ins) {
			return tsOf(tsErr)
		}
		c2 := ts.ctxOf(ctx, cal, cc.Args)
		ts.addEntry(c2, s&^tsOf(tsErr))
		ts.before[ins] |= s
		// the callee's exits; until it has been analysed, nothing comes back
		return through(ts.exit[c2], s)
	}
	// a parselet called through a table (or a callback of the parser's own)
	tbl := ""
	if nt, ok := types.Unalias(cc.Value.Type()).(*types.Named); ok {
		tbl = nt.Obj().Name()
	}
	if tbl == "" || ts.tableHas[tbl] == nil {
		// a function value of another kind: the callees the call graph knows
		var out tsSet
		n := 0
		if node := ts.p.CallGraph().Nodes[fn]; node != nil {
			for _, e := range node.Out {
				if e.Site == ins {
					c := e.Callee.Func
					if fnPkg(c) != nil && fnPkg(c).Pkg.Path() == Mod+"/parser" && len(c.Blocks) > 0 {
						n++
						ts.addEntry(tsCtx{fn: c}, s&^tsOf(tsErr))
						out |= through(ts.exit[tsCtx{fn: c}], s)
					}
				}
			}
		}
		if n == 0 {
			return s
		}
		return out
	}
	var out tsSet
	for _, rg := range ts.regs {
		if rg.fnType != tbl || rg.method == nil {
			continue
		}
		mc := tsCtx{fn: rg.method}
		s.each(func(t int) {
			if t&tsErr != 0 {
				out |= tsOf(tsErr)
				return
			}
			// the parselet runs with the current token of the kind it is registered for
			et := -1
			switch rg.tok {
			case ts.eof:
				if t&tsCurE != 0 {
					et = t &^ tsCurI
				}
			case ts.ill:
				if t&tsCurI != 0 {
					et = t &^ tsCurE
				}
			default:
				et = t &^ (tsCurE | tsCurI)
			}
			if et < 0 {
				return
			}
			ts.addEntry(mc, tsOf(et))
			out |= through(ts.exit[mc], tsOf(et))
		})
	}
	return out
}

func ruleTokenState(p *Program, r *Reporter) {
	pr := resolveParserRoles(p, r)
	if pr == nil {
		return
	}
	curIs, peekIs := tokenTests(pr)
	if curIs == nil || peekIs == nil {
		r.Undecided("token tests", "-", "cannot find the current-token / next-token test helpers")
		return
	}
	eof, ok1 := tokenConst(p, "EOF")
	ill, ok2 := tokenConst(p, "ILLEGAL")
	if !ok1 || !ok2 {
		r.Undecided("token kinds", "-", "cannot read token.EOF / token.ILLEGAL")
		return
	}
	ts := &tokenState{p: p, pr: pr, curIs: curIs, peekIs: peekIs, eof: eof, ill: ill,
		regs: registrations(p), tableHas: map[string]map[string]bool{},
		entry: map[tsCtx]tsSet{}, exit: map[tsCtx]*[32]tsSet{}, exitT: map[tsCtx]*[32]tsSet{}, exitF: map[tsCtx]*[32]tsSet{},
		consts: map[tsCtx]map[int]*ssa.Const{}, tupleBool: map[tsCtx]tsBoolPart{},
		bad: map[ssa.Instruction]int{}, ok: map[ssa.Instruction]bool{}}
	for _, rg := range ts.regs {
		if ts.tableHas[rg.fnType] == nil {
			ts.tableHas[rg.fnType] = map[string]bool{}
		}
		ts.tableHas[rg.fnType][rg.tok] = true
	}
	// roots: exported methods of the parser nobody in the parser calls
	called := map[*ssa.Function]bool{}
	var fns []*ssa.Function
	for _, f := range pr.all {
		if f.Parent() != nil || !recvNamed(f, "parser", "Parser") || f == pr.advance || f == pr.expect || f == curIs || f == peekIs {
			continue
		}
		fns = append(fns, f)
		for _, b := range f.Blocks {
			for _, ins := range b.Instrs {
				if cc := callOf(ins); cc != nil && cc.StaticCallee() != nil {
					called[cc.StaticCallee()] = true
				}
			}
		}
	}
	sort.Slice(fns, func(i, j int) bool { return p.FnName(fns[i]) < p.FnName(fns[j]) })
	registered := map[*ssa.Function]bool{}
	for _, rg := range ts.regs {
		registered[rg.method] = true
	}
	nroots := 0
	for _, f := range fns {
		if !called[f] && !registered[f] && f.Object() != nil && f.Object().Exported() {
			ts.addEntry(tsCtx{fn: f}, tsOf(tsTop))
			nroots++
		}
	}
	if nroots == 0 {
		r.Undecided("entry points of the parser", "-", "no exported method of the parser that nothing in the parser calls")
		return
	}
	converged := false
	for round := 0; round < 400; round++ {
		ts.changed = false
		for i := 0; i < len(ts.order); i++ {
			ts.analyse(ts.order[i], false)
		}
		if !ts.changed {
			converged = true
			break
		}
	}
	if !converged || len(ts.order) > 2000 {
		r.Undecided("token-state analysis", "-", "the analysis did not reach a fixed point")
		return
	}
	for i := 0; i < len(ts.order); i++ {
		ts.analyse(ts.order[i], true)
	}
	if os.Getenv("EVCHECK_DEBUG_TOKENSTATE") != "" {
		for _, c := range ts.order {
			fmt.Fprintf(os.Stderr, "tokenstate %-50s [%s] entry=%032b exit=%032b\n", p.FnName(c.fn), c.key, ts.entry[c], through(ts.exit[c], ts.entry[c]))
		}
	}
	// report per advance site
	for _, f := range fns {
		n := 0
		for _, b := range f.Blocks {
			for _, ins := range b.Instrs {
				cc := callOf(ins)
				if cc == nil || (cc.StaticCallee() != pr.advance && cc.StaticCallee() != pr.expect) {
					continue
				}
				if _, isCall := ins.(*ssa.Call); !isCall {
					continue
				}
				n++
				key := fmt.Sprintf("%s/advance %d steps off a token that was identified", p.FnName(f), n)
				w, isBad := ts.bad[ins]
				switch {
				case isBad:
					var what []string
					if w&tsCurE != 0 {
						what = append(what, "the end of the input")
					}
					if w&tsCurI != 0 {
						what = append(what, "an illegal token (an unterminated string or regexp, a character the language does not have)")
					}
					r.Fail(key, p.Pos(ins.Pos()), "the parser moves on from the current token here although, on some path, nothing has established what that token is and no error has been recorded: it may be "+strings.Join(what, " or ")+", which is then taken for whatever was expected in its place — a construct is accepted as complete although its closing token is missing or something illegal stands there, and what follows is dropped or parsed as if nothing had happened")
				case ts.ok[ins]:
					r.OkNT(key, p.Pos(ins.Pos()), "in every state that reaches this advance the current token is known not to be the end of input or illegal, or an error has been recorded")
				default:
					r.Info(key, p.Pos(ins.Pos()), "not reached from the parser's entry points")
				}
			}
		}
	}
}
