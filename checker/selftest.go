package main

// Built-in positive examples for rules whose expected count on a correct tree
// is zero: the matcher must fire on the example on every run, or the rule
// reports itself blind.

import (
	"go/ast"
	"go/importer"
	"go/parser"
	"go/token"
	"go/types"

	"golang.org/x/tools/go/ssa"
	"golang.org/x/tools/go/ssa/ssautil"
)

// identityCmps finds ==/!= between two non-nil values whose types satisfy pred.
func identityCmps(fn *ssa.Function, pred func(types.Type) bool) []*ssa.BinOp {
	var out []*ssa.BinOp
	for _, b := range fn.Blocks {
		for _, ins := range b.Instrs {
			bo, ok := ins.(*ssa.BinOp)
			if !ok || (bo.Op != token.EQL && bo.Op != token.NEQ) {
				continue
			}
			if !pred(bo.X.Type()) || !pred(bo.Y.Type()) || isNilConst(bo.X) || isNilConst(bo.Y) {
				continue
			}
			out = append(out, bo)
		}
	}
	return out
}

const identityExample = `package t
type O interface{ M() }
type B struct{ v bool }
func (*B) M() {}
var T = &B{v: true}
func bang(o O) bool {
	switch o {
	case T:
		return false
	}
	return o != O(T)
}
`

func buildExample(src string) *ssa.Package {
	fset := token.NewFileSet()
	f, err := parser.ParseFile(fset, "t.go", src, 0)
	if err != nil {
		return nil
	}
	pkg := types.NewPackage("t", "t")
	sp, _, err := ssautil.BuildPackage(&types.Config{Importer: importer.Default()}, fset, pkg, []*ast.File{f}, 0)
	if err != nil {
		return nil
	}
	return sp
}

func identitySelfTest() bool {
	sp := buildExample(identityExample)
	if sp == nil {
		return false
	}
	fn := sp.Func("bang")
	if fn == nil {
		return false
	}
	pred := func(t types.Type) bool {
		if n, ok := types.Unalias(t).(*types.Named); ok && n.Obj().Name() == "O" {
			return true
		}
		if p, ok := t.Underlying().(*types.Pointer); ok {
			if n, ok := p.Elem().(*types.Named); ok && n.Obj().Name() == "B" {
				return true
			}
		}
		return false
	}
	return len(identityCmps(fn, pred)) >= 2
}
