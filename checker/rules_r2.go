package main

// Rules added after the second round of seeded changes.

import (
	"fmt"
	"go/constant"
	"go/token"
	"go/types"
	"sort"
	"strings"

	"golang.org/x/tools/go/ssa"
)

func init() {
	register(&Rule{ID: "R-CONDDIRECT", Floor: 5, Run: ruleCondDirect,
		Text: "In every compiler case that emits a conditional jump (if, while, the ternary, switch), each part handed to the recursive compile call is a field of the case's own syntax node, reached without inspecting the dynamic type of a sub-expression and without merging alternatives: conditions and branches are translated as written, so their truth is decided by the one run-time test."})
	register(&Rule{ID: "R-SCOPEFRESH", Floor: 1, Run: ruleScopeFresh,
		Text: "Every scope pushed on the scope stack is a freshly made, empty map: a scope never starts with the bindings of a scope that was closed earlier."})
	register(&Rule{ID: "R-NUMBASE", Floor: 2, Run: ruleNumBase,
		Text: "Numeric literals are converted with an explicit base 10 (strconv.ParseInt / ParseUint) and 64-bit precision (ParseFloat): the base is never inferred from the literal's prefix; an unsigned result becomes one of the language's (signed) integers only after a comparison with a bound."})
	register(&Rule{ID: "R-INDEXRESULT", Floor: 1, Run: ruleIndexResult,
		Text: "A position returned by strings.Index and its relatives is used as a slice bound or index only where a comparison has excluded the not-found value -1."})
	register(&Rule{ID: "R-LOCKSET", Floor: 2, Run: ruleLockSet,
		Text: "The evaluator's mutex is taken by Prepare and Run only: Run holds it while host functions execute, so a method a host function may call back (SetVariable, GetVariable, AddFunction, Execute, Dump) must not take it."})
	register(&Rule{ID: "R-FMTCONST", Floor: 10, Run: ruleFmtConst,
		Text: "Every printf-style call outside the printf/sprintf built-ins has a constant format string: data (a result's printed form, a script's text) is only ever an argument, never the format."})
	register(&Rule{ID: "R-BODYSTATE", Floor: 1, Run: ruleBodyState,
		Text: "Compiler state that is reset when the body of a function definition starts is put back when the body ends: every Eval field stored before the recursive compile of the body is stored again after it."})
}

// ---------------------------------------------------------------------------
// R-CONDDIRECT

func ruleCondDirect(p *Program, r *Reporter) {
	a := needAnchors(p, r)
	if a == nil {
		return
	}
	_ = p.Opcodes()
	fn := a.compile
	if len(fn.Params) < 2 {
		r.Undecided("compile", p.Pos(fn.Pos()), "unexpected parameter list")
		return
	}
	nodeParam := ssa.Value(fn.Params[1])
	// clauses that emit a conditional jump
	cond := map[string]token.Pos{}
	for _, b := range fn.Blocks {
		for _, ins := range b.Instrs {
			es, ok := emitAt(p, a, ins)
			if !ok {
				continue
			}
			c := es.call
			if es.op == "OpJumpIfFalse" {
				if cl := outerCase(p, fn, c.Pos()); cl != "" {
					cond[cl] = c.Pos()
				}
			}
		}
	}
	// … or has it emitted by a part that several cases share (the "condition,
	// jump, guarded code" prologue): the case hands the parts to that function,
	// which hands them to the compiler as it got them
	jumpHelpers := map[*ssa.Function]bool{}
	for f := range p.Reachable(fn) {
		if f == fn || fnPkg(f) == nil || fnPkg(f).Pkg.Path() != Mod || isEmitHelper(p, a, f) {
			continue
		}
		for _, b := range f.Blocks {
			for _, ins := range b.Instrs {
				if es, ok := emitAt(p, a, ins); ok && es.op == "OpJumpIfFalse" {
					jumpHelpers[f] = true
				}
			}
		}
	}
	for _, b := range fn.Blocks {
		for _, ins := range b.Instrs {
			if c, ok := ins.(*ssa.Call); ok && jumpHelpers[c.Call.StaticCallee()] {
				if cl := outerCase(p, fn, c.Pos()); cl != "" {
					if _, has := cond[cl]; !has {
						cond[cl] = c.Pos()
					}
				}
			}
		}
	}
	if len(cond) == 0 {
		r.Undecided("conditional constructs", p.Pos(fn.Pos()), "no compiler case emits OpJumpIfFalse")
		return
	}
	bad := map[string]string{}
	badPos := map[string]token.Pos{}
	count := map[string]int{}
	for _, b := range fn.Blocks {
		for _, ins := range b.Instrs {
			c, ok := ins.(*ssa.Call)
			if !ok || !jumpHelpers[c.Call.StaticCallee()] {
				continue
			}
			h := c.Call.StaticCallee()
			cl := outerCase(p, fn, c.Pos())
			if _, is := cond[cl]; !is {
				continue
			}
			for i, prm := range h.Params {
				if !isASTish(prm.Type()) || i >= len(c.Call.Args) {
					continue
				}
				count[cl]++
				if why := directPart(c.Call.Args[i], nodeParam, 0); why != "" && bad[cl] == "" {
					bad[cl] = strings.TrimPrefix(callKey(p, fn, c), "call ") + ": " + why
					badPos[cl] = c.Pos()
				}
				// inside the helper the part goes to the compiler as it came
				for _, hb := range h.Blocks {
					for _, hi := range hb.Instrs {
						hc, ok := staticCalleeIs(hi, fn)
						if !ok {
							continue
						}
						okPart := false
						for _, q := range h.Params {
							if isASTish(q.Type()) && directPart(hc.Call.Args[1], q, 0) == "" {
								okPart = true
							}
						}
						if !okPart && bad[cl] == "" {
							bad[cl] = strings.TrimPrefix(callKey(p, h, hc), "call ") + " (in " + h.Name() + "): what is compiled is not one of the parts the case handed over"
							badPos[cl] = hc.Pos()
						}
					}
				}
			}
		}
	}
	for _, b := range fn.Blocks {
		for _, ins := range b.Instrs {
			c, ok := staticCalleeIs(ins, fn)
			if !ok {
				continue
			}
			cl := outerCase(p, fn, c.Pos())
			if _, is := cond[cl]; !is {
				continue
			}
			count[cl]++
			if why := directPart(c.Call.Args[1], nodeParam, 0); why != "" && bad[cl] == "" {
				bad[cl] = strings.TrimPrefix(callKey(p, fn, c), "call ") + ": " + why
				badPos[cl] = c.Pos()
			}
		}
	}
	// the tree is read-only for the compiler: a rewritten node is compiled
	// "as written" only in name
	treeWrite := token.NoPos
	nWrites := 0
	for f := range p.Reachable(fn) {
		if fnPkg(f) == nil || fnPkg(f).Pkg.Path() != Mod {
			continue
		}
		for _, b := range f.Blocks {
			for _, ins := range b.Instrs {
				st, ok := ins.(*ssa.Store)
				if !ok {
					continue
				}
				owner, _, ok := fieldOf(st.Addr)
				if !ok || owner == nil || owner.Obj().Pkg() == nil || owner.Obj().Pkg().Path() != Mod+"/ast" {
					continue
				}
				// initialising a node the compiler itself just allocated is not a rewrite
				if fa, ok := st.Addr.(*ssa.FieldAddr); ok {
					if _, fresh := fa.X.(*ssa.Alloc); fresh {
						continue
					}
				}
				nWrites++
				if !treeWrite.IsValid() {
					treeWrite = st.Pos()
				}
			}
		}
	}
	r.Check(nWrites == 0, "compile/the compiler does not modify the syntax tree", p.Pos(treeWrite), "no store into a field of an existing syntax node in the compiler", "the compiler assigns to a field of a syntax node it was given: the part compiled afterwards is no longer what the script says (e.g. `!!c` replaced by `c`, although !!0 is true and 0 is not truthy)")
	var cls []string
	for cl := range cond {
		cls = append(cls, cl)
	}
	sort.Strings(cls)
	for _, cl := range cls {
		key := "compile/" + cl + "/condition and branches are compiled as written"
		if bad[cl] != "" {
			r.Fail(key, p.Pos(badPos[cl]), bad[cl]+" — the compiler chooses what to translate by looking at the shape of a sub-expression; a rewrite such as `!c ? a : b` → `c ? b : a` is wrong for every c that is neither true nor false/null (0, \"\", [] are not truthy, yet !0 is false), so the ternary would disagree with `if`, `while` and the verdict")
			continue
		}
		r.OkNT(key, p.Pos(cond[cl]), fmt.Sprintf("%d recursive compile calls, each on a field of the case's node", count[cl]))
	}
}

// directPart: "" when v is a chain of field / element selections starting at
// the type-switched node parameter.
func directPart(v ssa.Value, node ssa.Value, depth int) string {
	why := directPart0(v, node, depth)
	if why == "" || depth > 6 {
		return why
	}
	// the parts were first collected in a local list or struct (the arms of
	// a switch sorted into two lists, say): every value put there is a part
	if srcs, ok := localSources(v); ok && len(srcs) > 0 {
		for _, s := range srcs {
			if s == v || directPart(s, node, depth+3) != "" {
				return why
			}
		}
		return ""
	}
	return why
}

// sliceLiteralElems: v is a slice literal ([]T{a, b}): a fresh array sliced
// whole; the values stored into its elements.
func sliceLiteralElems(v ssa.Value) ([]ssa.Value, bool) {
	sl, ok := v.(*ssa.Slice)
	if !ok || sl.Low != nil || sl.High != nil {
		return nil, false
	}
	al, ok := sl.X.(*ssa.Alloc)
	if !ok || al.Referrers() == nil {
		return nil, false
	}
	if _, isArr := deref(al.Type()).Underlying().(*types.Array); !isArr {
		return nil, false
	}
	var out []ssa.Value
	for _, ref := range *al.Referrers() {
		switch r := ref.(type) {
		case *ssa.IndexAddr:
			for _, r2 := range *r.Referrers() {
				st, ok := r2.(*ssa.Store)
				if !ok || st.Addr != ssa.Value(r) {
					return nil, false
				}
				out = append(out, st.Val)
			}
		case *ssa.Slice, *ssa.DebugRef:
		default:
			return nil, false
		}
	}
	return out, len(out) > 0
}

func directPart0(v ssa.Value, node ssa.Value, depth int) string {
	if depth > 12 {
		return "selection chain too long"
	}
	if v == node {
		return ""
	}
	if els, ok := sliceLiteralElems(v); ok {
		for _, e := range els {
			if why := directPart(e, node, depth+1); why != "" {
				return why
			}
		}
		return ""
	}
	switch x := v.(type) {
	case *ssa.MakeInterface:
		return directPart(x.X, node, depth+1)
	case *ssa.ChangeInterface:
		return directPart(x.X, node, depth+1)
	case *ssa.UnOp:
		if x.Op == token.MUL {
			return directPart(x.X, node, depth+1)
		}
	case *ssa.FieldAddr:
		return directPart(x.X, node, depth+1)
	case *ssa.Field:
		return directPart(x.X, node, depth+1)
	case *ssa.IndexAddr:
		return directPart(x.X, node, depth+1)
	case *ssa.Index:
		return directPart(x.X, node, depth+1)
	case *ssa.Lookup:
		return directPart(x.X, node, depth+1)
	case *ssa.Extract:
		if ta, ok := x.Tuple.(*ssa.TypeAssert); ok && x.Index == 0 {
			if ta.X == node {
				return ""
			}
			return "the part is obtained by asserting the dynamic type of a sub-expression (" + typeStr(ta.AssertedType) + ")"
		}
		if nx, ok := x.Tuple.(*ssa.Next); ok {
			// range over a map or string of the node
			if rg, ok := nx.Iter.(*ssa.Range); ok {
				return directPart(rg.X, node, depth+1)
			}
		}
	case *ssa.TypeAssert:
		if x.X == node {
			return ""
		}
		return "the part is obtained by asserting the dynamic type of a sub-expression (" + typeStr(x.AssertedType) + ")"
	case *ssa.Phi:
		return "the part is one of several alternatives chosen at compile time"
	case *ssa.Call:
		// the children as listed by a function that returns nothing but
		// parts of the node it is given
		if k, ok := returnsPartsOf(x.Call.StaticCallee()); ok && k < len(x.Call.Args) {
			return directPart(x.Call.Args[k], node, depth+1)
		}
	case *ssa.Alloc:
		// a local that was spilled: all stores must be direct
		for _, ref := range *x.Referrers() {
			if st, ok := ref.(*ssa.Store); ok && st.Addr == ssa.Value(x) {
				if why := directPart(st.Val, node, depth+1); why != "" {
					return why
				}
			}
		}
		return ""
	}
	return "the part is not a field of the case's node (" + v.String() + ")"
}

// returnsPartsOf: g takes a syntax-tree node (parameter k) and returns a slice
// every element of which is a proper part of that node, selected from it by
// fields, elements and map look-ups (or nil).
var partsFnCache = map[*ssa.Function]int{}

func returnsPartsOf(g *ssa.Function) (int, bool) {
	if g == nil || len(g.Blocks) == 0 || g.Signature.Results().Len() != 1 {
		return 0, false
	}
	if k, ok := partsFnCache[g]; ok {
		return k, k >= 0
	}
	partsFnCache[g] = -1
	if _, isSl := g.Signature.Results().At(0).Type().Underlying().(*types.Slice); !isSl {
		return 0, false
	}
	var node *ssa.Parameter
	k := -1
	for i, pr := range g.Params {
		if isASTish(pr.Type()) {
			node, k = pr, i
			break
		}
	}
	if node == nil {
		return 0, false
	}
	// a list handed in and handed back with the parts appended to it
	var listParam *ssa.Parameter
	for _, pr := range g.Params {
		if types.Identical(pr.Type(), g.Signature.Results().At(0).Type()) {
			listParam = pr
		}
	}
	seen := map[ssa.Value]bool{}
	var elemsOK func(v ssa.Value, d int) bool
	elemsOK = func(v ssa.Value, d int) bool {
		if seen[v] {
			return true
		}
		seen[v] = true
		if d > 40 {
			return false
		}
		switch x := v.(type) {
		case *ssa.Parameter:
			return listParam != nil && x == listParam
		case *ssa.Const:
			return x.IsNil()
		case *ssa.MakeSlice:
			n, ok := constInt(x.Len)
			return ok && n == 0
		case *ssa.Phi:
			for _, e := range x.Edges {
				if !elemsOK(e, d+1) {
					return false
				}
			}
			return true
		case *ssa.Call:
			if _, ok := isBuiltinCall(x, "append"); ok {
				return elemsOK(x.Call.Args[0], d+1) && elemsOK(x.Call.Args[1], d+1)
			}
		case *ssa.Slice:
			al, ok := x.X.(*ssa.Alloc)
			if !ok {
				return false
			}
			// the argument array of a variadic append: every store into it
			for _, ref := range *al.Referrers() {
				switch y := ref.(type) {
				case *ssa.IndexAddr:
					for _, r2 := range *y.Referrers() {
						st, ok := r2.(*ssa.Store)
						if !ok || st.Addr != ssa.Value(y) {
							return false
						}
						if directPart(st.Val, node, 0) != "" || !strictPart(st.Val, node, 0) {
							return false
						}
					}
				case *ssa.Slice, *ssa.DebugRef:
				default:
					return false
				}
			}
			return true
		case *ssa.UnOp:
			// a local slice variable that was spilled
			if al, ok := x.X.(*ssa.Alloc); ok && x.Op == token.MUL {
				for _, ref := range *al.Referrers() {
					if st, ok := ref.(*ssa.Store); ok && st.Addr == ssa.Value(al) && !elemsOK(st.Val, d+1) {
						return false
					}
				}
				return true
			}
		}
		return false
	}
	for _, b := range g.Blocks {
		if ret, ok := terminator(b).(*ssa.Return); ok {
			if !elemsOK(returnOperand(ret, 0), 0) {
				return 0, false
			}
		}
	}
	partsFnCache[g] = k
	return k, true
}

// strictPart: v selects a field or element on its way back to node (it is a
// proper part, not the node itself seen through a conversion or assertion).
func strictPart(v ssa.Value, node ssa.Value, depth int) bool {
	if strictPart0(v, node, depth) && directPart0(v, node, depth) == "" {
		return true
	}
	if depth > 6 {
		return strictPart0(v, node, depth)
	}
	if srcs, ok := localSources(v); ok && len(srcs) > 0 {
		for _, s := range srcs {
			if s == v || !strictPart(s, node, depth+3) {
				return strictPart0(v, node, depth)
			}
		}
		return true
	}
	return strictPart0(v, node, depth)
}

func strictPart0(v ssa.Value, node ssa.Value, depth int) bool {
	if depth > 12 || v == node {
		return false
	}
	if els, ok := sliceLiteralElems(v); ok {
		for _, e := range els {
			if !strictPart(e, node, depth+1) {
				return false
			}
		}
		return true
	}
	switch x := v.(type) {
	case *ssa.MakeInterface:
		return strictPart(x.X, node, depth+1)
	case *ssa.ChangeInterface:
		return strictPart(x.X, node, depth+1)
	case *ssa.UnOp:
		return x.Op == token.MUL && strictPart(x.X, node, depth+1)
	case *ssa.FieldAddr, *ssa.Field, *ssa.IndexAddr, *ssa.Index, *ssa.Lookup:
		return true
	case *ssa.Extract:
		if ta, ok := x.Tuple.(*ssa.TypeAssert); ok && x.Index == 0 {
			return strictPart(ta.X, node, depth+1)
		}
		if nx, ok := x.Tuple.(*ssa.Next); ok {
			if _, ok := nx.Iter.(*ssa.Range); ok {
				return true
			}
		}
	case *ssa.TypeAssert:
		return strictPart(x.X, node, depth+1)
	case *ssa.Alloc:
		for _, ref := range *x.Referrers() {
			if st, ok := ref.(*ssa.Store); ok && st.Addr == ssa.Value(x) {
				if !strictPart(st.Val, node, depth+1) {
					return false
				}
			}
		}
		return true
	}
	return false
}

// ---------------------------------------------------------------------------
// R-SCOPEFRESH

func ruleScopeFresh(p *Program, r *Reporter) {
	// every store into Environment.<scope stack> whose value is an append:
	// appended elements must be MakeMap
	n := 0
	for _, fn := range p.LibFns {
		for _, b := range fn.Blocks {
			for _, ins := range b.Instrs {
				st, ok := ins.(*ssa.Store)
				if !ok {
					continue
				}
				owner, fld, ok := fieldOf(st.Addr)
				if !ok || owner == nil || owner.Obj().Name() != "Environment" {
					continue
				}
				sl, isSl := st.Val.Type().Underlying().(*types.Slice)
				if !isSl {
					continue
				}
				if _, isMap := sl.Elem().Underlying().(*types.Map); !isMap {
					continue
				}
				key := p.FnName(fn) + "/scopes added to Environment." + fld + " are new and empty"
				ap, isApp := isBuiltinCall(st.Val, "append")
				if !isApp {
					// truncation (a Slice of the same field) or reset: nothing is added
					if isFreshEmpty(st.Val) {
						continue
					}
					if sv, ok := st.Val.(*ssa.Slice); ok && sv.High != nil {
						n++
						r.Check(withinLength(sv.High, st), key+" (re-slice)", p.Pos(st.Pos()), "the new length is at most the old one: a truncation", "the scope stack is re-sliced to a length that is not known to be at most its current length: extending it into its spare capacity re-opens a scope that was closed earlier, with whatever bindings it still holds (closing by truncation does not empty a scope)")
						continue
					}
					if _, ok := st.Val.(*ssa.Slice); ok {
						n++
						r.Fail(key, p.Pos(st.Pos()), "the scope stack is re-sliced without an upper bound: this can re-expose scopes beyond the current depth, with the bindings they had when they were closed")
						continue
					}
					n++
					r.Undecided(key, p.Pos(st.Pos()), "the scope stack is assigned a value that is neither an append, a truncation nor empty")
					continue
				}
				n++
				vals, known := varargsOf(ap.Call.Args[1])
				if !known {
					r.Fail(key, p.Pos(st.Pos()), "the appended scopes are not a list of freshly made maps")
					continue
				}
				okAll := true
				for _, v := range vals {
					if _, isMake := v.(*ssa.MakeMap); !isMake {
						okAll = false
					}
				}
				r.Check(okAll, key, p.Pos(st.Pos()), "append of make(map…)", "a scope that is opened is not a freshly made map (it is taken from somewhere else, e.g. the spare capacity of the stack): scopes closed by truncation — function returns, early exits from loops, the clean-up after a run — keep their bindings, so a later function or loop at the same depth starts with an earlier one's parameters and loop variables, which shadow globals and fields")
			}
		}
	}
	if n == 0 {
		r.Undecided("scope stack", "-", "no function pushes onto a slice of maps held by Environment")
	}
}

// withinLength: h is len(x)-k (k >= 0), or some comparison h < len / h <= len
// guards the instruction through its true edge.
func withinLength(h ssa.Value, at ssa.Instruction) bool {
	isLen := func(v ssa.Value) bool { _, ok := isBuiltinCall(v, "len"); return ok }
	if bo, ok := h.(*ssa.BinOp); ok && bo.Op == token.SUB && isLen(bo.X) {
		if k, ok := constInt(bo.Y); ok && k >= 0 {
			return true
		}
	}
	if isLen(h) {
		return true
	}
	if h.Referrers() == nil {
		return false
	}
	for _, ref := range *h.Referrers() {
		bo, ok := ref.(*ssa.BinOp)
		if !ok {
			continue
		}
		lt := (bo.Op == token.LSS || bo.Op == token.LEQ) && bo.X == h && isLen(bo.Y)
		gt := (bo.Op == token.GTR || bo.Op == token.GEQ) && bo.Y == h && isLen(bo.X)
		if !lt && !gt {
			continue
		}
		for _, u := range *bo.Referrers() {
			switch x := u.(type) {
			case *ssa.If:
				if edgeDominates(x.Block(), x.Block().Succs[0], at.Block()) {
					return true
				}
			case *ssa.BinOp, *ssa.Phi:
				// part of a conjunction (a && b is a Phi of conditions in SSA):
				// accept when the block computing the comparison's true continuation dominates
				_ = x
			}
		}
		// conjunction `depth >= 0 && depth < len(e.local)`: the comparison sits in
		// a block whose If leads to the store's block
		if iff, ok := terminator(bo.Block()).(*ssa.If); ok && iff.Cond == ssa.Value(bo) {
			if edgeDominates(bo.Block(), bo.Block().Succs[0], at.Block()) {
				return true
			}
		}
	}
	return false
}

// ---------------------------------------------------------------------------
// R-NUMBASE

func ruleNumBase(p *Program, r *Reporter) {
	for _, fn := range p.LibFns {
		for _, b := range fn.Blocks {
			for _, ins := range b.Instrs {
				cc := callOf(ins)
				if cc == nil || cc.StaticCallee() == nil {
					continue
				}
				full := calleeFullName(cc)
				switch full {
				case "strconv.ParseInt", "strconv.ParseUint":
					key := siteKey(p, fn, ins.Pos(), "integer text is read in base 10")
					base, ok := constInt(cc.Args[1])
					bits, ok2 := constInt(cc.Args[2])
					switch {
					case !ok || !ok2:
						r.Fail(key, p.Pos(ins.Pos()), "base or size of the conversion is not a constant")
					case base != 10:
						r.Fail(key, p.Pos(ins.Pos()), fmt.Sprintf("base %d: with base 0 the base is inferred from the text, so 010 is eight, 0x10 sixteen, 1_000 a thousand and 08 an error — the literal no longer denotes the decimal number it spells", base))
					case bits != 64:
						r.Fail(key, p.Pos(ins.Pos()), fmt.Sprintf("%d-bit conversion of a 64-bit integer literal", bits))
					default:
						r.OkNT(key, p.Pos(ins.Pos()), "base 10, 64 bits")
					}
					if full == "strconv.ParseUint" {
						// an unsigned result that becomes one of our (signed) integers
						// must have been compared with a bound first
						v, _ := ins.(ssa.Value)
						if v == nil || v.Referrers() == nil {
							continue
						}
						for _, ref := range *v.Referrers() {
							ex, ok := ref.(*ssa.Extract)
							if !ok || ex.Index != 0 || ex.Referrers() == nil {
								continue
							}
							for _, r2 := range *ex.Referrers() {
								cv, ok := r2.(*ssa.Convert)
								if !ok {
									continue
								}
								bt, ok := cv.Type().Underlying().(*types.Basic)
								if !ok || bt.Info()&types.IsInteger == 0 || bt.Info()&types.IsUnsigned != 0 {
									continue
								}
								guarded := false
								for _, r3 := range *ex.Referrers() {
									if bo, ok := r3.(*ssa.BinOp); ok && (bo.Op == token.LEQ || bo.Op == token.LSS || bo.Op == token.GTR || bo.Op == token.GEQ) {
										for _, r4 := range *bo.Referrers() {
											if iff, ok := r4.(*ssa.If); ok {
												for _, sc := range iff.Block().Succs {
													if len(sc.Preds) == 1 && (sc == cv.Block() || sc.Dominates(cv.Block())) {
														guarded = true
													}
												}
											}
										}
									}
								}
								wkey := siteKey(p, fn, cv.Pos(), "unsigned text value becomes a signed integer only within range")
								r.Check(guarded, wkey, p.Pos(cv.Pos()), "compared with a bound before the conversion", "the result of ParseUint is converted to a signed integer without being compared with a bound: a literal from 2^63 to 2^64-1 is accepted and wraps to a negative number (9223372036854775808 becomes -9223372036854775808) instead of being rejected")
							}
						}
					}
				case "strconv.ParseFloat":
					key := siteKey(p, fn, ins.Pos(), "decimal text is read as a 64-bit float")
					bits, ok := constInt(cc.Args[1])
					r.Check(ok && bits == 64, key, p.Pos(ins.Pos()), "64 bits", "a decimal literal is rounded to 32 bits before it is stored as a 64-bit float: 0.1 becomes 0.10000000149011612")
				case "strconv.Atoi":
					r.OkNT(siteKey(p, fn, ins.Pos(), "integer text is read in base 10"), p.Pos(ins.Pos()), "Atoi is base 10")
				}
			}
		}
	}
}

// ---------------------------------------------------------------------------
// R-INDEXRESULT

var indexFns = map[string]bool{
	"strings.Index": true, "strings.IndexByte": true, "strings.IndexRune": true, "strings.IndexAny": true,
	"strings.IndexFunc": true, "strings.LastIndex": true, "strings.LastIndexByte": true, "strings.LastIndexAny": true,
	"strings.LastIndexFunc": true, "bytes.Index": true, "bytes.IndexByte": true, "bytes.IndexRune": true,
	"bytes.IndexAny": true, "bytes.LastIndex": true, "bytes.LastIndexByte": true, "bytes.IndexFunc": true,
	"slices.Index": true, "slices.IndexFunc": true,
}

// indexSite: one call of an Index function and how its result is used.
type indexSite struct {
	call  *ssa.Call
	sinks int
	bad   ssa.Instruction // first unguarded use as bound/index, or nil
}

func indexSites(fn *ssa.Function, isIndex func(*ssa.CallCommon) bool) []indexSite {
	var out []indexSite
	for _, b := range fn.Blocks {
		for _, ins := range b.Instrs {
			c, ok := ins.(*ssa.Call)
			if !ok || !isIndex(&c.Call) {
				continue
			}
			// uses as bound or index, directly or through +/- constant
			var sinks []ssa.Instruction
			var collect func(v ssa.Value, d int)
			collect = func(v ssa.Value, d int) {
				if d > 3 || v.Referrers() == nil {
					return
				}
				for _, ref := range *v.Referrers() {
					switch x := ref.(type) {
					case *ssa.Slice:
						if x.Low == v || x.High == v || x.Max == v {
							sinks = append(sinks, x)
						}
					case *ssa.IndexAddr:
						if x.Index == v {
							sinks = append(sinks, x)
						}
					case *ssa.Index:
						if x.Index == v {
							sinks = append(sinks, x)
						}
					case *ssa.Lookup:
						if x.Index == v && isStringType(x.X.Type()) {
							sinks = append(sinks, x)
						}
					case *ssa.BinOp:
						if x.Op == token.ADD || x.Op == token.SUB {
							collect(x, d+1)
						}
					case *ssa.Phi:
						collect(x, d+1)
					}
				}
			}
			collect(c, 0)
			site := indexSite{call: c, sinks: len(sinks)}
			for _, s := range sinks {
				if !nonNegGuarded(c, s) {
					site.bad = s
					break
				}
			}
			out = append(out, site)
		}
	}
	return out
}

const indexExample = `package t
func index(s, sub string) int { return len(s) - len(sub) }
func unguarded(s string) string { i := index(s, ")"); return s[:i] }
func guarded(s string) string {
	i := index(s, ")")
	if i < 0 {
		return s
	}
	return s[i+1:]
}
func guarded2(s string) string {
	if i := index(s, ")"); i != -1 {
		return s[:i]
	}
	return s
}
`

func indexSelfTest() bool {
	sp := buildExample(indexExample)
	if sp == nil {
		return false
	}
	is := func(cc *ssa.CallCommon) bool {
		c := cc.StaticCallee()
		return c != nil && c.Name() == "index"
	}
	u, g, g2 := sp.Func("unguarded"), sp.Func("guarded"), sp.Func("guarded2")
	if u == nil || g == nil || g2 == nil {
		return false
	}
	su, sg, sg2 := indexSites(u, is), indexSites(g, is), indexSites(g2, is)
	return len(su) == 1 && su[0].bad != nil && len(sg) == 1 && sg[0].sinks == 1 && sg[0].bad == nil && len(sg2) == 1 && sg2[0].sinks == 1 && sg2[0].bad == nil
}

func ruleIndexResult(p *Program, r *Reporter) {
	r.Check(indexSelfTest(), "matcher self-test: an unguarded use of an Index result is found, two guarded idioms are accepted", "-", "built-in example behaves as expected", "the matcher no longer recognises its own example: the rule is blind")
	is := func(cc *ssa.CallCommon) bool {
		return cc.StaticCallee() != nil && indexFns[calleeFullName(cc)]
	}
	n := 0
	for _, fn := range p.LibFns {
		for _, site := range indexSites(fn, is) {
			n++
			c := site.call
			key := siteKey(p, fn, c.Pos(), "position from "+calleeFullName(&c.Call)+" is used only when found")
			switch {
			case site.sinks == 0:
				r.OkNT(key, p.Pos(c.Pos()), "the position is only compared, never used as a bound or index")
			case site.bad != nil:
				r.Fail(key, p.Pos(site.bad.Pos()), "the position is used as a slice bound or index on a path where nothing has excluded -1 (not found): text that lacks the character — a user-written regexp such as /(?i/ — makes the slice expression panic, and outside Execute's recover the panic reaches the caller")
			default:
				r.OkNT(key, p.Pos(c.Pos()), fmt.Sprintf("%d uses as bound or index, each guarded by a comparison that excludes -1", site.sinks))
			}
		}
	}
	if n == 0 {
		r.Info("no call of an Index function in the library", "-", "nothing to check on this tree; the self-test keeps the matcher alive")
	}
}

// nonNegGuarded: some conditional on `pos` (compared with a constant) has an
// edge that excludes negative values and dominates the sink.
func nonNegGuarded(pos ssa.Value, sink ssa.Instruction) bool {
	for _, ref := range *pos.Referrers() {
		bo, ok := ref.(*ssa.BinOp)
		if !ok {
			continue
		}
		var k int64
		var kok bool
		op := bo.Op
		if bo.X == pos {
			k, kok = constInt(bo.Y)
		} else {
			k, kok = constInt(bo.X)
			// constant on the left: mirror the operator
			switch op {
			case token.LSS:
				op = token.GTR
			case token.GTR:
				op = token.LSS
			case token.LEQ:
				op = token.GEQ
			case token.GEQ:
				op = token.LEQ
			}
		}
		if !kok {
			continue
		}
		// which edge implies pos >= 0 ?
		trueOK, falseOK := false, false
		switch op {
		case token.GEQ: // pos >= k
			trueOK = k >= 0
			falseOK = false
		case token.GTR: // pos > k
			trueOK = k >= -1
		case token.LSS: // pos < k  ; false: pos >= k
			falseOK = k >= 0
		case token.LEQ: // pos <= k ; false: pos > k
			falseOK = k >= -1
		case token.EQL: // pos == k
			trueOK = k >= 0
			falseOK = k == -1
		case token.NEQ:
			trueOK = k == -1
			falseOK = k >= 0
		}
		for _, u := range *bo.Referrers() {
			iff, ok := u.(*ssa.If)
			if !ok {
				continue
			}
			blk := iff.Block()
			if trueOK && edgeDominates(blk, blk.Succs[0], sink.Block()) {
				return true
			}
			if falseOK && edgeDominates(blk, blk.Succs[1], sink.Block()) {
				return true
			}
		}
	}
	return false
}

// edgeDominates: every path to target goes through the edge from→succ.
func edgeDominates(from, succ, target *ssa.BasicBlock) bool {
	if !succ.Dominates(target) {
		return false
	}
	// succ must be entered only through this edge (or through blocks it dominates)
	for _, pd := range succ.Preds {
		if pd != from && !succ.Dominates(pd) {
			return false
		}
	}
	return true
}

// ---------------------------------------------------------------------------
// R-LOCKSET

func ruleLockSet(p *Program, r *Reporter) {
	a := needAnchors(p, r)
	if a == nil {
		return
	}
	allowed := map[*ssa.Function]string{a.prepare: "Prepare", a.run: "Run"}
	found := map[*ssa.Function]token.Pos{}
	for _, fn := range p.LibFns {
		for _, b := range fn.Blocks {
			for _, ins := range b.Instrs {
				cc := callOf(ins)
				if cc == nil || cc.StaticCallee() == nil {
					continue
				}
				full := calleeFullName(cc)
				if full != "(*sync.Mutex).Lock" && full != "(*sync.RWMutex).Lock" && full != "(*sync.RWMutex).RLock" {
					continue
				}
				if _, isDefer := ins.(*ssa.Defer); isDefer {
					continue
				}
				owner, _, ok := fieldOf(cc.Args[0])
				if !ok || owner == nil || owner.Obj().Name() != "Eval" {
					continue
				}
				root := fn
				for root.Parent() != nil {
					root = root.Parent()
				}
				found[root] = ins.Pos()
			}
		}
	}
	var fns []*ssa.Function
	for fn := range found {
		fns = append(fns, fn)
	}
	sort.Slice(fns, func(i, j int) bool { return p.FnName(fns[i]) < p.FnName(fns[j]) })
	for _, fn := range fns {
		key := p.FnName(fn) + "/may take the evaluator's mutex"
		if _, ok := allowed[fn]; ok {
			r.OkNT(key, p.Pos(found[fn]), "entry point that owns the evaluator for its duration")
			continue
		}
		r.Fail(key, p.Pos(found[fn]), "this method takes the evaluator's (non-reentrant) mutex, which Run holds for the whole of Execute, host functions included: a host function that calls it on its own evaluator — to keep a running total with GetVariable/SetVariable, say — completes under Execute and blocks for ever under Run, so Run no longer fails or succeeds exactly when Execute does")
	}
	if len(found) == 0 {
		r.Undecided("evaluator mutex", "-", "no method takes a mutex held in Eval")
	}
}

// ---------------------------------------------------------------------------
// R-FMTCONST

var printfLike = map[string]int{ // callee → index of the format argument
	"fmt.Printf": 0, "fmt.Sprintf": 0, "fmt.Errorf": 0, "fmt.Fprintf": 1,
	"log.Printf": 0, "log.Fatalf": 0, "log.Panicf": 0,
	"(*log.Logger).Printf": 1, "(*log.Logger).Fatalf": 1,
}

func ruleFmtConst(p *Program, r *Reporter) {
	// the built-ins whose contract is "format with the script's format string"
	reg := registeredBuiltins(p)
	scriptFormat := map[*ssa.Function]bool{}
	for name, f := range reg {
		if name == "printf" || name == "sprintf" {
			scriptFormat[f] = true
		}
	}
	fns := append([]*ssa.Function{}, p.Fns...)
	// the repository's own formatting helpers: a function that hands one of its
	// parameters on as the format (and is only ever called directly) is judged
	// at its call sites
	wrapper := map[*ssa.Function]int{}
	formatIndex := func(cc *ssa.CallCommon) (int, bool) {
		if idx, ok := printfLike[calleeFullName(cc)]; ok {
			return idx, true
		}
		if idx, ok := wrapper[cc.StaticCallee()]; ok {
			return idx, true
		}
		return 0, false
	}
	valueUse := map[*ssa.Function]bool{}
	for _, fn := range fns {
		for _, b := range fn.Blocks {
			for _, ins := range b.Instrs {
				cc := callOf(ins)
				for _, op := range ins.Operands(nil) {
					if op == nil || *op == nil {
						continue
					}
					if f, ok := (*op).(*ssa.Function); ok && !(cc != nil && cc.Value == f) {
						valueUse[f] = true
					}
				}
			}
		}
	}
	for changed := true; changed; {
		changed = false
		for _, fn := range fns {
			if _, done := wrapper[fn]; done || valueUse[fn] || fnPkg(fn) == nil || !strings.HasPrefix(fnPkg(fn).Pkg.Path(), Mod) {
				continue
			}
			for _, b := range fn.Blocks {
				for _, ins := range b.Instrs {
					cc := callOf(ins)
					if cc == nil || cc.StaticCallee() == nil {
						continue
					}
					idx, ok := formatIndex(cc)
					if !ok || idx >= len(cc.Args) {
						continue
					}
					if pa, ok := cc.Args[idx].(*ssa.Parameter); ok && pa.Parent() == fn {
						for k, q := range fn.Params {
							if q == pa {
								if _, done := wrapper[fn]; !done {
									wrapper[fn] = k
									changed = true
								}
							}
						}
					}
				}
			}
		}
	}
	for _, fn := range fns {
		if fnPkg(fn) == nil || !strings.HasPrefix(fnPkg(fn).Pkg.Path(), Mod) {
			continue
		}
		for _, b := range fn.Blocks {
			for _, ins := range b.Instrs {
				cc := callOf(ins)
				if cc == nil || cc.StaticCallee() == nil {
					continue
				}
				full := calleeFullName(cc)
				idx, ok := formatIndex(cc)
				if !ok || idx >= len(cc.Args) {
					continue
				}
				if k, ok := wrapper[fn]; ok && cc.Args[idx] == ssa.Value(fn.Params[k]) {
					r.OkNT(siteKey(p, fn, ins.Pos(), "format of "+full+" is the caller's"), p.Pos(ins.Pos()), "the function hands its own format parameter on and is only called directly: judged at each of its call sites")
					continue
				}
				root := fn
				for root.Parent() != nil {
					root = root.Parent()
				}
				key := siteKey(p, fn, ins.Pos(), "format of "+full+" is a constant")
				f := cc.Args[idx]
				if c, ok := f.(*ssa.Const); ok && c.Value != nil && c.Value.Kind() == constant.String {
					r.Ok(key, p.Pos(ins.Pos()), "constant format")
					continue
				}
				if scriptFormat[root] {
					r.OkNT(key, p.Pos(ins.Pos()), "the printf/sprintf built-in: the format is the script's argument by contract")
					continue
				}
				r.Fail(key, p.Pos(ins.Pos()), "the format is computed at run time: text that was already formatted — a result's printed value, a script's source — is interpreted a second time, so any % in it is rewritten (`return \"%d items\";` is reported as `%!d(MISSING) items`) and the front end no longer reports what Execute returned")
			}
		}
	}
}

// ---------------------------------------------------------------------------
// R-BODYSTATE

func ruleBodyState(p *Program, r *Reporter) {
	a := needAnchors(p, r)
	if a == nil {
		return
	}
	fn := a.compile
	// the case that stores a compiled body into the function table: the clause
	// containing a MapUpdate on an Eval field
	clause := ""
	var at token.Pos
	for _, b := range fn.Blocks {
		for _, ins := range b.Instrs {
			if mu, ok := ins.(*ssa.MapUpdate); ok {
				if u, ok := mu.Map.(*ssa.UnOp); ok {
					if owner, _, ok := fieldOf(u.X); ok && owner != nil && owner.Obj().Name() == "Eval" {
						clause = outerCase(p, fn, mu.Pos())
						at = mu.Pos()
					}
				}
			}
		}
	}
	if clause == "" {
		r.Undecided("function-definition case", p.Pos(fn.Pos()), "no compiler case stores into the function table")
		return
	}
	// the recursive compile call(s) of that clause; Eval-field stores before and after
	var body *ssa.Call
	for _, b := range fn.Blocks {
		for _, ins := range b.Instrs {
			if c, ok := staticCalleeIs(ins, fn); ok && outerCase(p, fn, c.Pos()) == clause && body == nil {
				body = c
			}
		}
	}
	// the body may be compiled by a part of the compiler that the case calls:
	// the state is then set and put back there (and around the call)
	var bodyFn *ssa.Function
	var outer *ssa.Call
	if body == nil {
		for _, b := range fn.Blocks {
			for _, ins := range b.Instrs {
				c, ok := ins.(*ssa.Call)
				if !ok || outerCase(p, fn, c.Pos()) != clause || body != nil {
					continue
				}
				h := c.Call.StaticCallee()
				if h == nil || h == fn || fnPkg(h) == nil || fnPkg(h).Pkg.Path() != Mod || !recvNamed(h, "", "Eval") {
					continue
				}
				for _, hb := range h.Blocks {
					for _, hi := range hb.Instrs {
						if c2, ok := staticCalleeIs(hi, fn); ok && body == nil && len(c2.Call.Args) >= 2 {
							// it compiles a node it was given
							if _, isPrm := stripIfaceConv(c2.Call.Args[1]).(*ssa.Parameter); isPrm {
								body, bodyFn, outer = c2, h, c
							}
						}
					}
				}
				// … or it is handed the compilation of the body as a function
				// literal and runs it between setting the state and putting it back
				if body == nil {
					for k, arg := range c.Call.Args {
						mc, ok := arg.(*ssa.MakeClosure)
						if !ok || k >= len(h.Params) {
							continue
						}
						lit, ok := mc.Fn.(*ssa.Function)
						if !ok || len(callsTo(lit, fn)) == 0 {
							continue
						}
						for _, hb := range h.Blocks {
							for _, hi := range hb.Instrs {
								if dc, ok := hi.(*ssa.Call); ok && dc.Call.Value == ssa.Value(h.Params[k]) && body == nil {
									body, bodyFn, outer = dc, h, c
								}
							}
						}
					}
				}
			}
		}
	}
	if body == nil {
		r.Undecided("function-definition case", p.Pos(at), "the case does not compile a body")
		return
	}
	before := map[string]token.Pos{}
	after := map[string]bool{}
	if bodyFn != nil {
		for _, b := range bodyFn.Blocks {
			for _, ins := range b.Instrs {
				st, ok := ins.(*ssa.Store)
				if !ok {
					continue
				}
				owner, fld, ok := fieldOf(st.Addr)
				if !ok || owner == nil || owner.Obj().Name() != "Eval" {
					continue
				}
				switch {
				case dominatesInstr(st, body):
					before[fld] = st.Pos()
				case dominatesInstr(body, st):
					after[fld] = true
				}
			}
		}
		body = outer // for the stores of the case itself
	}
	for _, b := range fn.Blocks {
		for _, ins := range b.Instrs {
			st, ok := ins.(*ssa.Store)
			if !ok || outerCase(p, fn, st.Pos()) != clause {
				continue
			}
			owner, fld, ok := fieldOf(st.Addr)
			if !ok || owner == nil || owner.Obj().Name() != "Eval" {
				continue
			}
			switch {
			case dominatesInstr(st, body):
				before[fld] = st.Pos()
			case dominatesInstr(body, st):
				after[fld] = true
			}
		}
	}
	if len(before) == 0 {
		r.Undecided("compile/"+clause+"/per-body state", p.Pos(body.Pos()), "no Eval field is set before the body is compiled")
		return
	}
	var flds []string
	for f := range before {
		flds = append(flds, f)
	}
	sort.Strings(flds)
	for _, f := range flds {
		key := "compile/" + clause + "/Eval." + f + " set for the body is put back after it"
		r.Check(after[f], key, p.Pos(before[f]), "stored again after the body was compiled", "Eval."+f+" is reset when the body of a function definition starts but not restored when it ends: after a nested definition the enclosing body is compiled with the inner body's state — e.g. the compiler believes the outer body already ends in a return and omits the implicit one, leaving a function body without a return")
	}
}

// ---------------------------------------------------------------------------
// R-SEENTOKEN

func init() {
	register(&Rule{ID: "R-SEENTOKEN", Floor: 20, Run: ruleSeenToken,
		Text: "The parser never steps over a token it has not looked at: for every advance, either the token stepped onto was identified beforehand by one successful next-token test (the same kind on every path), or it is examined afterwards (dispatched on, tested, or handed to a sub-parser) before the next advance or the function's return. A construct is therefore never completed by stepping over 'whatever comes next' — the end of input included."})
}

// tokenTests finds curTokenIs / peekTokenIs: (token.Type) bool methods that read
// the current / next token and do not advance.
func tokenTests(pr *parserRoles) (curIs, peekIs *ssa.Function) {
	for _, fn := range pr.all {
		if fn.Parent() != nil || pr.isExpect(fn) {
			continue
		}
		ps, rs := sigParams(fn), sigResults(fn)
		if len(ps) != 1 || !isNamed(ps[0], "token", "Type") || len(rs) != 1 || !isBoolType(rs[0]) {
			continue
		}
		for _, b := range fn.Blocks {
			for _, ins := range b.Instrs {
				if fa, ok := ins.(*ssa.FieldAddr); ok {
					switch fieldKey(fa) {
					case "parser.Parser.curToken":
						curIs = fn
					case "parser.Parser.peekToken":
						peekIs = fn
					}
				}
			}
		}
	}
	return
}

// recordsParseError: the instruction appends to the parser's error list, or
// calls a method of the parser which does so on every path to its returns.
func recordsParseError(pr *parserRoles, ins ssa.Instruction) bool {
	return recordsParseErrorD(pr, ins, 0)
}

func recordsParseErrorD(pr *parserRoles, ins ssa.Instruction, depth int) bool {
	if isErrorRecord(pr, ins) {
		return true
	}
	c, ok := ins.(*ssa.Call)
	if !ok || depth > 3 {
		return false
	}
	cal := c.Call.StaticCallee()
	if cal == nil || len(cal.Blocks) == 0 || !recvNamed(cal, "parser", "Parser") {
		return false
	}
	recBlocks := recordingBlocks(pr, cal, depth)
	for _, b := range cal.Blocks {
		if _, ok := terminator(b).(*ssa.Return); !ok {
			continue
		}
		if !dominatedByOneOf(recBlocks, b) {
			return false
		}
	}
	return len(recBlocks) > 0
}

func isErrorRecord(pr *parserRoles, in ssa.Instruction) bool {
	st, ok := in.(*ssa.Store)
	if !ok || fieldKey(st.Addr) != pr.errorField {
		return false
	}
	_, isApp := isBuiltinCall(st.Val, "append")
	return isApp
}

// recordingBlocks: the blocks of cal in which an error is recorded (directly
// or by a method that always records one).
func recordingBlocks(pr *parserRoles, cal *ssa.Function, depth int) []*ssa.BasicBlock {
	var recBlocks []*ssa.BasicBlock
	for _, b := range cal.Blocks {
		for _, in := range b.Instrs {
			if recordsParseErrorD(pr, in, depth+1) {
				recBlocks = append(recBlocks, b)
				break
			}
		}
	}
	return recBlocks
}

func dominatedByOneOf(bs []*ssa.BasicBlock, b *ssa.BasicBlock) bool {
	for _, rb := range bs {
		if rb == b || rb.Dominates(b) {
			return true
		}
	}
	return false
}

// recordsWhenResult: cal has a boolean result, returns only constants, and
// every return of the constant `val` comes after an error was recorded: a
// caller that sees `val` knows the script has been rejected.
func recordsWhenResult(pr *parserRoles, cal *ssa.Function) (val bool, ok bool) {
	if cal == nil || len(cal.Blocks) == 0 || !recvNamed(cal, "parser", "Parser") || cal.Signature.Results().Len() != 1 {
		return false, false
	}
	if b, isB := cal.Signature.Results().At(0).Type().Underlying().(*types.Basic); !isB || b.Kind() != types.Bool {
		return false, false
	}
	recBlocks := recordingBlocks(pr, cal, 0)
	if len(recBlocks) == 0 {
		return false, false
	}
	for _, cand := range []bool{false, true} {
		good, n := true, 0
		for _, b := range cal.Blocks {
			ret, isRet := terminator(b).(*ssa.Return)
			if !isRet {
				continue
			}
			c, isC := returnOperand(ret, 0).(*ssa.Const)
			if !isC || c.Value == nil || c.Value.Kind() != constant.Bool {
				return false, false
			}
			if constant.BoolVal(c.Value) == cand {
				n++
				if !dominatedByOneOf(recBlocks, b) {
					good = false
				}
			}
		}
		if good && n > 0 {
			return cand, true
		}
	}
	return false, false
}

func ruleSeenToken(p *Program, r *Reporter) {
	pr := resolveParserRoles(p, r)
	if pr == nil {
		return
	}
	curIs, peekIs := tokenTests(pr)
	if peekIs == nil || curIs == nil {
		r.Undecided("token tests", "-", "cannot find the current-token / next-token test helpers")
		return
	}
	constTok := func(v ssa.Value) (string, bool) {
		c, ok := v.(*ssa.Const)
		if !ok || c.Value == nil || c.Value.Kind() != constant.String {
			return "", false
		}
		return constant.StringVal(c.Value), true
	}
	moves := func(c *ssa.Call) bool {
		cal := c.Call.StaticCallee()
		return cal == pr.advance || pr.isExpect(cal)
	}
	// examines: the call looks at the current token
	examDepth := 0
	var examines func(ins ssa.Instruction) bool
	// startsByExamining: on every path from g's entry the current token is
	// looked at before the parser advances or g returns
	startsByExamining := func(g *ssa.Function) bool {
		if len(g.Blocks) == 0 {
			return false
		}
		okAll := true
		seen := map[*ssa.BasicBlock]bool{}
		var w func(b *ssa.BasicBlock)
		w = func(b *ssa.BasicBlock) {
			if !okAll || seen[b] {
				return
			}
			seen[b] = true
			for _, in := range b.Instrs {
				if examines(in) {
					return
				}
				if c2, ok := in.(*ssa.Call); ok && moves(c2) {
					okAll = false
					return
				}
				if _, ok := in.(*ssa.Return); ok {
					okAll = false
					return
				}
			}
			for _, sc := range b.Succs {
				w(sc)
			}
		}
		w(g.Blocks[0])
		return okAll
	}
	examines = func(ins ssa.Instruction) bool {
		switch x := ins.(type) {
		case *ssa.Call:
			cal := x.Call.StaticCallee()
			if _, isBuiltin := x.Call.Value.(*ssa.Builtin); isBuiltin {
				return false // append, len, …: they look at nothing of the parser's
			}
			if cal == nil {
				return true // a parselet called through the tables dispatches on the current token
			}
			if cal == curIs {
				return true
			}
			if cal == pr.advance || pr.isExpect(cal) || cal == peekIs || cal == pr.peekPrec {
				return false
			}
			if fnPkg(cal) != nil && fnPkg(cal).Pkg.Path() == Mod+"/parser" && recvNamed(cal, "parser", "Parser") {
				// a sub-parser (or curPrecedence) starts from the current token;
				// so does any other method of the parser that looks at the
				// current token before it does anything else with the input
				if pr.parseFns[cal] || cal == pr.curPrec {
					return true
				}
				if examDepth < 3 {
					examDepth++
					ok := startsByExamining(cal)
					examDepth--
					return ok
				}
			}
		case *ssa.FieldAddr:
			// p.curToken.Type / .Literal read directly
			return fieldKey(x) == "parser.Parser.curToken"
		}
		return false
	}
	for _, fn := range pr.all {
		// the constructor primes the current and next token: nothing is skipped there
		if fn == pr.advance || pr.isExpect(fn) || !recvNamed(fn, "parser", "Parser") {
			continue
		}
		idx := 0
		for _, b := range fn.Blocks {
			for i, ins := range b.Instrs {
				c, ok := ins.(*ssa.Call)
				if !ok || c.Call.StaticCallee() != pr.advance {
					continue
				}
				idx++
				key := fmt.Sprintf("%s/advance %d lands on a token that was or will be looked at", p.FnName(fn), idx)
				// (1) examined afterwards on every path; a function that returns
				// right after the advance leaves the look to its callers
				var examinedAfter func(f *ssa.Function, bl *ssa.BasicBlock, from int, depth int, nonNil ssa.Value) bool
				examinedAfter = func(f *ssa.Function, bl *ssa.BasicBlock, from int, depth int, nonNil ssa.Value) bool {
					okAll := true
					type fwdState struct {
						b   *ssa.BasicBlock
						rec bool
					}
					seen := map[fwdState]bool{}
					var fwd func(bl *ssa.BasicBlock, from int, rec bool)
					fwd = func(bl *ssa.BasicBlock, from int, rec bool) {
						if !okAll {
							return
						}
						for j := from; j < len(bl.Instrs); j++ {
							in := bl.Instrs[j]
							if examines(in) {
								return
							}
							if recordsParseError(pr, in) {
								rec = true
							}
							if c2, ok := in.(*ssa.Call); ok && moves(c2) {
								okAll = false
								return
							}
							if _, ok := in.(*ssa.Return); ok {
								// a return after an error was recorded rejects the
								// script: nothing is accepted by not looking
								if rec {
									return
								}
								// otherwise every caller must look at the token
								if depth >= 2 {
									okAll = false
									return
								}
								// (the value returned on this path: when it is not nil the
								// caller's branch for a nil result is not taken)
								var retNonNil bool
								if rt, ok := in.(*ssa.Return); ok && len(rt.Results) == 1 && !isNilConst(rt.Results[0]) {
									if _, isPhi := rt.Results[0].(*ssa.Phi); !isPhi {
										retNonNil = true
									}
								}
								sites := 0
								for _, g := range pr.all {
									for _, gb := range g.Blocks {
										for gi, gin := range gb.Instrs {
											if c3, ok := staticCalleeIs(gin, f); ok && c3 != nil {
												sites++
												var nn ssa.Value
												if retNonNil {
													nn = c3
												}
												if !examinedAfter(g, gb, gi+1, depth+1, nn) {
													okAll = false
												}
											}
										}
									}
								}
								if sites == 0 {
									okAll = false
								}
								return
							}
						}
						succs := bl.Succs
						// `if !p.descend() { return nil }`: the helper's result says
						// that the error has been recorded
						if iff, ok := terminator(bl).(*ssa.If); ok && !rec && len(bl.Succs) == 2 {
							cond, neg := iff.Cond, false
							if u, ok := cond.(*ssa.UnOp); ok && u.Op == token.NOT {
								cond, neg = u.X, true
							}
							if cl, ok := cond.(*ssa.Call); ok {
								if val, ok := recordsWhenResult(pr, cl.Call.StaticCallee()); ok {
									recIdx := 0 // the successor on which the result is `val`
									if val == neg {
										recIdx = 1
									}
									for si, s := range bl.Succs {
										r2 := rec || si == recIdx
										if !seen[fwdState{s, r2}] {
											seen[fwdState{s, r2}] = true
											fwd(s, 0, r2)
										}
									}
									return
								}
							}
						}
						if nonNil != nil {
							if iff, ok := terminator(bl).(*ssa.If); ok {
								if bo, ok := iff.Cond.(*ssa.BinOp); ok && (bo.Op == token.EQL || bo.Op == token.NEQ) {
									x, y := bo.X, bo.Y
									if isNilConst(x) {
										x, y = y, x
									}
									for {
										if mi, ok := x.(*ssa.MakeInterface); ok {
											x = mi.X
											continue
										}
										break
									}
									if isNilConst(y) && x == nonNil {
										if bo.Op == token.EQL {
											succs = bl.Succs[1:2]
										} else {
											succs = bl.Succs[0:1]
										}
									}
								}
							}
						}
						for _, s := range succs {
							if !seen[fwdState{s, rec}] {
								seen[fwdState{s, rec}] = true
								fwd(s, 0, rec)
							}
						}
					}
					fwd(bl, from, false)
					return okAll
				}
				after := examinedAfter(fn, b, i+1, 0, nil)
				if after {
					r.Ok(key, p.Pos(c.Pos()), "the token is examined after the advance on every path")
					continue
				}
				// (2) identified beforehand: a successful peek test of one kind on every path
				kinds := map[string]bool{}
				unknown := ""
				type st struct {
					b *ssa.BasicBlock
				}
				visited := map[*ssa.BasicBlock]bool{}
				var back func(bl *ssa.BasicBlock, from int)
				backDepth := 0
				back = func(bl *ssa.BasicBlock, from int) {
					for j := from; j >= 0; j-- {
						if c2, ok := bl.Instrs[j].(*ssa.Call); ok {
							cal := c2.Call.StaticCallee()
							if moves(c2) || cal != nil && pr.parseFns[cal] || cal == nil {
								unknown = "after " + strings.TrimPrefix(callKey(p, fn, c2), "call ") + " the next token was not tested"
								return
							}
						}
					}
					if len(bl.Preds) == 0 {
						// the entry of a helper: what its callers did before the call
						// counts (`if p.peekTokenIs(ELSE) { alt, ok := p.parseElse() …`
						// with the advance at the top of parseElse)
						g := bl.Parent()
						sites := 0
						if backDepth < 2 {
							for _, cf := range pr.all {
								for _, cb := range cf.Blocks {
									for ci, cin := range cb.Instrs {
										if c3, ok := staticCalleeIs(cin, g); ok && c3 != nil {
											sites++
											backDepth++
											back(cb, ci-1)
											backDepth--
										}
									}
								}
							}
						}
						if sites == 0 {
							unknown = "no test of the next token on a path from the function's entry"
						}
						return
					}
					for _, pd := range bl.Preds {
						// did we come through the success edge of a peek test?
						if iff, ok := terminator(pd).(*ssa.If); ok {
							if pc, ok := iff.Cond.(*ssa.Call); ok && pc.Call.StaticCallee() == peekIs && pd.Succs[0] == bl && pd.Succs[1] != bl {
								// the test must be the last token-relevant thing in pd: no move after it
								moved := false
								for j := instrIndex(pc) + 1; j < len(pd.Instrs); j++ {
									if c3, ok := pd.Instrs[j].(*ssa.Call); ok && moves(c3) {
										moved = true
									}
								}
								if !moved {
									if k, ok := constTok(pc.Call.Args[1]); ok {
										kinds[k] = true
									} else {
										kinds["(a token kind passed in as a parameter)"] = true
									}
									continue
								}
							}
						}
						if visited[pd] {
							continue
						}
						visited[pd] = true
						back(pd, len(pd.Instrs)-1)
					}
				}
				back(b, i-1)
				var ks []string
				for k := range kinds {
					ks = append(ks, k)
				}
				sort.Strings(ks)
				switch {
				case unknown != "":
					r.Fail(key, p.Pos(c.Pos()), "the parser steps onto a token that nothing looks at before the next advance or return, and "+unknown+": any token — the end of input too — is accepted in this place and silently dropped, so an invalid script is accepted")
				case len(ks) != 1:
					r.Fail(key, p.Pos(c.Pos()), "the token stepped over is one of "+strings.Join(ks, ", ")+" depending on the path, and nothing looks at it afterwards: the construct is completed by whichever of them comes — e.g. a literal cut off by the end of input is returned as if its closing bracket had been there")
				default:
					r.OkNT(key, p.Pos(c.Pos()), "identified beforehand as "+ks[0]+" by a successful next-token test on every path")
				}
			}
		}
	}
}

// ---------------------------------------------------------------------------
// R-TOKENPROGRESS

func init() {
	register(&Rule{ID: "R-TOKENPROGRESS", Floor: 1, Run: ruleTokenProgress,
		Text: "Every return of the lexer's NextToken has consumed at least one character since the call began: directly, through a reader that always advances, through a reader whose loop is entered because the very predicate that selected it holds for the current character, or because the text a reader returned is non-empty. A token that consumes nothing would be produced for ever."})
}

// paramGuardHolds: cal is a reader whose loop tests one of its parameters on
// the current character, the call passes a named predicate for it, and that
// predicate is known to hold for the current character here.
func paramGuardHolds(guardedParam map[*ssa.Function]int, cal *ssa.Function, cc *ssa.CallCommon, guards map[*ssa.Function]bool) bool {
	idx, ok := guardedParam[cal]
	if !ok || idx >= len(cc.Args) {
		return false
	}
	v := cc.Args[idx]
	if ct, ok := v.(*ssa.ChangeType); ok {
		v = ct.X
	}
	q, ok := v.(*ssa.Function)
	return ok && guards[q]
}

func ruleTokenProgress(p *Program, r *Reporter) {
	a := needAnchors(p, r)
	if a == nil {
		return
	}
	adv := lexAdvance(p)
	if adv == nil {
		r.Undecided("advance function", "-", "no lexer method stores the read position")
		return
	}
	fns := lexerFns(p)
	isLex := map[*ssa.Function]bool{}
	for _, f := range fns {
		isLex[f] = true
	}
	// always[F]: every path entry→return passes an advancing call
	always := map[*ssa.Function]bool{adv: true}
	advCall := func(ins ssa.Instruction) bool {
		cc := callOf(ins)
		if cc == nil || cc.StaticCallee() == nil {
			return false
		}
		if _, isDefer := ins.(*ssa.Defer); isDefer {
			return false
		}
		return always[cc.StaticCallee()]
	}
	mustAdvance := func(fn *ssa.Function) bool {
		// can a return be reached from entry without crossing an advancing call?
		if len(fn.Blocks) == 0 {
			return false
		}
		seen := map[*ssa.BasicBlock]bool{}
		var w func(b *ssa.BasicBlock) bool // true if a return is reachable without advancing
		w = func(b *ssa.BasicBlock) bool {
			if seen[b] {
				return false
			}
			seen[b] = true
			for _, ins := range b.Instrs {
				if advCall(ins) {
					return false
				}
				if _, ok := ins.(*ssa.Return); ok {
					return true
				}
			}
			for _, s := range b.Succs {
				if w(s) {
					return true
				}
			}
			return false
		}
		return !w(fn.Blocks[0])
	}
	for changed := true; changed; {
		changed = false
		for _, f := range fns {
			if !always[f] && f != a.lexNext && mustAdvance(f) {
				always[f] = true
				changed = true
			}
		}
	}
	// chTest: v is Q(l.ch) for a predicate function Q; returns Q
	chTest := func(v ssa.Value) *ssa.Function {
		c, ok := v.(*ssa.Call)
		if !ok || c.Call.StaticCallee() == nil || len(c.Call.Args) != 1 {
			return nil
		}
		ld, ok := c.Call.Args[0].(*ssa.UnOp)
		if !ok || ld.Op != token.MUL || fieldKey(ld.X) != "lexer.Lexer.ch" {
			return nil
		}
		return c.Call.StaticCallee()
	}
	// guarded[F] = Q: F advances at least once when Q(l.ch) holds on entry
	guarded := map[*ssa.Function]*ssa.Function{}
	guardedParam := map[*ssa.Function]int{} // the reader's own loop tests parameter #i on l.ch
	pendingParam := -1
	var guardOf func(fn *ssa.Function, depth int) *ssa.Function
	guardOf = func(fn *ssa.Function, depth int) *ssa.Function {
		if depth > 4 || len(fn.Blocks) == 0 {
			return nil
		}
		b := fn.Blocks[0]
		for steps := 0; steps < 4; steps++ {
			for _, ins := range b.Instrs {
				if advCall(ins) {
					return nil
				}
				if cc := callOf(ins); cc != nil && cc.StaticCallee() != nil && isLex[cc.StaticCallee()] && cc.StaticCallee().Signature.Recv() != nil {
					// first lexer-method call on the straight-line prefix
					if idx, ok := guardedParam[cc.StaticCallee()]; ok && idx < len(cc.Args) {
						// a reader that tests the predicate it is handed: the one
						// handed here
						v := cc.Args[idx]
						if ct, ok := v.(*ssa.ChangeType); ok {
							v = ct.X
						}
						q, _ := v.(*ssa.Function)
						return q
					}
					return guardOf(cc.StaticCallee(), depth+1)
				}
			}
			iff, ok := terminator(b).(*ssa.If)
			if ok {
				q := chTest(iff.Cond)
				if q == nil {
					// the predicate may be a parameter of the reader: Q is then what
					// each caller passes
					if c, isCall := iff.Cond.(*ssa.Call); isCall && len(c.Call.Args) == 1 {
						if prm, isPrm := c.Call.Value.(*ssa.Parameter); isPrm {
							if ld, ok := c.Call.Args[0].(*ssa.UnOp); ok && ld.Op == token.MUL && fieldKey(ld.X) == "lexer.Lexer.ch" {
								for i, pr := range fn.Params {
									if pr == prm {
										pendingParam = i
									}
								}
							}
						}
					}
					if pendingParam < 0 {
						return nil
					}
				}
				// the true successor must advance before it comes back or returns
				seen := map[*ssa.BasicBlock]bool{b: true}
				var w func(x *ssa.BasicBlock) bool // reaches header/return without advancing
				w = func(x *ssa.BasicBlock) bool {
					if x == b {
						return true
					}
					if seen[x] {
						return false
					}
					seen[x] = true
					for _, ins := range x.Instrs {
						if advCall(ins) {
							return false
						}
						if _, ok := ins.(*ssa.Return); ok {
							return true
						}
					}
					for _, s := range x.Succs {
						if w(s) {
							return true
						}
					}
					return false
				}
				seen = map[*ssa.BasicBlock]bool{}
				if w(b.Succs[0]) {
					pendingParam = -1
					return nil
				}
				if q == nil && pendingParam >= 0 && depth == 0 {
					guardedParam[fn] = pendingParam
				}
				pendingParam = -1
				return q
			}
			if len(b.Succs) != 1 {
				return nil
			}
			b = b.Succs[0]
		}
		return nil
	}
	for pass := 0; pass < 2; pass++ { // readers with a predicate parameter first, then their callers
		for _, f := range fns {
			if q := guardOf(f, 0); q != nil && !always[f] {
				guarded[f] = q
			}
		}
	}
	// accumulates[F]: F returns a string that is "" or grown only in blocks that advance
	accumulates := map[*ssa.Function]bool{}
	// the position field, and who writes it
	posField := ""
	for _, b := range adv.Blocks {
		for _, ins := range b.Instrs {
			if st, ok := ins.(*ssa.Store); ok {
				if k := fieldKey(st.Addr); strings.HasPrefix(k, "lexer.Lexer.") && isInt(deref(st.Addr.Type())) && posField == "" {
					posField = k
				}
			}
		}
	}
	posWriters := map[*ssa.Function]bool{}
	for _, f := range fns {
		for _, b := range f.Blocks {
			for _, ins := range b.Instrs {
				if st, ok := ins.(*ssa.Store); ok && posField != "" && fieldKey(st.Addr) == posField {
					posWriters[f] = true
				}
			}
		}
	}
	for pass := 0; pass < 3; pass++ {
		for _, f := range fns {
			rs := sigResults(f)
			if len(rs) != 1 || !isStringType(rs[0]) || accumulates[f] {
				continue
			}
			ok := true
			n := 0
			for _, b := range f.Blocks {
				ret, isRet := terminator(b).(*ssa.Return)
				if !isRet {
					continue
				}
				seen := map[ssa.Value]bool{}
				var chk func(v ssa.Value)
				chk = func(v ssa.Value) {
					if seen[v] {
						return
					}
					seen[v] = true
					switch x := v.(type) {
					case *ssa.Const:
						if x.Value == nil || x.Value.Kind() != constant.String || constant.StringVal(x.Value) != "" {
							ok = false
						}
					case *ssa.Phi:
						for _, e := range x.Edges {
							chk(e)
						}
					case *ssa.BinOp:
						if x.Op != token.ADD {
							ok = false
							return
						}
						n++
						has := false
						for _, ins := range x.Block().Instrs {
							if advCall(ins) {
								has = true
							}
						}
						if !has {
							ok = false
						}
						chk(x.X)
					case *ssa.Call:
						// what another such reader returned
						if c := x.Call.StaticCallee(); c != nil && accumulates[c] {
							n++
							return
						}
						ok = false
					case *ssa.Convert:
						// the text between the position the reader started at and
						// the position it stopped at: not empty only if the position
						// moved, and only the advancing function moves it
						sl, isSl := x.X.(*ssa.Slice)
						if !isSl || sl.Low == nil || sl.High == nil || len(posWriters) != 1 || !posWriters[adv] {
							ok = false
							return
						}
						lo, isLo := sl.Low.(*ssa.UnOp)
						hi, isHi := sl.High.(*ssa.UnOp)
						if !isLo || !isHi || fieldKey(lo.X) != posField || fieldKey(hi.X) != posField {
							ok = false
							return
						}
						// the start is read before anything advances
						for _, bb := range f.Blocks {
							for _, ins := range bb.Instrs {
								if advCall(ins) && !dominatesInstr(lo, ins) {
									ok = false
								}
							}
						}
						n++
					default:
						ok = false
					}
				}
				chk(returnOperand(ret, 0))
			}
			if ok && n > 0 {
				accumulates[f] = true
			}
		}
	}
	// must-dataflow over the token function — and, with the same rules, over
	// the functions it hands the work to: one of those whose every return has
	// consumed input counts as a reader that always advances
	type fact struct {
		adv    bool
		guards map[*ssa.Function]bool
	}
	top := func() *fact { return nil } // nil = unvisited (top)
	meet := func(x, y *fact) *fact {
		if x == nil {
			return y
		}
		if y == nil {
			return x
		}
		out := &fact{adv: x.adv && y.adv, guards: map[*ssa.Function]bool{}}
		for g := range x.guards {
			if y.guards[g] {
				out.guards[g] = true
			}
		}
		return out
	}
	clone := func(x *fact) *fact {
		out := &fact{adv: x.adv, guards: map[*ssa.Function]bool{}}
		for g := range x.guards {
			out.guards[g] = true
		}
		return out
	}
	equal := func(x, y *fact) bool {
		if x == nil || y == nil {
			return x == y
		}
		if x.adv != y.adv || len(x.guards) != len(y.guards) {
			return false
		}
		for g := range x.guards {
			if !y.guards[g] {
				return false
			}
		}
		return true
	}
	transfer := func(b *ssa.BasicBlock, in *fact) *fact {
		out := clone(in)
		for _, ins := range b.Instrs {
			cc := callOf(ins)
			if cc == nil {
				continue
			}
			if _, isDefer := ins.(*ssa.Defer); isDefer {
				continue
			}
			if cc.StaticCallee() == nil {
				// a reader taken from a table of the package's own functions:
				// every one of them always advances
				if _, hs, ok := moduleFuncTable(p, cc.Value); ok && !cc.IsInvoke() {
					all := len(hs) > 0
					for _, h := range hs {
						if !always[h] {
							all = false
						}
					}
					if all {
						out.adv = true
					}
					out.guards = map[*ssa.Function]bool{}
				}
				continue
			}
			cal := cc.StaticCallee()
			switch {
			case always[cal]:
				out.adv = true
				out.guards = map[*ssa.Function]bool{}
			case guarded[cal] != nil && out.guards[guarded[cal]]:
				out.adv = true
				out.guards = map[*ssa.Function]bool{}
			case paramGuardHolds(guardedParam, cal, cc, out.guards):
				out.adv = true
				out.guards = map[*ssa.Function]bool{}
			case isLex[cal] && cal.Signature.Recv() != nil && !purePeek(cal):
				// may or may not have advanced: the guards no longer describe l.ch
				out.guards = map[*ssa.Function]bool{}
			}
		}
		return out
	}
	edge := func(pd, b *ssa.BasicBlock, out *fact) *fact {
		iff, ok := terminator(pd).(*ssa.If)
		if !ok || pd.Succs[0] == pd.Succs[1] {
			return out
		}
		onTrue := pd.Succs[0] == b
		if q := chTest(iff.Cond); q != nil && onTrue {
			// the test must be evaluated after the last lexer call of pd
			c := iff.Cond.(*ssa.Call)
			late := true
			for j := instrIndex(c) + 1; j < len(pd.Instrs); j++ {
				if cc := callOf(pd.Instrs[j]); cc != nil && cc.StaticCallee() != nil && isLex[cc.StaticCallee()] {
					late = false
				}
			}
			if late {
				o := clone(out)
				o.guards[q] = true
				return o
			}
		}
		// len(F()) > 0 with F accumulating
		if bo, ok := iff.Cond.(*ssa.BinOp); ok {
			var lenArg ssa.Value
			nonEmptyOnTrue := false
			if lc, ok := isBuiltinCall(bo.X, "len"); ok {
				if k, kok := constInt(bo.Y); kok {
					lenArg = lc.Call.Args[0]
					nonEmptyOnTrue = (bo.Op == token.GTR && k >= 0) || (bo.Op == token.GEQ && k >= 1) || (bo.Op == token.NEQ && k == 0)
					if (bo.Op == token.EQL && k == 0) || (bo.Op == token.LEQ && k == 0) || (bo.Op == token.LSS && k == 1) {
						// non-empty on the false edge
						if !onTrue {
							nonEmptyOnTrue, onTrue = true, true
						} else {
							lenArg = nil
						}
					}
				}
			}
			if bo.Op == token.NEQ || bo.Op == token.EQL {
				if c, ok := bo.Y.(*ssa.Const); ok && c.Value != nil && c.Value.Kind() == constant.String && constant.StringVal(c.Value) == "" {
					lenArg = bo.X
					nonEmptyOnTrue = bo.Op == token.NEQ
					if bo.Op == token.EQL && !onTrue {
						nonEmptyOnTrue, onTrue = true, true
					}
				}
			}
			if lenArg != nil && nonEmptyOnTrue && onTrue {
				// a field of a local struct (tok.Literal): the value stored last in this block
				if ld, ok := lenArg.(*ssa.UnOp); ok && ld.Op == token.MUL {
					if fa, ok := ld.X.(*ssa.FieldAddr); ok {
						if al, ok := fa.X.(*ssa.Alloc); ok {
							for j := instrIndex(ld) - 1; j >= 0 && ld.Block() == pd; j-- {
								st, ok := pd.Instrs[j].(*ssa.Store)
								if !ok {
									continue
								}
								if fa2, ok := st.Addr.(*ssa.FieldAddr); ok && fa2.X == ssa.Value(al) && fa2.Field == fa.Field {
									lenArg = st.Val
									break
								}
								if st.Addr == ssa.Value(al) {
									break
								}
							}
						}
					}
				}
				for _, o := range origins(lenArg) {
					if c, ok := o.(*ssa.Call); ok && c.Call.StaticCallee() != nil && accumulates[c.Call.StaticCallee()] {
						o2 := clone(out)
						o2.adv = true
						return o2
					}
				}
			}
		}
		return out
	}
	var fn *ssa.Function
	// flow: the first return of fn that is reached without input having been
	// consumed ("" when there is none), and the number of returns
	flow := func(f *ssa.Function) (string, int) {
		fn = f
		in := map[*ssa.BasicBlock]*fact{}
		outF := map[*ssa.BasicBlock]*fact{}
		for _, b := range fn.Blocks {
			in[b], outF[b] = top(), top()
		}
		in[fn.Blocks[0]] = &fact{guards: map[*ssa.Function]bool{}}
		for changed, iter := true, 0; changed && iter < 200; iter++ {
			changed = false
			for _, b := range fn.Blocks {
				var cur *fact
				if b == fn.Blocks[0] {
					cur = &fact{guards: map[*ssa.Function]bool{}}
				}
				for _, pd := range b.Preds {
					if outF[pd] == nil {
						continue
					}
					cur = meet(cur, edge(pd, b, outF[pd]))
				}
				if cur == nil {
					continue
				}
				if !equal(cur, in[b]) {
					in[b] = cur
					changed = true
				}
				o := transfer(b, cur)
				if !equal(o, outF[b]) {
					outF[b] = o
					changed = true
				}
			}
		}
		nret := 0
		bad := ""
		for _, b := range fn.Blocks {
			ret, ok := terminator(b).(*ssa.Return)
			if !ok || outF[b] == nil {
				continue
			}
			nret++
			if !outF[b].adv && bad == "" {
				bad = p.Pos(ret.Pos())
				if !ret.Pos().IsValid() {
					bad = p.Pos(firstPos(b))
				}
			}
		}
		return bad, nret
	}
	// functions that produce a token (or its text) and consume input on every
	// path, by the same reasoning: readers that always advance
	lexFuncs := append([]*ssa.Function{}, fns...)
	for _, f := range p.LibFns {
		if f.Parent() != nil && fnPkg(f) != nil && fnPkg(f).Pkg.Path() == Mod+"/lexer" && !isLex[f] {
			lexFuncs = append(lexFuncs, f)
		}
	}
	for changed := true; changed; {
		changed = false
		for _, f := range lexFuncs {
			if always[f] || f == a.lexNext || len(f.Blocks) == 0 {
				continue
			}
			if bad, n := flow(f); bad == "" && n > 0 {
				always[f] = true
				changed = true
			}
		}
	}
	key := "every token returned by NextToken has consumed input"
	bad, nret := flow(a.lexNext)
	var gs []string
	for f, q := range guarded {
		gs = append(gs, f.Name()+" when "+q.Name()+"(ch)")
	}
	sort.Strings(gs)
	if bad != "" {
		r.Fail(key, bad, "a path to this return consumes no character: no advance, no reader that always advances, no reader entered under the predicate its own loop uses ("+strings.Join(gs, "; ")+"), no non-empty text from a reader. If the branch is selected by a wider test than the reader's loop applies — a Unicode-digit test in front of an ASCII-digit loop — the same empty token is returned for ever and tokenisation does not terminate")
		return
	}
	r.OkNT(key, p.Pos(fn.Pos()), fmt.Sprintf("%d returns; readers entered under their own loop predicate: %s", nret, strings.Join(gs, "; ")))
}

// purePeek: a lexer method that stores nothing into the lexer (peekChar).
func purePeek(fn *ssa.Function) bool {
	for _, b := range fn.Blocks {
		for _, ins := range b.Instrs {
			switch x := ins.(type) {
			case *ssa.Store:
				if _, isAlloc := x.Addr.(*ssa.Alloc); !isAlloc {
					return false
				}
			case *ssa.Call:
				if x.Call.StaticCallee() == nil || fnPkg(x.Call.StaticCallee()) != nil && strings.HasPrefix(fnPkg(x.Call.StaticCallee()).Pkg.Path(), Mod) {
					return false
				}
			}
		}
	}
	return true
}

// ---------------------------------------------------------------------------
// R-JOINSHAPE

func init() {
	register(&Rule{ID: "R-JOINSHAPE", Floor: 2, Run: ruleJoinShape,
		Text: "The join built-in builds its result only by concatenating the elements' text and the separator (or delegates to strings.Join): the result is not post-processed, and whether a separator is written is decided by position (index, length, constants), never by the text accumulated or the element's content. Placement that depends on content is wrong for some array with empty elements, so join(split(s, d), d) would not be s."})
}

func ruleJoinShape(p *Program, r *Reporter) {
	fn := registeredBuiltins(p)["join"]
	if fn == nil {
		r.Undecided("join built-in", "-", "no function is registered under the name join")
		return
	}
	keyA := p.FnName(fn) + "/result is the concatenation of elements and separators only"
	keyB := p.FnName(fn) + "/separator placement is decided by position, not by content"
	// the text stored into the returned String
	var results []ssa.Value
	for _, b := range fn.Blocks {
		for _, ins := range b.Instrs {
			st, ok := ins.(*ssa.Store)
			if !ok {
				continue
			}
			if owner, fld, ok := fieldOf(st.Addr); ok && owner != nil && owner.Obj().Name() == "String" && fld == "Value" {
				results = append(results, st.Val)
			}
		}
	}
	if len(results) == 0 {
		r.Undecided(keyA, p.Pos(fn.Pos()), "the function does not build a String result")
		return
	}
	isSep := func(v ssa.Value) bool {
		ld, ok := v.(*ssa.UnOp)
		if !ok || ld.Op != token.MUL {
			return false
		}
		owner, fld, ok := fieldOf(ld.X)
		return ok && owner != nil && owner.Obj().Name() == "String" && fld == "Value"
	}
	bad := ""
	var badPos token.Pos
	var sepAdds []*ssa.BinOp
	seen := map[ssa.Value]bool{}
	var walk func(v ssa.Value)
	walk = func(v ssa.Value) {
		if seen[v] || bad != "" {
			return
		}
		seen[v] = true
		switch x := v.(type) {
		case *ssa.Const:
			return
		case *ssa.Phi:
			for _, e := range x.Edges {
				walk(e)
			}
		case *ssa.BinOp:
			if x.Op != token.ADD {
				bad, badPos = "an operation other than concatenation ("+x.Op.String()+")", x.Pos()
				return
			}
			if isSep(x.X) || isSep(x.Y) {
				sepAdds = append(sepAdds, x)
			}
			walk(x.X)
			walk(x.Y)
		case *ssa.UnOp:
			if isSep(x) {
				return
			}
			bad, badPos = "a value that is neither an element's text nor the separator", x.Pos()
		case *ssa.Call:
			if x.Call.IsInvoke() && x.Call.Method.Name() == "Inspect" {
				return
			}
			if x.Call.StaticCallee() != nil && calleeFullName(&x.Call) == "strings.Join" {
				return
			}
			name := "a call"
			if x.Call.StaticCallee() != nil {
				name = calleeFullName(&x.Call)
			}
			bad, badPos = "the accumulated text is passed through "+name, x.Pos()
		default:
			bad, badPos = "a value that is neither an element's text nor the separator ("+v.String()+")", token.NoPos
		}
	}
	for _, v := range results {
		walk(v)
	}
	if bad != "" {
		r.Fail(keyA, p.Pos(badPos), "the result of join is post-processed: "+bad+" — trimming separator characters from the joined text also removes characters that belong to the last (or first) element, so join([\"a\", \"b-\"], \"-\") loses the trailing \"-\" and join(split(s, d), d) is not s")
	} else {
		r.OkNT(keyA, p.Pos(fn.Pos()), "only concatenation of Inspect() texts and the separator reaches the result")
	}
	// conditions that decide whether the separator is written
	why := ""
	var whyPos token.Pos
	for _, add := range sepAdds {
		b := add.Block()
		for d := b.Idom(); d != nil; d = d.Idom() {
			iff, ok := terminator(d).(*ssa.If)
			if !ok || !blockReaches(b, d, nil) {
				continue
			}
			// b is control dependent on d when only one successor leads to it without passing d again
			s0 := d.Succs[0] == b || d.Succs[0].Dominates(b)
			s1 := d.Succs[1] == b || d.Succs[1].Dominates(b)
			if s0 == s1 {
				continue
			}
			seenC := map[ssa.Value]bool{}
			var usesText func(v ssa.Value, depth int) bool
			usesText = func(v ssa.Value, depth int) bool {
				if seenC[v] || depth > 8 {
					return false
				}
				seenC[v] = true
				if isStringType(v.Type()) {
					return true
				}
				switch x := v.(type) {
				case *ssa.BinOp:
					return usesText(x.X, depth+1) || usesText(x.Y, depth+1)
				case *ssa.UnOp:
					return usesText(x.X, depth+1)
				case *ssa.Phi:
					for _, e := range x.Edges {
						if usesText(e, depth+1) {
							return true
						}
					}
				case *ssa.Call:
					if _, isLen := isBuiltinCall(x, "len"); isLen {
						// len of the element slice is position information; len of text is content
						return isStringType(x.Call.Args[0].Type())
					}
					return true
				}
				return false
			}
			if usesText(iff.Cond, 0) {
				why, whyPos = "the test that guards the separator reads text (the accumulated result or an element)", iff.Cond.Pos()
			}
		}
	}
	if why != "" {
		r.Fail(keyB, p.Pos(whyPos), why+": `if out != \"\" { out += sep }` drops the separator after every leading empty element, so join([\"\", \"x\"], \"/\") is \"x\" and join(split(\"/usr\", \"/\"), \"/\") is \"usr\"")
	} else {
		r.OkNT(keyB, p.Pos(fn.Pos()), fmt.Sprintf("%d separator concatenations, guarded by index/length tests only", len(sepAdds)))
	}
}

// ---------------------------------------------------------------------------
// R-FOLDARITY

func init() {
	register(&Rule{ID: "R-FOLDARITY", Floor: 10, Run: ruleFoldArity,
		Text: "Inside the constant folder every write into the bytecode is made only when as many pending constants are known as the operator has operands (two for the binary operators and comparisons, one for √): a rewrite that fires with fewer constants replaces an operation whose other operand is an arbitrary run-time value — of any type — by something that no longer checks or computes it."})
}

func ruleFoldArity(p *Program, r *Reporter) {
	a := needAnchors(p, r)
	if a == nil {
		return
	}
	// the fold pass: the walker callback that appends to a captured list in its OpPush case
	var fold *ssa.Function
	// the pending list lives in a captured variable (callback written as a
	// function literal) or in a field of the callback's receiver (written as a
	// method)
	isListAddr := func(fn *ssa.Function, v ssa.Value) bool {
		if _, isFree := v.(*ssa.FreeVar); isFree {
			return true
		}
		if fa, ok := v.(*ssa.FieldAddr); ok && fn.Signature.Recv() != nil && len(fn.Params) > 0 && fa.X == ssa.Value(fn.Params[0]) {
			_, isSlice := deref(fa.Type()).Underlying().(*types.Slice)
			return isSlice
		}
		return false
	}
	sameAddr := func(a, b ssa.Value) bool {
		if a == b {
			return true
		}
		fa, ok1 := a.(*ssa.FieldAddr)
		fb, ok2 := b.(*ssa.FieldAddr)
		return ok1 && ok2 && fa.X == fb.X && fa.Field == fb.Field
	}
	for _, fn := range p.LibFns {
		if !isWalkerCallback(fn) || fnPkg(fn).Pkg.Path() != Mod+"/vm" {
			continue
		}
		for _, b := range fn.Blocks {
			for _, ins := range b.Instrs {
				if st, ok := ins.(*ssa.Store); ok && isListAddr(fn, st.Addr) {
					if _, isApp := isBuiltinCall(st.Val, "append"); isApp && strings.Contains(outerCase(p, fn, st.Pos()), "OpPush") {
						fold = fn
					}
				}
			}
		}
	}
	if fold == nil {
		r.Undecided("constant folder", "-", "cannot find the walker callback that collects constant pushes")
		return
	}
	// the pending list: the captured variable appended to
	var list ssa.Value
	for _, b := range fold.Blocks {
		for _, ins := range b.Instrs {
			if st, ok := ins.(*ssa.Store); ok && isListAddr(fold, st.Addr) {
				if _, isApp := isBuiltinCall(st.Val, "append"); isApp {
					list = st.Addr
				}
			}
		}
	}
	nth := map[string]int{}
	// a write into the program: a store to one of its bytes, or a call of a
	// function that makes such stores on the caller's behalf
	storesCode := func(f *ssa.Function) int {
		n := 0
		for _, b := range f.Blocks {
			for _, ins := range b.Instrs {
				if st, ok := ins.(*ssa.Store); ok {
					if ia, ok := st.Addr.(*ssa.IndexAddr); ok {
						if ld, ok := ia.X.(*ssa.UnOp); ok && isByteSlice(ld.Type()) {
							if _, isField := ld.X.(*ssa.FieldAddr); isField {
								n++
							}
						}
					}
				}
			}
		}
		return n
	}
	for _, b := range fold.Blocks {
		for _, ins := range b.Instrs {
			var st ssa.Instruction
			weight := 1
			switch x := ins.(type) {
			case *ssa.Store:
				ia, ok := x.Addr.(*ssa.IndexAddr)
				if !ok {
					continue
				}
				ld, ok := ia.X.(*ssa.UnOp)
				if !ok || !isByteSlice(ld.Type()) {
					continue
				}
				if _, isField := ld.X.(*ssa.FieldAddr); !isField {
					continue
				}
				st = x
			case *ssa.Call:
				cal := x.Call.StaticCallee()
				if cal == nil || fnPkg(cal) == nil || fnPkg(cal).Pkg.Path() != Mod+"/vm" || cal == fold {
					continue
				}
				if w := storesCode(cal); w > 0 {
					st, weight = x, w
				} else {
					continue
				}
			default:
				continue
			}
			_ = weight
			label := outerCase(p, fold, st.Pos())
			need := int64(2)
			if strings.Contains(label, "OpSquareRoot") {
				need = 1
			}
			nth[label]++
			key := fmt.Sprintf("%s/%s/bytecode write %d needs %d pending constant(s)", p.FnName(fold), label, nth[label], need)
			// a dominating test len(list) >= need (or > need-1) on its true edge,
			// or len(list) < need on its false edge
			// the variable a captured variable stands for, in whichever literal
			cellOf := func(v ssa.Value) ssa.Value {
				for i := 0; i < 3; i++ {
					fv, ok := v.(*ssa.FreeVar)
					if !ok {
						return v
					}
					g := fv.Parent()
					idx := -1
					for j, q := range g.FreeVars {
						if q == fv {
							idx = j
						}
					}
					if idx < 0 || g.Parent() == nil {
						return v
					}
					var bound ssa.Value
					for _, pb := range g.Parent().Blocks {
						for _, pi := range pb.Instrs {
							if mc, ok := pi.(*ssa.MakeClosure); ok && mc.Fn == ssa.Value(g) && idx < len(mc.Bindings) {
								bound = mc.Bindings[idx]
							}
						}
					}
					if bound == nil {
						return v
					}
					v = bound
				}
				return v
			}
			var enough func(at *ssa.BasicBlock, isList func(v ssa.Value) bool) bool
			enough = func(at *ssa.BasicBlock, isList func(v ssa.Value) bool) bool {
				for cur := at; cur.Idom() != nil; cur = cur.Idom() {
					d := cur.Idom()
					iff, ok := terminator(d).(*ssa.If)
					if !ok {
						continue
					}
					onTrue := (d.Succs[0] == at || d.Succs[0].Dominates(at)) && len(d.Succs[0].Preds) == 1
					onFalse := (d.Succs[1] == at || d.Succs[1].Dominates(at)) && len(d.Succs[1].Preds) == 1
					// the test made by a function literal (or function) of the module
					// that says so in a boolean result: `a, b, ok := operands(); ok`
					if onTrue {
						var call *ssa.Call
						ridx := 0
						switch c := iff.Cond.(type) {
						case *ssa.Extract:
							call, _ = c.Tuple.(*ssa.Call)
							ridx = c.Index
						case *ssa.Call:
							call = c
						}
						if call != nil {
							var targets []*ssa.Function
							if sc := call.Call.StaticCallee(); sc != nil && fnPkg(sc) != nil && IsLibPath(fnPkg(sc).Pkg.Path()) {
								targets = []*ssa.Function{sc}
							} else if fs, ok := localClosureTargets(call.Call.Value, 0); ok {
								targets = fs
							}
							okAll := len(targets) > 0
							for _, t := range targets {
								rs := sigResults(t)
								if ridx >= len(rs) || !isBoolType(rs[ridx]) {
									okAll = false
									continue
								}
								for _, tb := range t.Blocks {
									ret, isRet := terminator(tb).(*ssa.Return)
									if !isRet {
										continue
									}
									k, isK := returnOperand(ret, ridx).(*ssa.Const)
									if !isK || k.Value == nil || k.Value.Kind() != constant.Bool {
										okAll = false
										continue
									}
									if constant.BoolVal(k.Value) && !enough(tb, func(v ssa.Value) bool {
										l2, ok := v.(*ssa.UnOp)
										return ok && cellOf(l2.X) == cellOf(list)
									}) {
										okAll = false
									}
								}
							}
							if okAll {
								return true
							}
						}
					}
					bo, ok := iff.Cond.(*ssa.BinOp)
					if !ok || !(onTrue || onFalse) {
						continue
					}
					lc, isLen := isBuiltinCall(bo.X, "len")
					if !isLen || !isList(lc.Call.Args[0]) {
						continue
					}
					k, kok := constInt(bo.Y)
					if !kok {
						continue
					}
					switch {
					case bo.Op == token.GEQ && onTrue && k >= need,
						bo.Op == token.GTR && onTrue && k >= need-1,
						bo.Op == token.EQL && onTrue && k >= need,
						bo.Op == token.LSS && onFalse && k >= need,
						bo.Op == token.LEQ && onFalse && k >= need-1:
						return true
					}
				}
				return false
			}
			good := enough(b, func(v ssa.Value) bool {
				l2, ok := v.(*ssa.UnOp)
				return ok && sameAddr(l2.X, list)
			})
			// the test may sit in the function that does the writing: it is
			// handed the list, and every write of its own is behind the test
			if cl, isCall := st.(*ssa.Call); isCall && !good {
				h := cl.Call.StaticCallee()
				k := -1
				for i, arg := range cl.Call.Args {
					if l2, ok := arg.(*ssa.UnOp); ok && sameAddr(l2.X, list) {
						k = i
					}
				}
				if k >= 0 && k < len(h.Params) {
					all, n := true, 0
					for _, hb := range h.Blocks {
						for _, hi := range hb.Instrs {
							writes := false
							switch y := hi.(type) {
							case *ssa.Store:
								if ia, ok := y.Addr.(*ssa.IndexAddr); ok {
									if ld, ok := ia.X.(*ssa.UnOp); ok && isByteSlice(ld.Type()) {
										_, writes = ld.X.(*ssa.FieldAddr)
									}
								}
							case *ssa.Call:
								if c2 := y.Call.StaticCallee(); c2 != nil && fnPkg(c2) != nil && fnPkg(c2).Pkg.Path() == Mod+"/vm" && c2 != h && storesCode(c2) > 0 {
									writes = true
								}
							}
							if !writes {
								continue
							}
							n++
							okW := enough(hb, func(v ssa.Value) bool { return v == ssa.Value(h.Params[k]) })
							if !okW {
								all = false
							}
							// each write of the helper is an obligation of its own
							r.Check(okW, fmt.Sprintf("%s/%s/%s: bytecode write %d needs %d pending constant(s)", p.FnName(fold), label, h.Name(), n, need), p.Pos(hi.Pos()), "behind the helper's own test for enough pending constants", fmt.Sprintf("the folder rewrites the program here although fewer than %d constant operand(s) are known to precede the operator", need))
						}
					}
					good = all && n > 0
				}
			}
			r.Check(good, key, p.Pos(st.Pos()), "dominated by a test for enough pending constants", fmt.Sprintf("the folder rewrites the program here although fewer than %d constant operand(s) are known to precede the operator: the other operand is whatever the script computes at run time, so `Name + 0` or `Missing * 1` — a type error unoptimized — silently yields its operand when optimized", need))
		}
	}
}

// ---------------------------------------------------------------------------
// R-VISITALL

func init() {
	register(&Rule{ID: "R-VISITALL", Floor: 5, Run: ruleVisitAll,
		Text: "A loop in the compiler over the children of a syntax node (statements of a block, elements, arguments, arms, pairs) is left early only with an error: every child is visited, so the compiler's own checks (assignment to a non-variable, unknown node types) apply to every part of an accepted script and no part is silently dropped."})
	register(&Rule{ID: "R-ONEDEFAULT", Floor: 1, Run: ruleOneDefault,
		Text: "The switch parser cannot return a switch with two default arms: either the default arms are counted after all arms are parsed and more than one is an error, or every path that creates a second default arm leads to an error (explored over the flag values the parser keeps)."})
}

func ruleVisitAll(p *Program, r *Reporter) {
	a := needAnchors(p, r)
	if a == nil {
		return
	}
	var fns []*ssa.Function
	for f := range p.Reachable(a.compile) {
		if fnPkg(f) != nil && fnPkg(f).Pkg.Path() == Mod && f.Parent() == nil {
			fns = append(fns, f)
		}
	}
	sort.Slice(fns, func(i, j int) bool { return p.FnName(fns[i]) < p.FnName(fns[j]) })
	for _, fn := range fns {
		nth := map[string]int{}
		for _, h := range fn.Blocks {
			var backs []*ssa.BasicBlock
			for _, pd := range h.Preds {
				if h.Dominates(pd) {
					backs = append(backs, pd)
				}
			}
			if len(backs) == 0 {
				continue
			}
			// loop body
			inLoop := map[*ssa.BasicBlock]bool{h: true}
			work := append([]*ssa.BasicBlock{}, backs...)
			for _, b := range backs {
				inLoop[b] = true
			}
			for len(work) > 0 {
				b := work[len(work)-1]
				work = work[:len(work)-1]
				for _, pd := range b.Preds {
					if !inLoop[pd] && h.Dominates(pd) {
						inLoop[pd] = true
						work = append(work, pd)
					}
				}
			}
			// only loops that compile something of AST type
			compiles := false
			for b := range inLoop {
				for _, ins := range b.Instrs {
					if c, ok := ins.(*ssa.Call); ok && c.Call.StaticCallee() != nil && p.Reachable(c.Call.StaticCallee())[a.compile] && len(c.Call.Args) >= 2 && isASTish(c.Call.Args[1].Type()) {
						compiles = true
					}
				}
			}
			if !compiles {
				continue
			}
			label := outerCase(p, fn, firstPos(h))
			nth[label]++
			key := fmt.Sprintf("%s/%s/loop %d over the node's children visits every child", p.FnName(fn), label, nth[label])
			bad := token.NoPos
			for b := range inLoop {
				for _, s := range b.Succs {
					if inLoop[s] {
						continue
					}
					if b == h {
						continue // exhaustion
					}
					if allReturnsFail(s) {
						continue
					}
					bad = firstPos(s)
					if !bad.IsValid() {
						bad = firstPos(b)
					}
				}
			}
			r.Check(!bad.IsValid(), key, p.Pos(firstPos(h)), "left only by exhaustion or with an error", "this loop over the children of a syntax node can be left early without an error (a break, or a return of nil): the remaining children are never translated — nor checked — so an invalid fragment after that point (`return 1; 3 += 1;` inside a block) is accepted by Prepare and silently dropped")
			_ = bad
		}
	}
}

func isASTish(t types.Type) bool {
	n, ok := types.Unalias(deref(t)).(*types.Named)
	return ok && n.Obj().Pkg() != nil && n.Obj().Pkg().Path() == Mod+"/ast"
}

func ruleOneDefault(p *Program, r *Reporter) {
	// the function that creates default arms: stores true into a bool field of an ast struct
	// named by its role: a field of the arm type that the compiler tests to find the default
	var fn *ssa.Function
	var defStores []*ssa.Store
	var fieldIdx int
	var armType types.Type
	for _, f := range parserFns(p) {
		for _, b := range f.Blocks {
			for _, ins := range b.Instrs {
				st, ok := ins.(*ssa.Store)
				if !ok {
					continue
				}
				c, isC := st.Val.(*ssa.Const)
				fa, isF := st.Addr.(*ssa.FieldAddr)
				if !isC || !isF || c.Value == nil || c.Value.Kind() != constant.Bool || !constant.BoolVal(c.Value) {
					continue
				}
				if !isASTish(fa.X.Type()) {
					continue
				}
				fn = f
				defStores = append(defStores, st)
				fieldIdx = fa.Field
				armType = deref(fa.X.Type())
			}
		}
	}
	key := "a switch has at most one default arm"
	if fn == nil {
		r.Undecided(key, "-", "no parser function marks an arm as the default")
		return
	}
	// design A: counted after the loop — in the function that marks the arms, or
	// in the function that calls it and hands the switch back
	cands := []*ssa.Function{fn}
	for _, g := range parserFns(p) {
		if len(callsTo(g, fn)) > 0 && g != fn {
			cands = append(cands, g)
		}
	}
	for _, fn := range cands {
		for _, b := range fn.Blocks {
			iff, ok := terminator(b).(*ssa.If)
			if !ok {
				continue
			}
			bo, ok := iff.Cond.(*ssa.BinOp)
			if !ok {
				continue
			}
			k, kok := constInt(bo.Y)
			if !kok || !((bo.Op == token.GTR && k == 1) || (bo.Op == token.GEQ && k == 2)) {
				continue
			}
			ph, ok := bo.X.(*ssa.Phi)
			if !ok || !countsField(ph, armType, fieldIdx) {
				continue
			}
			if !allReturnsNil(b.Succs[0]) {
				continue
			}
			// the test is on every path to a successful return
			dom := true
			for _, rb := range fn.Blocks {
				if ret, ok := terminator(rb).(*ssa.Return); ok && len(ret.Results) == 1 && !isNilConst(ret.Results[0]) {
					if !(b == rb || b.Dominates(rb)) {
						dom = false
					}
				}
			}
			if dom {
				r.OkNT(key, p.Pos(iff.Cond.Pos()), "default arms are counted after the loop; more than one is an error on every path to a successful return")
				return
			}
		}
	}
	// design B: explore the paths with the boolean flags the function keeps
	if path := secondDefaultReachable(fn, defStores); path != "" {
		r.Fail(key, p.Pos(defStores[0].Pos()), "there is a path through the switch parser that marks a second arm as the default and still returns the switch ("+path+"): `switch (x) { case default {..} default {..} }` is accepted by Prepare and both default blocks are compiled")
		return
	}
	r.OkNT(key, p.Pos(fn.Pos()), fmt.Sprintf("no path creates a second default arm without an error (%d marking site(s), explored with the parser's boolean flags)", len(defStores)))
}

// countsField: the phi is a counter incremented under a test of the given field.
func countsField(ph *ssa.Phi, arm types.Type, field int) bool {
	for _, e := range ph.Edges {
		// through the inner merge phi of `if c.Default { count++ }`
		for _, o := range originsThroughPhi(e, 3) {
			bo, ok := o.(*ssa.BinOp)
			if !ok || bo.Op != token.ADD {
				continue
			}
			if k, ok := constInt(bo.Y); !ok || k != 1 {
				continue
			}
			// the increment's block is guarded by a load of the field
			for cur := bo.Block(); cur.Idom() != nil; cur = cur.Idom() {
				d := cur.Idom()
				iff, ok := terminator(d).(*ssa.If)
				if !ok {
					continue
				}
				if ld, ok := iff.Cond.(*ssa.UnOp); ok && ld.Op == token.MUL {
					if fa, ok := ld.X.(*ssa.FieldAddr); ok && fa.Field == field && types.Identical(deref(fa.X.Type()), arm) {
						return true
					}
				}
			}
		}
	}
	return false
}

func originsThroughPhi(v ssa.Value, depth int) []ssa.Value {
	if depth == 0 {
		return []ssa.Value{v}
	}
	if ph, ok := v.(*ssa.Phi); ok {
		var out []ssa.Value
		for _, e := range ph.Edges {
			out = append(out, originsThroughPhi(e, depth-1)...)
		}
		return out
	}
	return []ssa.Value{v}
}

// secondDefaultReachable explores (block, number of default arms created, values
// of the boolean phis) and reports a path on which a second arm is marked as
// the default and a non-nil result is still returned.
func secondDefaultReachable(fn *ssa.Function, marks []*ssa.Store) string {
	isMark := map[ssa.Instruction]bool{}
	for _, m := range marks {
		isMark[m] = true
	}
	type state struct {
		b    *ssa.BasicBlock
		seen int
		env  string
	}
	var boolPhis []*ssa.Phi
	for _, b := range fn.Blocks {
		for _, ins := range b.Instrs {
			if ph, ok := ins.(*ssa.Phi); ok && isBoolType(ph.Type()) {
				boolPhis = append(boolPhis, ph)
			}
		}
	}
	idx := map[*ssa.Phi]int{}
	for i, ph := range boolPhis {
		idx[ph] = i
	}
	val := func(env []byte, v ssa.Value) byte {
		switch x := v.(type) {
		case *ssa.Const:
			if x.Value != nil && x.Value.Kind() == constant.Bool {
				if constant.BoolVal(x.Value) {
					return 'T'
				}
				return 'F'
			}
		case *ssa.Phi:
			if i, ok := idx[x]; ok {
				return env[i]
			}
		}
		return '?'
	}
	start := make([]byte, len(boolPhis))
	for i := range start {
		start[i] = '?'
	}
	seenStates := map[state]bool{}
	type item struct {
		b    *ssa.BasicBlock
		from *ssa.BasicBlock
		seen int
		env  []byte
	}
	work := []item{{fn.Blocks[0], nil, 0, start}}
	for len(work) > 0 {
		it := work[len(work)-1]
		work = work[:len(work)-1]
		env := append([]byte{}, it.env...)
		// phis take the value of the incoming edge (evaluated simultaneously)
		if it.from != nil {
			old := append([]byte{}, env...)
			for _, ins := range it.b.Instrs {
				ph, ok := ins.(*ssa.Phi)
				if !ok {
					break
				}
				if i, ok := idx[ph]; ok {
					for k, pd := range it.b.Preds {
						if pd == it.from {
							env[i] = val(old, ph.Edges[k])
						}
					}
				}
			}
		}
		st := state{it.b, it.seen, string(env)}
		if seenStates[st] {
			continue
		}
		seenStates[st] = true
		seen := it.seen
		for _, ins := range it.b.Instrs {
			if isMark[ins] {
				seen++
				if seen > 2 {
					seen = 2
				}
			}
		}
		switch t := terminator(it.b).(type) {
		case *ssa.Return:
			if seen >= 2 && len(t.Results) == 1 && !isNilConst(t.Results[0]) {
				return fmt.Sprintf("two default arms on a path to the return in block %d", it.b.Index)
			}
		case *ssa.If:
			v := val(env, t.Cond)
			if v != 'F' {
				work = append(work, item{it.b.Succs[0], it.b, seen, env})
			}
			if v != 'T' {
				work = append(work, item{it.b.Succs[1], it.b, seen, env})
			}
		default:
			for _, s := range it.b.Succs {
				work = append(work, item{s, it.b, seen, env})
			}
		}
	}
	return ""
}

// allReturnsNil: every return reachable from b returns the nil constant (the
// parser's way of failing), and one is reachable.
func allReturnsNil(b *ssa.BasicBlock) bool {
	seen := map[*ssa.BasicBlock]bool{}
	n, ok := 0, true
	var w func(x *ssa.BasicBlock)
	w = func(x *ssa.BasicBlock) {
		if seen[x] {
			return
		}
		seen[x] = true
		if ret, isRet := terminator(x).(*ssa.Return); isRet {
			n++
			if len(ret.Results) != 1 || !isNilConst(returnOperand(ret, 0)) {
				ok = false
			}
		}
		for _, s := range x.Succs {
			w(s)
		}
	}
	w(b)
	return ok && n > 0
}

// ---------------------------------------------------------------------------
// R-LEXINPUT

func init() {
	register(&Rule{ID: "R-LEXINPUT", Floor: 1, Run: ruleLexInput,
		Text: "The lexer's character buffer is the script text itself: it is assigned only the []rune conversion of the constructor's parameter, with no normalisation, replacement or trimming in between — text inside string and regexp literals reaches the token unchanged."})
}

func ruleLexInput(p *Program, r *Reporter) {
	n := 0
	for _, fn := range lexerFns(p) {
		for _, b := range fn.Blocks {
			for _, ins := range b.Instrs {
				st, ok := ins.(*ssa.Store)
				if !ok {
					continue
				}
				sl, ok := st.Val.Type().Underlying().(*types.Slice)
				if !ok || !types.Identical(sl.Elem(), types.Typ[types.Rune]) {
					continue
				}
				if owner, _, ok := fieldOf(st.Addr); !ok || owner == nil || owner.Obj().Name() != "Lexer" {
					continue
				}
				n++
				key := p.FnName(fn) + "/the character buffer is the script text, unmodified"
				cv, ok := st.Val.(*ssa.Convert)
				if !ok {
					r.Fail(key, p.Pos(st.Pos()), "the character buffer is not a direct conversion of the script text")
					continue
				}
				if _, isParam := cv.X.(*ssa.Parameter); isParam {
					r.OkNT(key, p.Pos(st.Pos()), "[]rune(parameter)")
					continue
				}
				what := "a computed value"
				if c, ok := cv.X.(*ssa.Call); ok && c.Call.StaticCallee() != nil {
					what = "the result of " + calleeFullName(&c.Call)
				}
				r.Fail(key, p.Pos(st.Pos()), "the text handed to the lexer is "+what+", not the script as given: a transformation applied before tokenising also rewrites the inside of string and regexp literals (normalising CR LF to LF turns \"a\\r\\nb\" written with a raw line break into \"a\\nb\" and makes backslash-CR a line continuation)")
			}
		}
	}
	if n == 0 {
		r.Undecided("character buffer", "-", "no lexer function stores a []rune into the Lexer")
	}
}

// ---------------------------------------------------------------------------
// R-COUNTED

func init() {
	register(&Rule{ID: "R-COUNTED", Floor: 3, Run: ruleCounted,
		Text: "The count operand of an instruction that pops a counted number of operands (array, hash, call) is len(F)·k for the node field F whose loop, in the same compiler case, compiles exactly k children in every iteration without skipping any: as many operands are pushed as the instruction will pop."})
}

func ruleCounted(p *Program, r *Reporter) {
	a := needAnchors(p, r)
	if a == nil {
		return
	}
	fn := a.compile
	oc := p.Opcodes()
	// loops of compile, by the field they range over
	var loops []loopInfo
	for _, h := range fn.Blocks {
		var backs []*ssa.BasicBlock
		for _, pd := range h.Preds {
			if h.Dominates(pd) {
				backs = append(backs, pd)
			}
		}
		if len(backs) == 0 {
			continue
		}
		// the collection: header compares index < len(X); X = load of a field of the node
		iff, ok := terminator(h).(*ssa.If)
		if !ok {
			continue
		}
		bo, ok := iff.Cond.(*ssa.BinOp)
		if !ok {
			continue
		}
		lc, ok := isBuiltinCall(bo.Y, "len")
		if !ok {
			continue
		}
		fld := fieldKey(loadAddr(lc.Call.Args[0]))
		if fld == "" {
			continue
		}
		inLoop := map[*ssa.BasicBlock]bool{h: true}
		work := append([]*ssa.BasicBlock{}, backs...)
		for _, b := range backs {
			inLoop[b] = true
		}
		for len(work) > 0 {
			b := work[len(work)-1]
			work = work[:len(work)-1]
			for _, pd := range b.Preds {
				if !inLoop[pd] && h.Dominates(pd) {
					inLoop[pd] = true
					work = append(work, pd)
				}
			}
		}
		li := loopInfo{h: h, field: fld}
		total := 0
		for b := range inLoop {
			for _, ins := range b.Instrs {
				if c, ok := staticCalleeIs(ins, fn); ok {
					total++
					all := true
					for _, bk := range backs {
						if !(c.Block() == bk || c.Block().Dominates(bk)) {
							all = false
						}
					}
					if all {
						li.perIter++
					}
				}
			}
		}
		li.skips = total != li.perIter
		loops = append(loops, li)
	}
	n := 0
	for _, b := range fn.Blocks {
		for _, ins := range b.Instrs {
			c, ok := staticCalleeIs(ins, a.emit)
			if !ok || len(c.Call.Args) < 3 {
				continue
			}
			vals, known := varargsOf(c.Call.Args[2])
			if !known || len(vals) != 1 {
				continue
			}
			// operand = len(F) or len(F)*k
			k := int64(1)
			v := vals[0]
			if bo, ok := v.(*ssa.BinOp); ok && bo.Op == token.MUL {
				if kk, ok := constInt(bo.Y); ok {
					k, v = kk, bo.X
				}
			}
			lc, ok := isBuiltinCall(v, "len")
			if !ok {
				continue
			}
			fld := fieldKey(loadAddr(lc.Call.Args[0]))
			if !strings.HasPrefix(fld, "ast.") {
				continue // a jump target (len of the code so far), not a count of children
			}
			n++
			clause := outerCase(p, fn, c.Pos())
			key := fmt.Sprintf("compile/%s/count operand of %s equals the operands pushed", clause, oc.ssaName(c.Call.Args[1]))
			var match *loopInfo
			for i := range loops {
				if loops[i].field == fld && outerCase(p, fn, firstPos(loops[i].h)) == clause {
					match = &loops[i]
				}
			}
			if match == nil {
				// the loop kept in a helper that is handed the list:
				// `e.compileExpressions(node.Elements)`
				for _, hb := range fn.Blocks {
					for _, hi := range hb.Instrs {
						hc, ok := hi.(*ssa.Call)
						if !ok || hc.Call.StaticCallee() == nil || hc.Call.StaticCallee() == fn || outerCase(p, fn, hc.Pos()) != clause {
							continue
						}
						for ai, arg := range hc.Call.Args {
							if fieldKey(loadAddr(arg)) != fld || ai >= len(hc.Call.StaticCallee().Params) {
								continue
							}
							if li, ok := listCompiler(hc.Call.StaticCallee(), hc.Call.StaticCallee().Params[ai], fn); ok {
								li.field = fld
								match = &li
							}
						}
					}
				}
			}
			switch {
			case match == nil:
				r.Fail(key, p.Pos(c.Pos()), "the count is len("+fld+") but no loop in this case compiles the members of that field: operands pushed and operands popped are counted over different things")
			case match.skips:
				r.Fail(key, p.Pos(c.Pos()), "the count is taken from len("+fld+"), but the loop that compiles its members skips some of them (a compile call that does not run in every iteration): the instruction pops more operands than were pushed — `{\"a\": 1, \"a\": 2}` ends in a stack underflow or swallows the operands of the surrounding expression")
			case int64(match.perIter) != k:
				r.Fail(key, p.Pos(c.Pos()), fmt.Sprintf("each iteration compiles %d child(ren) but the count is len(%s)·%d", match.perIter, fld, k))
			default:
				r.OkNT(key, p.Pos(c.Pos()), fmt.Sprintf("len(%s)·%d; the loop compiles %d per iteration, none skipped", fld, k, k))
			}
		}
	}
	if n == 0 {
		r.Undecided("counted instructions", p.Pos(fn.Pos()), "no emit site takes its operand from the length of a node field")
	}
}

// loadAddr: the address a value was loaded from (through a once-assigned local).
func loadAddr(v ssa.Value) ssa.Value {
	if u, ok := v.(*ssa.UnOp); ok && u.Op == token.MUL {
		return u.X
	}
	return v
}

// ---------------------------------------------------------------------------
// R-MATCHONCE

func init() {
	register(&Rule{ID: "R-MATCHONCE", Floor: 1, Run: ruleMatchOnce,
		Text: "The regexp matcher behind ~=, !~ and match() applies the pattern to the subject at least once for every subject, the empty string included: the lines it tries are the elements of strings.Split(subject, sep) — never empty — and the pattern is tried in every iteration. A loop that can run zero times answers 'no match' without asking the pattern, although /^$/ and /x*/ match the empty string.  Where the pattern is applied in several places they agree about how the subject was prepared (trimmed or not)."})
}

func ruleMatchOnce(p *Program, r *Reporter) {
	fn := registeredBuiltins(p)["match"]
	if fn == nil {
		r.Undecided("match built-in", "-", "no function is registered under the name match")
		return
	}
	key := p.FnName(fn) + "/the pattern is tried at least once for every subject"
	isMatchCall := func(ins ssa.Instruction) bool {
		cc := callOf(ins)
		if cc == nil || cc.StaticCallee() == nil {
			return false
		}
		full := calleeFullName(cc)
		return strings.HasPrefix(full, "(*regexp.Regexp).Match") || strings.HasPrefix(full, "(*regexp.Regexp).Find")
	}
	var calls []ssa.Instruction
	for _, b := range fn.Blocks {
		for _, ins := range b.Instrs {
			if isMatchCall(ins) {
				calls = append(calls, ins)
			}
		}
	}
	if len(calls) == 0 {
		r.Undecided(key, p.Pos(fn.Pos()), "the function does not call a regexp matching method")
		return
	}
	if len(calls) > 1 {
		// sibling calls agree about what the pattern is applied to
		var shape func(v ssa.Value, d int) string
		shape = func(v ssa.Value, d int) string {
			if d > 6 {
				return "…"
			}
			switch x := v.(type) {
			case *ssa.Call:
				if cal := x.Call.StaticCallee(); cal != nil && len(x.Call.Args) > 0 && fnPkg(cal) != nil && !IsLibPath(fnPkg(cal).Pkg.Path()) {
					// how the subject is cut into lines is not a preparation of the line
					if full := calleeFullName(&x.Call); strings.HasPrefix(full, "strings.Split") || strings.HasPrefix(full, "strings.Fields") {
						return shape(x.Call.Args[0], d+1)
					}
					return calleeFullName(&x.Call) + "(" + shape(x.Call.Args[0], d+1) + ")"
				}
			case *ssa.UnOp:
				if ia, ok := x.X.(*ssa.IndexAddr); ok && x.Op == token.MUL {
					return shape(ia.X, d+1)
				}
			case *ssa.Phi:
				set := map[string]bool{}
				for _, e := range x.Edges {
					set[shape(e, d+1)] = true
				}
				return setStr(set)
			}
			return "the subject"
		}
		shapes := map[string]bool{}
		for _, c := range calls {
			cc := callOf(c)
			if len(cc.Args) >= 2 {
				shapes[shape(cc.Args[1], 0)] = true
			}
		}
		skey := p.FnName(fn) + "/every application of the pattern sees the subject prepared the same way"
		if len(shapes) > 1 {
			r.Fail(skey, p.Pos(calls[0].Pos()), "the function applies the pattern in several places and they disagree about what it is applied to ("+setStr(shapes)+"): the answer for a value then depends on which path handled it — a padded single line against an anchored pattern, say")
		} else {
			r.OkNT(skey, p.Pos(calls[0].Pos()), setStr(shapes))
		}
	}
	for _, c := range calls {
		b := c.Block()
		// the loop around the call, if any
		var header *ssa.BasicBlock
		for h := b; h != nil; h = h.Idom() {
			for _, pd := range h.Preds {
				if h.Dominates(pd) && (pd == b || blockReaches(b, pd, nil)) {
					header = h
				}
			}
			if header != nil {
				break
			}
		}
		if header == nil {
			// applied once to the whole subject: must be on every path to a result
			// computed after the pattern is available — accept when it dominates
			// the function's last return
			r.OkNT(key, p.Pos(c.Pos()), "the pattern is applied outside any loop")
			return
		}
		// every iteration tries the pattern
		every := true
		for _, pd := range header.Preds {
			if header.Dominates(pd) && !(b == pd || b.Dominates(pd)) {
				every = false
			}
		}
		// the loop runs at least once: a range over strings.Split(x, non-empty constant)
		atLeastOnce := false
		if iff, ok := terminator(header).(*ssa.If); ok {
			if bo, ok := iff.Cond.(*ssa.BinOp); ok && bo.Op == token.LSS {
				if lc, ok := isBuiltinCall(bo.Y, "len"); ok {
					if sp, ok := lc.Call.Args[0].(*ssa.Call); ok && sp.Call.StaticCallee() != nil {
						full := calleeFullName(&sp.Call)
						if full == "strings.Split" || full == "strings.SplitN" || full == "strings.SplitAfter" {
							if k, ok := sp.Call.Args[1].(*ssa.Const); ok && k.Value != nil && k.Value.Kind() == constant.String && constant.StringVal(k.Value) != "" {
								atLeastOnce = true
							}
						}
					}
				}
			}
		}
		switch {
		case !atLeastOnce:
			r.Fail(key, p.Pos(firstPos(header)), "the loop in which the pattern is tried can run zero times (it is not a range over strings.Split of the subject with a non-empty separator, which always yields at least one element): for the empty subject — or after a trailing newline — the answer is 'no match' without the pattern having been asked, so `\"\" ~= /^$/` is false and `\"\" !~ /x*/` is true")
		case !every:
			r.Fail(key, p.Pos(c.Pos()), "some iteration of the line loop does not try the pattern")
		default:
			r.OkNT(key, p.Pos(c.Pos()), "range over strings.Split(subject, sep): at least one line, the pattern is tried on each")
		}
		return
	}
}

// ---------------------------------------------------------------------------
// R-EMITSET

func init() {
	register(&Rule{ID: "R-EMITSET", Floor: 20, Run: ruleEmitSet,
		Text: "Instruction selection is a closed table: each compiler case emits only the opcodes the language's translation scheme gives that construct (BYTECODE.md; e.g. a switch compares with the case opcode, a loop tests its condition with the conditional jump alone). An opcode that is new for a construct — a membership test inside switch, a negation inside while — is reported as not decided: whether the new encoding means the same for values of every type is a question about the VM's semantics that this rule cannot answer."})
}

// specEmitSets: construct → opcodes its translation may use.
var specEmitSets = map[string][]string{
	"*ast.BooleanLiteral":     {"OpTrue", "OpFalse"},
	"*ast.FloatLiteral":       {"OpConstant"},
	"*ast.IntegerLiteral":     {"OpConstant", "OpPush"},
	"*ast.StringLiteral":      {"OpConstant"},
	"*ast.RegexpLiteral":      {"OpConstant"},
	"*ast.ArrayLiteral":       {"OpArray"},
	"*ast.HashLiteral":        {"OpHash"},
	"*ast.ReturnStatement":    {"OpReturn"},
	"*ast.InfixExpression":    {"OpAdd", "OpAnd", "OpArrayIn", "OpConstant", "OpDiv", "OpEqual", "OpGreater", "OpGreaterEqual", "OpIndex", "OpLess", "OpLessEqual", "OpMatches", "OpMod", "OpMul", "OpNotEqual", "OpNotMatches", "OpOr", "OpPower", "OpRange", "OpSet", "OpSub"},
	"*ast.PrefixExpression":   {"OpBang", "OpMinus", "OpSquareRoot"},
	"*ast.PostfixExpression":  {"OpDec", "OpInc"},
	"*ast.LocalVariable":      {"OpConstant", "OpLocal"},
	"*ast.ForeachStatement":   {"OpConstant", "OpIterationNext", "OpIterationReset", "OpJump", "OpJumpIfFalse", "OpPlaceholder"},
	"*ast.FunctionDefinition": {"OpReturn", "OpVoid"},
	"*ast.IfExpression":       {"OpJump", "OpJumpIfFalse", "OpPlaceholder"},
	"*ast.TernaryExpression":  {"OpJump", "OpJumpIfFalse", "OpPlaceholder"},
	"*ast.SwitchExpression":   {"OpCase", "OpJump", "OpJumpIfFalse", "OpPlaceholder"},
	"*ast.WhileStatement":     {"OpJump", "OpJumpIfFalse", "OpPlaceholder"},
	"*ast.AssignStatement":    {"OpConstant", "OpSet"},
	"*ast.Identifier":         {"OpLookup"},
	"*ast.CallExpression":     {"OpCall", "OpConstant"},
	"*ast.IndexExpression":    {"OpIndex"},
}

func ruleEmitSet(p *Program, r *Reporter) {
	a := needAnchors(p, r)
	if a == nil {
		return
	}
	_ = p.Opcodes()
	got := map[string]map[string]token.Pos{}
	for f := range p.Reachable(a.compile) {
		if fnPkg(f) == nil || fnPkg(f).Pkg.Path() != Mod {
			continue
		}
		for _, b := range f.Blocks {
			for _, ins := range b.Instrs {
				es, ok := emitAt(p, a, ins)
				if !ok || isEmitHelper(p, a, f) {
					continue // a wrapper of the emitter is read at its call sites
				}
				c := es.call
				name := es.op
				if name == "" {
					continue // selected through a table: R-OPMAP's subject
				}
				labels := []string{"(helper " + f.Name() + ")"}
				if root, l := caseHome(p, f, c.Pos()); root == a.compile && l != "" {
					// in the case itself, or in a function that case alone calls
					labels = []string{strings.TrimPrefix(l, "case ")}
				} else if ls := caseHomesOfShared(p, a, f, 0); len(ls) > 0 {
					// a part shared by several cases (the "condition, jump, guarded
					// code" prologue of if / ternary / while): what it emits, it
					// emits for each of them
					labels = ls
				}
				for _, label := range labels {
					if got[label] == nil {
						got[label] = map[string]token.Pos{}
					}
					got[label][name] = c.Pos()
				}
			}
		}
	}
	var labels []string
	for l := range got {
		labels = append(labels, l)
	}
	sort.Strings(labels)
	for _, l := range labels {
		key := "compile/" + l + "/emits only the opcodes of its translation scheme"
		want, known := specEmitSets[l]
		if !known {
			var ops []string
			for o := range got[l] {
				ops = append(ops, o)
			}
			sort.Strings(ops)
			r.Undecided(key, "-", "a construct (or helper) the translation table does not list emits "+strings.Join(ops, ", "))
			continue
		}
		allowed := map[string]bool{}
		for _, o := range want {
			allowed[o] = true
		}
		var extra []string
		pos := token.NoPos
		for o, ps := range got[l] {
			if !allowed[o] {
				extra = append(extra, o)
				pos = ps
			}
		}
		sort.Strings(extra)
		if len(extra) > 0 {
			r.Undecided(key, p.Pos(pos), "this construct is now translated with "+strings.Join(extra, ", ")+", which its translation scheme does not use: e.g. a switch arm tested with the membership opcode compares type and printed form only, so a regexp in a multi-expression arm never matches and all expressions are evaluated eagerly; a loop condition re-tested through ! disagrees with `if` for 0, \"\" and []. Whether the new encoding preserves the meaning for every type is not decided here")
		} else {
			r.OkNT(key, "-", fmt.Sprintf("%d opcode(s), all in the table", len(got[l])))
		}
	}
}

// ---------------------------------------------------------------------------
// R-CUTSET

func init() {
	register(&Rule{ID: "R-CUTSET", Floor: 1, Run: ruleCutset,
		Text: "strings.Trim, TrimLeft and TrimRight are only called with a constant cutset: their second argument is a set of characters, not a prefix or suffix, so a cutset computed from data (a separator, a flag prefix) also strips characters that belong to the text — the first letters of a regexp after its flags, the last characters of a joined string."})
}

const cutsetExample = `package t
import "strings"
func f(s, sep string) string { return strings.TrimRight(s, sep) }
func g(s string) string { return strings.Trim(s, " \t") }
`

func cutsetSites(fn *ssa.Function) (bad []ssa.Instruction, all int) {
	for _, b := range fn.Blocks {
		for _, ins := range b.Instrs {
			cc := callOf(ins)
			if cc == nil || cc.StaticCallee() == nil {
				continue
			}
			switch calleeFullName(cc) {
			case "strings.Trim", "strings.TrimLeft", "strings.TrimRight", "bytes.Trim", "bytes.TrimLeft", "bytes.TrimRight":
				all++
				if _, isConst := cc.Args[1].(*ssa.Const); !isConst {
					bad = append(bad, ins)
				}
			}
		}
	}
	return
}

func ruleCutset(p *Program, r *Reporter) {
	sp := buildExample(cutsetExample)
	ok := false
	if sp != nil && sp.Func("f") != nil && sp.Func("g") != nil {
		bf, _ := cutsetSites(sp.Func("f"))
		bg, ng := cutsetSites(sp.Func("g"))
		ok = len(bf) == 1 && len(bg) == 0 && ng == 1
	}
	r.Check(ok, "matcher self-test: a computed cutset is found, a constant one accepted", "-", "built-in example behaves as expected", "the matcher no longer recognises its own example")
	n := 0
	for _, fn := range p.LibFns {
		bad, all := cutsetSites(fn)
		n += all
		for _, ins := range bad {
			r.Fail(siteKey(p, fn, ins.Pos(), "cutset of a Trim call is a constant"), p.Pos(ins.Pos()), "the cutset is computed at run time: every leading/trailing character that occurs anywhere in it is stripped, not the prefix/suffix it spells (use TrimPrefix / TrimSuffix): `/imitate/i` would match as `mitate`, join([\"a\", \"b-\"], \"-\") would lose its last character")
		}
	}
	r.Info(fmt.Sprintf("%d Trim/TrimLeft/TrimRight call(s) in the library", n), "-", "")
}

// stripIfaceConv: v without the conversions between interface types.
func stripIfaceConv(v ssa.Value) ssa.Value {
	for {
		switch x := v.(type) {
		case *ssa.ChangeInterface:
			v = x.X
		case *ssa.MakeInterface:
			v = x.X
		default:
			return v
		}
	}
}

type loopInfo struct {
	h       *ssa.BasicBlock
	field   string
	perIter int // compile calls that dominate every back edge
	skips   bool
}

// listCompiler: h walks the list it is handed in parameter prm from the first
// element to the last and calls the compiler (compile) in every iteration; the
// loop's figures.
func listCompiler(h *ssa.Function, prm *ssa.Parameter, compile *ssa.Function) (loopInfo, bool) {
	for _, hd := range h.Blocks {
		var backs []*ssa.BasicBlock
		for _, pd := range hd.Preds {
			if hd.Dominates(pd) {
				backs = append(backs, pd)
			}
		}
		if len(backs) == 0 {
			continue
		}
		iff, ok := terminator(hd).(*ssa.If)
		if !ok {
			continue
		}
		bo, ok := iff.Cond.(*ssa.BinOp)
		if !ok {
			continue
		}
		lc, ok := isBuiltinCall(bo.Y, "len")
		if !ok || lc.Call.Args[0] != ssa.Value(prm) {
			continue
		}
		inLoop := map[*ssa.BasicBlock]bool{hd: true}
		work := append([]*ssa.BasicBlock{}, backs...)
		for _, b := range backs {
			inLoop[b] = true
		}
		for len(work) > 0 {
			b := work[len(work)-1]
			work = work[:len(work)-1]
			for _, pd := range b.Preds {
				if !inLoop[pd] && hd.Dominates(pd) {
					inLoop[pd] = true
					work = append(work, pd)
				}
			}
		}
		li := loopInfo{h: hd}
		total := 0
		for b := range inLoop {
			for _, ins := range b.Instrs {
				if c, ok := staticCalleeIs(ins, compile); ok {
					total++
					all := true
					for _, bk := range backs {
						if !(c.Block() == bk || c.Block().Dominates(bk)) {
							all = false
						}
					}
					if all {
						li.perIter++
					}
				}
			}
		}
		li.skips = total != li.perIter
		if total > 0 {
			return li, true
		}
	}
	return loopInfo{}, false
}

// caseHomesOfShared: the cases of the compiler's type switch on whose behalf a
// function works that several of them call: every static call of it sits in a
// case (or in a function that has such homes itself); nil when some call does
// not.
func caseHomesOfShared(p *Program, a *anchors, f *ssa.Function, depth int) []string {
	if depth > 3 || functionUsedAsValue(p, f) {
		return nil
	}
	sites := staticCallSites(p, f)
	if len(sites) == 0 {
		return nil
	}
	set := map[string]bool{}
	for _, site := range sites {
		caller := site.Parent()
		for caller != nil && caller.Parent() != nil {
			caller = caller.Parent()
		}
		if caller == f {
			continue // calls itself: the outer call decides
		}
		if root, l := caseHome(p, caller, site.Pos()); root == a.compile && l != "" {
			set[strings.TrimPrefix(l, "case ")] = true
			continue
		}
		sub := caseHomesOfShared(p, a, caller, depth+1)
		if len(sub) == 0 {
			return nil
		}
		for _, l := range sub {
			set[l] = true
		}
	}
	var out []string
	for l := range set {
		out = append(out, l)
	}
	sort.Strings(out)
	return out
}
