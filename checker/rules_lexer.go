package main

// Lexer rules: progress and termination (R-LEXPROGRESS), end of input decided
// by position (R-EOFSENTINEL), the escape table of string literals
// (R-ESCAPES).

import (
	"fmt"
	"go/ast"
	"go/constant"
	"go/token"
	"go/types"
	"sort"
	"strings"
	"unicode"

	"golang.org/x/tools/go/ssa"
)

func init() {
	register(&Rule{ID: "R-LEXPROGRESS", Floor: 8, Run: ruleLexProgress,
		Text: "Tokenisation terminates: the function that advances the read position does so unconditionally; every loop of the lexer calls it (directly or through a lexer function that does) on every cycle, and has an exit that is taken at the end of the input — when the current character is the end-of-input sentinel, or when the position is compared with the length of the input (directly or through a helper that returns that comparison); the lexer does not recurse."})
	register(&Rule{ID: "R-EOFSENTINEL", Floor: 1, Run: ruleEOFSentinel,
		Text: "The end-of-input token is produced only under a comparison of the read position with the length of the input, not merely because the current character has the sentinel's value (a NUL byte inside the script is not the end of the script).  The same holds for every other test of the current character against the sentinel in the lexer — in the readers of strings, regexps and comments: the zero character may only lead to a comparison of the position."})
	register(&Rule{ID: "R-ESCAPES", Floor: 3, Run: ruleEscapes,
		Text: "The string reader's escape table is exactly the language's: \\n, \\r and \\t denote newline, carriage return and tab; every other escaped character (including \\\" and \\\\) denotes itself."})
}

func lexerFns(p *Program) []*ssa.Function {
	var out []*ssa.Function
	for _, fn := range p.LibFns {
		if fnPkg(fn).Pkg.Path() == Mod+"/lexer" {
			out = append(out, fn)
		}
	}
	return out
}

// lexAdvance: the method storing Lexer.readPosition.
func lexAdvance(p *Program) *ssa.Function {
	for _, fn := range lexerFns(p) {
		for _, b := range fn.Blocks {
			for _, ins := range b.Instrs {
				if st, ok := ins.(*ssa.Store); ok && fieldKey(st.Addr) == "lexer.Lexer.readPosition" && fn.Name() != "New" {
					return fn
				}
			}
		}
	}
	return nil
}

// concrete evaluation of a pure predicate over runes with the argument fixed.
type evalEnv struct {
	vals map[ssa.Value]constant.Value
}

func evalPure(fn *ssa.Function, arg constant.Value, depth int) (constant.Value, bool) {
	if depth > 4 || len(fn.Params) != 1 || fn.Blocks == nil {
		return nil, false
	}
	env := map[ssa.Value]constant.Value{fn.Params[0]: arg}
	var prev *ssa.BasicBlock
	b := fn.Blocks[0]
	for steps := 0; steps < 200; steps++ {
		for _, ins := range b.Instrs {
			switch x := ins.(type) {
			case *ssa.Phi:
				for i, pd := range b.Preds {
					if pd == prev {
						if v, ok := evalVal(x.Edges[i], env, depth); ok {
							env[x] = v
						}
					}
				}
			case *ssa.BinOp, *ssa.UnOp, *ssa.Convert, *ssa.Call, *ssa.ChangeType, *ssa.Lookup, *ssa.Extract:
				if v, ok := evalVal(x.(ssa.Value), env, depth); ok {
					env[x.(ssa.Value)] = v
				}
			case *ssa.IndexAddr:
				// evaluated where it is loaded
			case *ssa.If:
				c, ok := evalVal(x.Cond, env, depth)
				if !ok {
					return nil, false
				}
				prev = b
				if constant.BoolVal(c) {
					b = b.Succs[0]
				} else {
					b = b.Succs[1]
				}
			case *ssa.Jump:
				prev = b
				b = b.Succs[0]
			case *ssa.Return:
				if len(x.Results) != 1 {
					return nil, false
				}
				return evalVal(x.Results[0], env, depth)
			case *ssa.DebugRef:
			default:
				return nil, false
			}
		}
	}
	return nil, false
}

func evalVal(v ssa.Value, env map[ssa.Value]constant.Value, depth int) (constant.Value, bool) {
	if c, ok := env[v]; ok {
		return c, true
	}
	switch x := v.(type) {
	case *ssa.Const:
		if x.Value == nil {
			return nil, false
		}
		return x.Value, true
	case *ssa.Convert:
		return evalVal(x.X, env, depth)
	case *ssa.ChangeType:
		return evalVal(x.X, env, depth)
	case *ssa.UnOp:
		if x.Op == token.NOT {
			if c, ok := evalVal(x.X, env, depth); ok && c.Kind() == constant.Bool {
				return constant.MakeBool(!constant.BoolVal(c)), true
			}
		}
		if x.Op == token.SUB {
			if c, ok := evalVal(x.X, env, depth); ok && c.Kind() == constant.Int {
				return constant.UnaryOp(token.SUB, c, 0), true
			}
		}
		// an element of a package-level table that is never written
		if x.Op == token.MUL {
			if ia, ok := x.X.(*ssa.IndexAddr); ok {
				var g *ssa.Global
				switch b := ia.X.(type) {
				case *ssa.Global:
					g = b
				case *ssa.UnOp:
					g, _ = b.X.(*ssa.Global)
				}
				if g != nil {
					if k, ok := evalVal(ia.Index, env, depth); ok {
						if v, _, ok := globalLiteralLookup(g, k); ok {
							return v, true
						}
					}
				}
			}
		}
	case *ssa.Lookup:
		if ld, ok := x.X.(*ssa.UnOp); ok && !x.CommaOk {
			if g, ok := ld.X.(*ssa.Global); ok {
				if k, ok := evalVal(x.Index, env, depth); ok {
					if v, _, ok := globalLiteralLookup(g, k); ok {
						return v, true
					}
				}
			}
		}
	case *ssa.Extract:
		if lk, ok := x.Tuple.(*ssa.Lookup); ok && lk.CommaOk {
			if ld, ok := lk.X.(*ssa.UnOp); ok {
				if g, ok := ld.X.(*ssa.Global); ok {
					if k, ok := evalVal(lk.Index, env, depth); ok {
						if v, present, ok := globalLiteralLookup(g, k); ok {
							if x.Index == 0 {
								return v, true
							}
							return constant.MakeBool(present), true
						}
					}
				}
			}
		}
	case *ssa.BinOp:
		l, ok1 := evalVal(x.X, env, depth)
		r, ok2 := evalVal(x.Y, env, depth)
		if !ok1 || !ok2 {
			return nil, false
		}
		switch x.Op {
		case token.ADD, token.SUB, token.MUL:
			if l.Kind() == constant.Int && r.Kind() == constant.Int {
				return constant.BinaryOp(l, x.Op, r), true
			}
			return nil, false
		case token.EQL, token.NEQ, token.LSS, token.LEQ, token.GTR, token.GEQ:
			if l.Kind() == constant.Bool || r.Kind() == constant.Bool {
				if x.Op == token.EQL {
					return constant.MakeBool(constant.BoolVal(l) == constant.BoolVal(r)), true
				}
				if x.Op == token.NEQ {
					return constant.MakeBool(constant.BoolVal(l) != constant.BoolVal(r)), true
				}
				return nil, false
			}
			return constant.MakeBool(constant.Compare(l, x.Op, r)), true
		}
	case *ssa.Call:
		cal := x.Call.StaticCallee()
		if cal == nil && len(x.Call.Args) == 1 {
			// a predicate handed in as a parameter: every caller passes a
			// function that can be evaluated, and they agree
			if prm, ok := x.Call.Value.(*ssa.Parameter); ok && depth < 3 {
				a, ok := evalVal(x.Call.Args[0], env, depth)
				if !ok {
					return nil, false
				}
				return evalPredicateParam(prm, a, depth)
			}
		}
		if cal == nil || len(x.Call.Args) != 1 {
			return nil, false
		}
		a, ok := evalVal(x.Call.Args[0], env, depth)
		if !ok {
			return nil, false
		}
		switch cal.String() {
		case "unicode.IsLetter", "unicode.IsDigit", "unicode.IsSpace", "unicode.IsUpper", "unicode.IsLower", "unicode.IsPunct":
			// the sentinel (NUL) belongs to none of these classes; only the
			// sentinel is ever substituted
			if constant.Sign(a) == 0 {
				return constant.MakeBool(false), true
			}
			// the documented classes of package unicode, evaluated for the constant
			if i, exact := constant.Int64Val(a); exact && i > 0 && i <= unicode.MaxRune {
				c := rune(i)
				switch cal.String() {
				case "unicode.IsLetter":
					return constant.MakeBool(unicode.IsLetter(c)), true
				case "unicode.IsDigit":
					return constant.MakeBool(unicode.IsDigit(c)), true
				case "unicode.IsSpace":
					return constant.MakeBool(unicode.IsSpace(c)), true
				case "unicode.IsUpper":
					return constant.MakeBool(unicode.IsUpper(c)), true
				case "unicode.IsLower":
					return constant.MakeBool(unicode.IsLower(c)), true
				case "unicode.IsPunct":
					return constant.MakeBool(unicode.IsPunct(c)), true
				}
			}
			return nil, false
		}
		if fnPkg(cal) != nil && fnPkg(cal).Pkg.Path() == Mod+"/lexer" {
			return evalPure(cal, a, depth+1)
		}
	}
	return nil, false
}

// evalPredicateParam: prm is a parameter of function type; the value of
// prm(arg) when every static call of the enclosing function passes a named
// function of the lexer package for it and all of them give the same answer.
func evalPredicateParam(prm *ssa.Parameter, arg constant.Value, depth int) (constant.Value, bool) {
	fn := prm.Parent()
	idx := -1
	for i, q := range fn.Params {
		if q == prm {
			idx = i
		}
	}
	if idx < 0 || fn.Pkg == nil {
		return nil, false
	}
	var out constant.Value
	sites := 0
	for _, m := range fn.Pkg.Members {
		mf, ok := m.(*ssa.Function)
		var cands []*ssa.Function
		if ok {
			cands = append(cands, mf)
			cands = append(cands, mf.AnonFuncs...)
		}
		if tp, ok := m.(*ssa.Type); ok {
			for _, recv := range []types.Type{tp.Type(), types.NewPointer(tp.Type())} {
				ms := fn.Prog.MethodSets.MethodSet(recv)
				for i := 0; i < ms.Len(); i++ {
					if g := fn.Prog.MethodValue(ms.At(i)); g != nil && g.Pkg == fn.Pkg {
						cands = append(cands, g)
						cands = append(cands, g.AnonFuncs...)
					}
				}
			}
		}
		for _, g := range cands {
			for _, b := range g.Blocks {
				for _, ins := range b.Instrs {
					c, ok := staticCalleeIs(ins, fn)
					if !ok || idx >= len(c.Call.Args) {
						continue
					}
					sites++
					v := c.Call.Args[idx]
					if ct, ok := v.(*ssa.ChangeType); ok {
						v = ct.X
					}
					pf, ok := v.(*ssa.Function)
					if !ok {
						return nil, false
					}
					r, ok := evalPure(pf, arg, depth+1)
					if !ok {
						return nil, false
					}
					if out != nil && !constant.Compare(out, token.EQL, r) {
						return nil, false
					}
					out = r
				}
			}
		}
	}
	if sites == 0 || out == nil {
		return nil, false
	}
	return out, true
}

// evalAtSentinel evaluates a loop condition with every load of Lexer.ch
// replaced by the sentinel 0.
func evalAtSentinel(cond ssa.Value) (bool, bool) {
	env := map[ssa.Value]constant.Value{}
	var seed func(v ssa.Value, d int)
	seen := map[ssa.Value]bool{}
	seed = func(v ssa.Value, d int) {
		if v == nil || seen[v] || d > 8 {
			return
		}
		seen[v] = true
		switch x := v.(type) {
		case *ssa.UnOp:
			if x.Op == token.MUL && fieldKey(x.X) == "lexer.Lexer.ch" {
				env[x] = constant.MakeInt64(0)
				return
			}
			seed(x.X, d+1)
		case *ssa.BinOp:
			seed(x.X, d+1)
			seed(x.Y, d+1)
		case *ssa.Convert:
			seed(x.X, d+1)
		case *ssa.Call:
			for _, a := range x.Call.Args {
				seed(a, d+1)
			}
		}
	}
	seed(cond, 0)
	if len(env) == 0 {
		return false, false
	}
	c, ok := evalVal(cond, env, 0)
	if !ok || c.Kind() != constant.Bool {
		return false, false
	}
	return constant.BoolVal(c), true
}

// positionEndTest: the condition compares the lexer's position with the length
// of its input, directly or through a helper that returns that comparison;
// reports whether "true" means the end has been reached.
func positionEndTest(c ssa.Value) (bool, bool) {
	isPos := func(v ssa.Value) bool {
		u, ok := v.(*ssa.UnOp)
		return ok && u.Op == token.MUL && (fieldKey(u.X) == "lexer.Lexer.position" || fieldKey(u.X) == "lexer.Lexer.readPosition")
	}
	isLen := func(v ssa.Value) bool {
		lc, ok := isBuiltinCall(v, "len")
		if !ok {
			return false
		}
		u, ok := lc.Call.Args[0].(*ssa.UnOp)
		return ok && strings.HasPrefix(fieldKey(u.X), "lexer.Lexer.")
	}
	switch x := c.(type) {
	case *ssa.BinOp:
		switch {
		case isPos(x.X) && isLen(x.Y):
			switch x.Op {
			case token.GEQ, token.GTR, token.EQL:
				return true, true
			case token.LSS, token.LEQ, token.NEQ:
				return false, true
			}
		case isLen(x.X) && isPos(x.Y):
			switch x.Op {
			case token.LEQ, token.LSS, token.EQL:
				return true, true
			case token.GTR, token.GEQ, token.NEQ:
				return false, true
			}
		}
	case *ssa.UnOp:
		if x.Op == token.NOT {
			if v, ok := positionEndTest(x.X); ok {
				return !v, true
			}
		}
	case *ssa.Call:
		cal := x.Call.StaticCallee()
		if cal == nil || len(cal.Blocks) != 1 {
			return false, false
		}
		if ret, ok := terminator(cal.Blocks[0]).(*ssa.Return); ok && len(ret.Results) == 1 {
			return positionEndTest(ret.Results[0])
		}
	}
	return false, false
}

func ruleLexProgress(p *Program, r *Reporter) {
	adv := lexAdvance(p)
	if adv == nil {
		r.Undecided("advance function", "-", "no lexer method stores the read position")
		return
	}
	// (0) the advance function increments the read position on every path
	inc := false
	var incStore *ssa.Store
	for _, b := range adv.Blocks {
		for _, ins := range b.Instrs {
			if st, ok := ins.(*ssa.Store); ok && fieldKey(st.Addr) == "lexer.Lexer.readPosition" {
				if bo, ok := st.Val.(*ssa.BinOp); ok && bo.Op == token.ADD {
					if n, ok := constInt(bo.Y); ok && n >= 1 {
						incStore = st
					}
				}
			}
		}
	}
	if incStore != nil {
		inc = true
		for _, b := range adv.Blocks {
			if _, ok := terminator(b).(*ssa.Return); ok {
				if !(incStore.Block() == b || incStore.Block().Dominates(b)) {
					inc = false
				}
			}
		}
	}
	r.Check(inc, "the advance function always moves forward", p.Pos(adv.Pos()), adv.Name()+" increments the read position on every path", adv.Name()+" does not increment the read position on every path: a loop that relies on it can spin without consuming input")
	// sets the sentinel past the end
	sentinel := false
	for _, b := range adv.Blocks {
		for _, ins := range b.Instrs {
			if st, ok := ins.(*ssa.Store); ok && fieldKey(st.Addr) == "lexer.Lexer.ch" {
				for _, o := range origins(st.Val) {
					if n, ok := constInt(o); ok && n == 0 {
						sentinel = true
					}
				}
				if ph, ok := st.Val.(*ssa.Phi); ok {
					for _, e := range ph.Edges {
						for _, o := range origins(e) {
							if n, ok := constInt(o); ok && n == 0 {
								sentinel = true
							}
						}
					}
				}
			}
		}
	}
	r.Check(sentinel, "past the end the current character is the sentinel", p.Pos(adv.Pos()), "stores 0 when the read position is past the input", "the advance function never sets the end-of-input sentinel")
	// functions that (transitively) advance
	advancing := map[*ssa.Function]bool{adv: true}
	for changed := true; changed; {
		changed = false
		for _, fn := range lexerFns(p) {
			if advancing[fn] {
				continue
			}
			for _, b := range fn.Blocks {
				for _, ins := range b.Instrs {
					if cc := callOf(ins); cc != nil && cc.StaticCallee() != nil && advancing[cc.StaticCallee()] {
						advancing[fn] = true
						changed = true
					}
				}
			}
		}
	}
	// (1)+(2) every loop
	for _, fn := range lexerFns(p) {
		for _, h := range fn.Blocks {
			var backs []*ssa.BasicBlock
			for _, pd := range h.Preds {
				if h.Dominates(pd) {
					backs = append(backs, pd)
				}
			}
			if len(backs) == 0 {
				continue
			}
			// loop body: blocks dominated by h that reach a back-edge source
			inLoop := map[*ssa.BasicBlock]bool{h: true}
			var work []*ssa.BasicBlock
			for _, b := range backs {
				if !inLoop[b] {
					inLoop[b] = true
					work = append(work, b)
				}
			}
			for len(work) > 0 {
				b := work[len(work)-1]
				work = work[:len(work)-1]
				for _, pd := range b.Preds {
					if !inLoop[pd] && h.Dominates(pd) {
						inLoop[pd] = true
						work = append(work, pd)
					}
				}
			}
			key := p.FnName(fn) + "/loop at " + loopLabel(p, fn, h)
			// range over a string/slice: bounded by construction
			isRange := false
			for b := range inLoop {
				for _, ins := range b.Instrs {
					if _, ok := ins.(*ssa.Next); ok {
						isRange = true
					}
				}
			}
			if iff, ok := terminator(h).(*ssa.If); ok {
				if bo, ok := iff.Cond.(*ssa.BinOp); ok {
					if _, isLen := isBuiltinCall(bo.Y, "len"); isLen && bo.Op == token.LSS {
						isRange = true
					}
				}
			}
			if isRange {
				r.Ok(key, p.Pos(firstPos(h)), "range loop over an existing string/slice: bounded")
				continue
			}
			// (1) an advancing call on every cycle
			onEvery := false
			for b := range inLoop {
				for _, ins := range b.Instrs {
					cc := callOf(ins)
					if cc == nil || cc.StaticCallee() == nil || !advancing[cc.StaticCallee()] {
						continue
					}
					all := true
					for _, bk := range backs {
						if !(b == bk || b.Dominates(bk)) {
							all = false
						}
					}
					if all {
						onEvery = true
					}
				}
			}
			// … or an inner loop that advances, sits on every cycle, and goes
			// round at least once because the outer condition pins the current
			// character to one its own condition accepts (`for ch == '/' && … {
			// for ch != '\n' … { advance } }`: the helpers written out in place)
			if !onEvery {
				if iff, ok := terminator(h).(*ssa.If); ok && inLoop[h.Succs[0]] {
					if bo, ok := iff.Cond.(*ssa.BinOp); ok && bo.Op == token.EQL {
						var kv ssa.Value
						if ld, ok := bo.X.(*ssa.UnOp); ok && ld.Op == token.MUL && fieldKey(ld.X) == "lexer.Lexer.ch" {
							kv = bo.Y
						} else if ld, ok := bo.Y.(*ssa.UnOp); ok && ld.Op == token.MUL && fieldKey(ld.X) == "lexer.Lexer.ch" {
							kv = bo.X
						}
						for kv != nil {
							if cv, ok := kv.(*ssa.Convert); ok {
								kv = cv.X
								continue
							}
							break
						}
						if k, ok := kv.(*ssa.Const); ok && k.Value != nil && k.Value.Kind() == constant.Int {
							if c, exact := constant.Int64Val(k.Value); exact {
								for _, lp := range charLoops(p, adv) {
									if lp.fn != fn || lp.h == h || !inLoop[lp.h] {
										continue
									}
									all := true
									for _, bk := range backs {
										if !(lp.h == bk || lp.h.Dominates(bk)) {
											all = false
										}
									}
									// nothing advances between the outer test and the inner loop
									if v, known := lp.skips(rune(c)); all && known && v && noAdvanceBetween(h, lp.h, inLoop, advancing) {
										onEvery = true
									}
								}
							}
						}
					}
				}
			}
			// (2) an exit taken at the sentinel
			exitsAtEnd := false
			for b := range inLoop {
				iff, ok := terminator(b).(*ssa.If)
				if !ok {
					continue
				}
				out0, out1 := !inLoop[b.Succs[0]], !inLoop[b.Succs[1]]
				if !out0 && !out1 {
					continue
				}
				// short-circuit conditions arrive as φ of constants and tests:
				// evaluate the tests feeding the φ
				conds := []ssa.Value{iff.Cond}
				if ph, ok := iff.Cond.(*ssa.Phi); ok {
					conds = ph.Edges
				}
				for _, c := range conds {
					// the position compared with the length of the input: true at
					// the end whatever the characters are
					if atEnd, ok := positionEndTest(c); ok {
						if (atEnd && out0) || (!atEnd && out1) {
							exitsAtEnd = true
						}
						continue
					}
					v, known := evalAtSentinel(c)
					if !known {
						continue
					}
					if (v && out0) || (!v && out1) {
						exitsAtEnd = true
					}
				}
			}
			switch {
			case !onEvery:
				r.Fail(key, p.Pos(firstPos(h)), "some cycle of this loop does not advance the read position (no call of "+adv.Name()+" or of a lexer function that calls it dominates the loop's back edges): the lexer can spin for ever on some input")
			case !exitsAtEnd:
				r.Fail(key, p.Pos(firstPos(h)), "no exit of this loop is taken when the current character is the end-of-input sentinel: on input that ends inside this construct (e.g. a comment or identifier at the very end without a newline) the loop never terminates")
			default:
				r.OkNT(key, p.Pos(firstPos(h)), "advances on every cycle and exits at the end of the input (sentinel character or position test)")
			}
		}
	}
	// (3) no recursion among lexer functions
	rec := false
	for _, comp := range librarySCCs(p) {
		for _, f := range comp {
			if fnPkg(f).Pkg.Path() == Mod+"/lexer" {
				rec = true
				r.Fail("lexer recursion through "+p.FnName(f), p.Pos(f.Pos()), "the lexer recurses: each skipped construct costs a stack frame, and termination no longer follows from loop progress")
			}
		}
	}
	if !rec {
		r.OkNT("the lexer does not recurse", "-", "no lexer function is part of a recursive component")
	}
}

func loopLabel(p *Program, fn *ssa.Function, h *ssa.BasicBlock) string {
	// a line-free label: ordinal of the loop header among the function's headers
	n := 0
	for _, b := range fn.Blocks {
		isH := false
		for _, pd := range b.Preds {
			if b.Dominates(pd) {
				isH = true
			}
		}
		if isH {
			n++
			if b == h {
				return fmt.Sprintf("#%d (%s)", n, h.Comment)
			}
		}
	}
	return h.Comment
}

// ---------------------------------------------------------------------------
// R-EOFSENTINEL

func ruleEOFSentinel(p *Program, r *Reporter) {
	eof, ok := tokenConst(p, "EOF")
	if !ok {
		r.Undecided("token.EOF", "-", "cannot read the constant")
		return
	}
	n := 0
	for _, fn := range lexerFns(p) {
		for _, b := range fn.Blocks {
			for _, ins := range b.Instrs {
				st, ok := ins.(*ssa.Store)
				if !ok {
					continue
				}
				c, ok := st.Val.(*ssa.Const)
				if !ok || c.Value == nil || c.Value.Kind() != constant.String || constant.StringVal(c.Value) != eof || !isNamed(c.Type(), "token", "Type") {
					continue
				}
				n++
				key := p.FnName(fn) + "/end-of-input token produced"
				// dominated by a test of position against len(characters)
				guarded := false
				for d := b; d.Idom() != nil; d = d.Idom() {
					id := d.Idom()
					iff, ok := terminator(id).(*ssa.If)
					if !ok {
						continue
					}
					bo, ok := iff.Cond.(*ssa.BinOp)
					if !ok {
						continue
					}
					isPos := func(v ssa.Value) bool {
						u, ok := v.(*ssa.UnOp)
						return ok && u.Op == token.MUL && (fieldKey(u.X) == "lexer.Lexer.position" || fieldKey(u.X) == "lexer.Lexer.readPosition")
					}
					isLen := func(v ssa.Value) bool {
						lc, ok := isBuiltinCall(v, "len")
						if !ok {
							return false
						}
						u, ok := lc.Call.Args[0].(*ssa.UnOp)
						return ok && strings.HasPrefix(fieldKey(u.X), "lexer.Lexer.")
					}
					if !((isPos(bo.X) && isLen(bo.Y)) || (isLen(bo.X) && isPos(bo.Y))) {
						continue
					}
					// the EOF block must lie on the "position >= length" side — the
					// position of the *current* character: the read-ahead position is
					// one further on, so for it the test is "> length" (with ">=" the
					// last character of the input would already count as the end, and
					// a NUL there would be taken for the sentinel)
					ahead := func(v ssa.Value) bool {
						u, ok := v.(*ssa.UnOp)
						return ok && u.Op == token.MUL && fieldKey(u.X) == "lexer.Lexer.readPosition"
					}
					strict := ahead(bo.X) || ahead(bo.Y)
					atEnd := id.Succs[0]
					switch {
					case isPos(bo.X) && (bo.Op == token.GTR || !strict && (bo.Op == token.GEQ || bo.Op == token.EQL)):
					case isLen(bo.X) && (bo.Op == token.LSS || !strict && (bo.Op == token.LEQ || bo.Op == token.EQL)):
					case isPos(bo.X) && (bo.Op == token.LEQ || !strict && (bo.Op == token.LSS || bo.Op == token.NEQ)):
						atEnd = id.Succs[1]
					case isLen(bo.X) && (bo.Op == token.GEQ || !strict && (bo.Op == token.GTR || bo.Op == token.NEQ)):
						atEnd = id.Succs[1]
					default:
						continue
					}
					if len(atEnd.Preds) == 1 && (atEnd == b || atEnd.Dominates(b)) {
						guarded = true
					}
				}
				r.Check(guarded, key, p.Pos(st.Pos()), "only when the position has reached the length of the input", "the end-of-input token is produced whenever the current character equals the sentinel value, without comparing the position with the length of the input: a NUL byte inside a script silently truncates it there, and the rest — valid or not — is never translated")
			}
		}
	}
	if n == 0 {
		r.Undecided("end-of-input token", "-", "no store of the EOF token type found in the lexer")
	}
	// the same for every other place that asks whether the input has ended:
	// the sentinel character may only lead to a test of the position
	isPos := func(v ssa.Value) bool {
		u, ok := v.(*ssa.UnOp)
		return ok && u.Op == token.MUL && (fieldKey(u.X) == "lexer.Lexer.position" || fieldKey(u.X) == "lexer.Lexer.readPosition")
	}
	isLen := func(v ssa.Value) bool {
		lc, ok := isBuiltinCall(v, "len")
		if !ok {
			return false
		}
		u, ok := lc.Call.Args[0].(*ssa.UnOp)
		return ok && strings.HasPrefix(fieldKey(u.X), "lexer.Lexer.")
	}
	posTest := func(b *ssa.BasicBlock) bool {
		iff, ok := terminator(b).(*ssa.If)
		if !ok {
			return false
		}
		if bo, ok := iff.Cond.(*ssa.BinOp); ok {
			return (isPos(bo.X) && isLen(bo.Y)) || (isLen(bo.X) && isPos(bo.Y))
		}
		// a helper that makes the comparison
		if c, ok := iff.Cond.(*ssa.Call); ok && c.Call.StaticCallee() != nil {
			for _, hb := range c.Call.StaticCallee().Blocks {
				for _, hi := range hb.Instrs {
					if bo, ok := hi.(*ssa.BinOp); ok && ((isPos(bo.X) && isLen(bo.Y)) || (isLen(bo.X) && isPos(bo.Y))) {
						return true
					}
				}
			}
		}
		return false
	}
	for _, fn := range lexerFns(p) {
		nth := 0
		for _, b := range fn.Blocks {
			iff, ok := terminator(b).(*ssa.If)
			if !ok {
				continue
			}
			bo, ok := iff.Cond.(*ssa.BinOp)
			if !ok || (bo.Op != token.EQL && bo.Op != token.NEQ) {
				continue
			}
			x, y := bo.X, bo.Y
			if _, isC := x.(*ssa.Const); isC {
				x, y = y, x
			}
			ld, ok := x.(*ssa.UnOp)
			if !ok || ld.Op != token.MUL || fieldKey(ld.X) != "lexer.Lexer.ch" {
				continue
			}
			if k, ok := constInt(y); !ok || k != 0 {
				continue
			}
			nth++
			key := fmt.Sprintf("%s/sentinel test %d is backed by the position", p.FnName(fn), nth)
			zero := b.Succs[0]
			if bo.Op == token.NEQ {
				zero = b.Succs[1]
			}
			r.Check(posTest(zero), key, p.Pos(bo.Pos()), "the zero character only leads to a comparison of the position with the length", "the current character being zero is taken for the end of the input: a NUL character inside a string, a regexp or a comment ends it there — the string is reported as unterminated, and the rest of a comment is read as code")
		}
	}
}

// ---------------------------------------------------------------------------
// R-ESCAPES

func ruleEscapes(p *Program, r *Reporter) {
	pk := p.ByPath[Mod+"/lexer"]
	info := pk.TypesInfo
	// the string reader: the function that returns (string, error) and takes a rune
	found := map[rune]rune{}
	pos := map[rune]token.Pos{}
	var reader *ast.FuncDecl
	for _, f := range pk.Syntax {
		for _, d := range f.Decls {
			fd, ok := d.(*ast.FuncDecl)
			if !ok || fd.Body == nil || fd.Type.Params == nil || len(fd.Type.Params.List) != 1 {
				continue
			}
			sig, ok := info.Defs[fd.Name].Type().(*types.Signature)
			if !ok || sig.Params().Len() != 1 || sig.Results().Len() != 2 {
				continue
			}
			if b, ok := sig.Params().At(0).Type().Underlying().(*types.Basic); !ok || b.Kind() != types.Int32 {
				continue
			}
			reader = fd
		}
	}
	if reader == nil {
		r.Undecided("string reader", "-", "no lexer function with signature (rune) (string, error)")
		return
	}
	isCh := func(e ast.Expr) bool {
		sel, ok := ast.Unparen(e).(*ast.SelectorExpr)
		if !ok {
			return false
		}
		// the lexer's current character: its one field of type rune
		s, ok := info.Selections[sel]
		return ok && s.Kind() == types.FieldVal && isBasicKind(types.Int32)(s.Obj().Type()) && isNamed(s.Recv(), "lexer", "Lexer")
	}
	runeConst := func(e ast.Expr) (rune, bool) {
		tv, ok := info.Types[e]
		if !ok || tv.Value == nil || tv.Value.Kind() != constant.Int {
			return 0, false
		}
		v, _ := constant.Int64Val(tv.Value)
		return rune(v), true
	}
	isChField := isCh
	isCh = func(e ast.Expr) bool {
		if isChField(e) {
			return true
		}
		// a local copy of the character
		id, ok := ast.Unparen(e).(*ast.Ident)
		if !ok {
			return false
		}
		v, ok := info.ObjectOf(id).(*types.Var)
		return ok && !v.IsField() && v.Pkg() != nil && v.Parent() != v.Pkg().Scope() && isBasicKind(types.Int32)(v.Type())
	}
	helperFailed := false
	ast.Inspect(reader.Body, func(n ast.Node) bool {
		// the table kept in a function from character to character: evaluated
		// for the characters it compares with and for some it does not
		if ce, ok := n.(*ast.CallExpr); ok && len(ce.Args) == 1 && isCh(ce.Args[0]) {
			if fobj, ok := calleeObj(info, ce).(*types.Func); ok && fobj.Pkg() != nil && fobj.Pkg().Path() == Mod+"/lexer" {
				sig := fobj.Type().(*types.Signature)
				if sig.Results().Len() == 1 && isBasicKind(types.Int32)(sig.Results().At(0).Type()) && isBasicKind(types.Int32)(sig.Params().At(0).Type()) {
					if sf := p.SSA.FuncValue(fobj); sf != nil {
						cands := map[rune]bool{'n': true, 'r': true, 't': true, '"': true, '\\': true, '\'': true, 'a': true, 'q': true, 'x': true, '0': true, '/': true, ' ': true}
						for _, b := range sf.Blocks {
							for _, ins := range b.Instrs {
								for _, op := range ins.Operands(nil) {
									if c, ok := (*op).(*ssa.Const); ok && c.Value != nil && c.Value.Kind() == constant.Int && isBasicKind(types.Int32)(c.Type()) {
										v, _ := constant.Int64Val(c.Value)
										cands[rune(v)] = true
									}
								}
							}
						}
						for c := range cands {
							res, ok := evalPure(sf, constant.MakeInt64(int64(c)), 0)
							if !ok || res.Kind() != constant.Int {
								helperFailed = true
								r.Undecided(fmt.Sprintf("escape \\%c", c), p.Pos(ce.Pos()), "the translation function "+fobj.Name()+" cannot be evaluated for this character")
								continue
							}
							v, _ := constant.Int64Val(res)
							if rune(v) != c || c == 'n' || c == 'r' || c == 't' {
								found[c] = rune(v)
								pos[c] = ce.Pos()
							}
						}
					}
				}
			}
		}
		// the same table written as a switch over the character
		if sw, ok := n.(*ast.SwitchStmt); ok && sw.Tag != nil && isCh(sw.Tag) {
			for _, cc := range sw.Body.List {
				cl := cc.(*ast.CaseClause)
				if len(cl.Body) != 1 {
					continue
				}
				as, ok := cl.Body[0].(*ast.AssignStmt)
				if !ok || len(as.Lhs) != 1 || !isCh(as.Lhs[0]) {
					continue
				}
				to, ok := runeConst(as.Rhs[0])
				if !ok {
					continue
				}
				for _, e := range cl.List {
					if from, ok := runeConst(e); ok {
						found[from] = to
						pos[from] = cl.Pos()
					}
				}
			}
			return true
		}
		iff, ok := n.(*ast.IfStmt)
		// the same table kept in a package-level map that is never written:
		// `if to, ok := escapes[l.ch]; ok { l.ch = to }`
		if ok && iff.Init != nil && len(iff.Body.List) == 1 {
			if as, isAs := iff.Init.(*ast.AssignStmt); isAs && len(as.Lhs) == 2 && len(as.Rhs) == 1 {
				if ix, isIx := ast.Unparen(as.Rhs[0]).(*ast.IndexExpr); isIx && isCh(ix.Index) {
					if id, isId := ast.Unparen(ix.X).(*ast.Ident); isId {
						if gv, isVar := info.ObjectOf(id).(*types.Var); isVar && gv.Pkg() != nil && gv.Parent() == gv.Pkg().Scope() {
							body, isBody := iff.Body.List[0].(*ast.AssignStmt)
							toID, _ := as.Lhs[0].(*ast.Ident)
							okID, _ := as.Lhs[1].(*ast.Ident)
							condID, _ := ast.Unparen(iff.Cond).(*ast.Ident)
							if isBody && toID != nil && okID != nil && condID != nil && info.ObjectOf(condID) == info.ObjectOf(okID) && len(body.Lhs) == 1 && isCh(body.Lhs[0]) {
								if rid, isR := ast.Unparen(body.Rhs[0]).(*ast.Ident); isR && info.ObjectOf(rid) == info.ObjectOf(toID) {
									var g *ssa.Global
									if sp := p.SSAPkg[Mod+"/lexer"]; sp != nil {
										g, _ = sp.Members[gv.Name()].(*ssa.Global)
									}
									if g != nil && globalNeverWritten(p, g) {
										for _, f := range pk.Syntax {
											ast.Inspect(f, func(m ast.Node) bool {
												vs, isVS := m.(*ast.ValueSpec)
												if !isVS {
													return true
												}
												for i, nm := range vs.Names {
													if info.Defs[nm] != types.Object(gv) || i >= len(vs.Values) {
														continue
													}
													if cl, isCL := vs.Values[i].(*ast.CompositeLit); isCL {
														for _, el := range cl.Elts {
															if kv, isKV := el.(*ast.KeyValueExpr); isKV {
																from, ok1 := runeConst(kv.Key)
																to, ok2 := runeConst(kv.Value)
																if ok1 && ok2 {
																	found[from] = to
																	pos[from] = kv.Pos()
																}
															}
														}
													}
												}
												return true
											})
										}
									}
								}
							}
						}
					}
				}
			}
		}
		// (an else-if chain is a sequence of such tests: each link is visited)
		if !ok || iff.Init != nil || len(iff.Body.List) != 1 {
			return true
		}
		be, ok := ast.Unparen(iff.Cond).(*ast.BinaryExpr)
		if !ok || be.Op != token.EQL || !isCh(be.X) {
			return true
		}
		from, ok := runeConst(be.Y)
		if !ok {
			return true
		}
		as, ok := iff.Body.List[0].(*ast.AssignStmt)
		if !ok || len(as.Lhs) != 1 || !isCh(as.Lhs[0]) {
			return true
		}
		to, ok := runeConst(as.Rhs[0])
		if !ok {
			return true
		}
		found[from] = to
		pos[from] = iff.Pos()
		return true
	})
	if helperFailed {
		return
	}
	// C14: "\n \r \t \" \\ ... any other escaped character taken literally"
	want := map[rune]rune{'n': '\n', 'r': '\r', 't': '\t'}
	identity := map[rune]bool{'"': true, '\\': true}
	var keys []rune
	for k := range want {
		keys = append(keys, k)
	}
	sort.Slice(keys, func(i, j int) bool { return keys[i] < keys[j] })
	for _, k := range keys {
		key := fmt.Sprintf("escape \\%c", k)
		got, ok := found[k]
		switch {
		case !ok:
			r.Fail(key, p.Pos(reader.Pos()), fmt.Sprintf("the string reader has no rule turning \\%c into %q: the escape denotes the letter itself", k, want[k]))
		case got != want[k]:
			r.Fail(key, p.Pos(pos[k]), fmt.Sprintf("\\%c is turned into %q; the language defines %q", k, got, want[k]))
		default:
			r.Ok(key, p.Pos(pos[k]), fmt.Sprintf("→ %q", got))
		}
	}
	for k, v := range found {
		if _, ok := want[k]; ok {
			continue
		}
		key := fmt.Sprintf("escape \\%c", k)
		if k == v {
			r.Ok(key, p.Pos(pos[k]), "denotes itself")
			continue
		}
		_ = identity
		r.Fail(key, p.Pos(pos[k]), fmt.Sprintf("\\%c is turned into %q, but every escaped character other than n, r and t denotes itself", k, v))
	}
}

// noAdvanceBetween: on the way from the test in h to the loop headed by to
// (inside the outer loop) no advancing call is made — the character the
// outer test saw is the character the inner loop starts with.
func noAdvanceBetween(h, to *ssa.BasicBlock, inLoop map[*ssa.BasicBlock]bool, advancing map[*ssa.Function]bool) bool {
	seen := map[*ssa.BasicBlock]bool{}
	ok := true
	var walk func(b *ssa.BasicBlock)
	walk = func(b *ssa.BasicBlock) {
		if seen[b] || !inLoop[b] || b == to || !ok {
			return
		}
		seen[b] = true
		for _, ins := range b.Instrs {
			if cc := callOf(ins); cc != nil && cc.StaticCallee() != nil && advancing[cc.StaticCallee()] {
				ok = false
			}
		}
		for _, s := range b.Succs {
			if s != h {
				walk(s)
			}
		}
	}
	for _, s := range h.Succs {
		walk(s)
	}
	return ok
}
