package main

// Obligations, verdict bookkeeping, known findings and evidence files.

import (
	"bufio"
	"encoding/json"
	"fmt"
	"os"
	"path/filepath"
	"sort"
	"strings"
)

type Verdict string

const (
	OK        Verdict = "ok"
	Fail      Verdict = "fail"
	Undecided Verdict = "undecided" // counts as failure: never silently skipped
	Info      Verdict = "info"      // listed in evidence, no bearing on the verdict
)

// Obligation is one decided (or undecidable) instance of a rule.
type Obligation struct {
	Rule       string  `json:"rule"`
	Key        string  `json:"key"` // semantic construct key: no line numbers
	Pos        string  `json:"pos"` // file:line, for the reader only
	Verdict    Verdict `json:"verdict"`
	Detail     string  `json:"detail,omitempty"`
	Nontrivial bool    `json:"nontrivial,omitempty"` // needed a path/dataflow/call-graph argument
}

// Rule is one repository-specific checker.
type Rule struct {
	ID    string
	Text  string // the rule, in one or two sentences (goes to evidence)
	Floor int    // minimum number of ok+fail obligations confirmed by hand
	Run   func(p *Program, r *Reporter)
}

// Reporter collects the obligations of one rule run.
type Reporter struct {
	rule *Rule
	prog *Program
	obls []Obligation
	seen map[string]int
}

func (r *Reporter) add(v Verdict, key, pos, detail string, nontrivial bool) {
	if r.seen == nil {
		r.seen = map[string]int{}
	}
	// keys must be unique per rule: disambiguate repeated constructs by order
	// of appearance (stable under line moves).
	r.seen[key]++
	if n := r.seen[key]; n > 1 {
		key = fmt.Sprintf("%s#%d", key, n)
	}
	r.obls = append(r.obls, Obligation{Rule: r.rule.ID, Key: key, Pos: pos, Verdict: v, Detail: detail, Nontrivial: nontrivial})
}

func (r *Reporter) Ok(key, pos, detail string)   { r.add(OK, key, pos, detail, false) }
func (r *Reporter) OkNT(key, pos, detail string) { r.add(OK, key, pos, detail, true) }
func (r *Reporter) Fail(key, pos, detail string) { r.add(Fail, key, pos, detail, true) }
func (r *Reporter) Undecided(key, pos, detail string) {
	r.add(Undecided, key, pos, detail, true)
}
func (r *Reporter) Info(key, pos, detail string) { r.add(Info, key, pos, detail, false) }

// Check is shorthand: ok when cond, otherwise fail.
func (r *Reporter) Check(cond bool, key, pos, okDetail, failDetail string) {
	if cond {
		r.OkNT(key, pos, okDetail)
	} else {
		r.Fail(key, pos, failDetail)
	}
}

// ---------------------------------------------------------------------------
// Known findings

type Known struct {
	Kind     string // "known" or "fixed"
	Property string
	Rule     string
	Key      string
	What     string
	Line     string
}

// LoadKnown parses known_findings.txt.  Format, one entry per line:
//
//	known: property=C03 rule=R-FOLDAGREE key=<key> :: <what fails, with the input>
//	fixed: property=C13 <commit> rule=R-ERRPROP key=<key> :: <what failed>
//
// The key runs up to " :: ".  Lines starting with # and blank lines are
// ignored.  Nothing ever writes this file at run time.
func LoadKnown(path string) ([]Known, error) {
	f, err := os.Open(path)
	if err != nil {
		if os.IsNotExist(err) {
			return nil, nil
		}
		return nil, err
	}
	defer f.Close()
	var out []Known
	sc := bufio.NewScanner(f)
	sc.Buffer(make([]byte, 1<<20), 1<<20)
	for sc.Scan() {
		line := strings.TrimSpace(sc.Text())
		if line == "" || strings.HasPrefix(line, "#") {
			continue
		}
		var k Known
		switch {
		case strings.HasPrefix(line, "known:"):
			k.Kind = "known"
		case strings.HasPrefix(line, "fixed:"):
			k.Kind = "fixed"
		default:
			return nil, fmt.Errorf("known_findings: unparsable line %q", line)
		}
		k.Line = line
		rest := strings.TrimSpace(line[6:])
		what := ""
		if i := strings.Index(rest, " :: "); i >= 0 {
			what = rest[i+4:]
			rest = rest[:i]
		}
		k.What = what
		if i := strings.Index(rest, " key="); i >= 0 {
			k.Key = strings.TrimSpace(rest[i+5:])
			rest = rest[:i]
		}
		for _, f := range strings.Fields(rest) {
			if strings.HasPrefix(f, "property=") {
				k.Property = f[9:]
			}
			if strings.HasPrefix(f, "rule=") {
				k.Rule = f[5:]
			}
		}
		if k.Property == "" || k.Rule == "" || k.Key == "" {
			return nil, fmt.Errorf("known_findings: entry lacks property/rule/key: %q", line)
		}
		out = append(out, k)
	}
	return out, sc.Err()
}

// ---------------------------------------------------------------------------
// Evidence

type Evidence struct {
	PropertyID  string                 `json:"property_id"`
	Tier        string                 `json:"tier"`
	Seed        int                    `json:"seed"`
	Level       string                 `json:"level"`
	Coverage    map[string]interface{} `json:"coverage"`
	Assumptions []string               `json:"assumptions"`
	WallS       float64                `json:"wall_s"`
	Violations  int                    `json:"violations"`
}

func writeJSON(path string, v interface{}) error {
	if err := os.MkdirAll(filepath.Dir(path), 0o755); err != nil {
		return err
	}
	b, err := json.MarshalIndent(v, "", " ")
	if err != nil {
		return err
	}
	tmp := path + ".tmp"
	if err := os.WriteFile(tmp, append(b, '\n'), 0o644); err != nil {
		return err
	}
	return os.Rename(tmp, path)
}

// samplesOf picks the first few obligations of every rule (failures first).
func samplesOf(obls []Obligation, perRule int) []Obligation {
	byRule := map[string][]Obligation{}
	var order []string
	for _, o := range obls {
		if _, ok := byRule[o.Rule]; !ok {
			order = append(order, o.Rule)
		}
		byRule[o.Rule] = append(byRule[o.Rule], o)
	}
	var out []Obligation
	for _, r := range order {
		l := byRule[r]
		sort.SliceStable(l, func(i, j int) bool {
			rank := func(v Verdict) int {
				switch v {
				case Fail, Undecided:
					return 0
				case OK:
					return 1
				}
				return 2
			}
			return rank(l[i].Verdict) < rank(l[j].Verdict)
		})
		n := perRule
		if len(l) < n {
			n = len(l)
		}
		out = append(out, l[:n]...)
	}
	return out
}
