package main

// Built-in function rules: guarded argument access (R-ARGGUARD), inputs left
// unchanged (R-PUREARGS), numeric built-ins do not order by printed form
// (R-NUMORDER), registration names (R-REGISTRY).

import (
	"fmt"
	"go/ast"
	"go/constant"
	"go/token"
	"go/types"
	"sort"
	"strings"

	"golang.org/x/tools/go/ssa"
)

func init() {
	register(&Rule{ID: "R-ARGGUARD", Floor: 40, Run: ruleArgGuard,
		Text: "In the built-ins every args[k] is dominated by a length test implying k < len(args), and every unchecked assertion of an argument to a concrete object type is dominated by the matching Type() test on the same element — in the function itself or at every one of its call sites."})
	register(&Rule{ID: "R-PUREARGS", Floor: 25, Run: rulePureArgs,
		Text: "No built-in writes into, sorts in place, or calls a mutating method on an object reachable from its arguments."})
	register(&Rule{ID: "R-NUMORDER", Floor: 3, Run: ruleNumOrder,
		Text: "min, max and between never reach an ordering of printed forms (a string comparison) when both arguments are numbers: every call that can reach one lies outside the branch taken when the arguments test as numeric."})
}

// builtinFns: functions of package environment whose first parameter is
// []object.Object.
func builtinFns(p *Program) []*ssa.Function {
	var out []*ssa.Function
	for _, fn := range p.LibFns {
		if fnPkg(fn).Pkg.Path() != Mod+"/environment" || fn.Parent() != nil || len(fn.Params) == 0 || fn.Signature.Recv() != nil {
			continue
		}
		if sl, ok := fn.Params[0].Type().Underlying().(*types.Slice); ok && isObjectIface(sl.Elem()) {
			out = append(out, fn)
		}
	}
	sort.Slice(out, func(i, j int) bool { return out[i].Name() < out[j].Name() })
	return out
}

// registered: name → function, from the SetFunction calls of the constructor.
func registeredBuiltins(p *Program) map[string]*ssa.Function {
	out := map[string]*ssa.Function{}
	setFn := methodOf(p, "environment", "Environment", "SetFunction")
	newFn := p.Fn("environment.New")
	if setFn == nil || newFn == nil {
		return out
	}
	for _, c := range callsTo(newFn, setFn) {
		k, ok := c.Common().Args[1].(*ssa.Const)
		if !ok || k.Value == nil {
			continue
		}
		if mi, ok := c.Common().Args[2].(*ssa.MakeInterface); ok {
			if f, ok := mi.X.(*ssa.Function); ok {
				out[constant.StringVal(k.Value)] = f
			}
		}
	}
	// the registrations kept as a table: a package-level slice of (name,
	// function) entries that New walks, registering every entry
	for _, c := range callsTo(newFn, setFn) {
		if _, isConst := c.Common().Args[1].(*ssa.Const); isConst {
			continue
		}
		names, fns, _ := tableRegistrations(p, c.Common().Args[1])
		for i, n := range names {
			if fns[i] != nil {
				out[n] = fns[i]
			}
		}
	}
	return out
}

// ---- abstract length set: bits 0..5 = len==i, bit 6 = len>=6
type lenset uint8

const allLens lenset = 0x7f

func restrictLen(op token.Token, k int64) lenset {
	var s lenset
	for i := int64(0); i <= 6; i++ {
		ok := false
		switch op {
		case token.EQL:
			ok = i == k
			if i == 6 {
				ok = k >= 6
			}
		case token.NEQ:
			ok = i != k || i == 6
		case token.LSS:
			ok = i < k
			if i == 6 {
				ok = k > 6
			}
		case token.LEQ:
			ok = i <= k
			if i == 6 {
				ok = k >= 6
			}
		case token.GTR:
			ok = i > k || i == 6
		case token.GEQ:
			ok = i >= k || i == 6
		}
		if ok {
			s |= 1 << uint(i)
		}
	}
	return s
}

func negateCmp(op token.Token) token.Token {
	switch op {
	case token.EQL:
		return token.NEQ
	case token.NEQ:
		return token.EQL
	case token.LSS:
		return token.GEQ
	case token.LEQ:
		return token.GTR
	case token.GTR:
		return token.LEQ
	case token.GEQ:
		return token.LSS
	}
	return token.ILLEGAL
}

type argFact struct {
	idx int64
	typ string // concrete object struct name
}

type argState struct {
	lens  lenset
	types map[argFact]bool
	top   bool
}

// argElem: v is a load of args[k] with constant k.
func argElem(v ssa.Value, args ssa.Value) (int64, bool) {
	u, ok := v.(*ssa.UnOp)
	if !ok || u.Op != token.MUL {
		return 0, false
	}
	ia, ok := u.X.(*ssa.IndexAddr)
	if !ok || !isArgsVal(ia.X, args) {
		return 0, false
	}
	return constInt(ia.Index)
}

// isArgsVal: v is the args parameter, or a load of the slot it was spilled to
// (go/ssa spills a parameter that a closure captures).
func isArgsVal(v ssa.Value, args ssa.Value) bool {
	if v == args {
		return true
	}
	u, ok := v.(*ssa.UnOp)
	if !ok || u.Op != token.MUL {
		return false
	}
	al, ok := u.X.(*ssa.Alloc)
	if !ok {
		return false
	}
	n := 0
	for _, ref := range *al.Referrers() {
		if st, ok := ref.(*ssa.Store); ok && st.Addr == ssa.Value(al) {
			n++
			if st.Val != args {
				return false
			}
		}
	}
	return n == 1
}

// objectTypeConsts: value of the Type() constant → struct name.
func objectTypeConsts(p *Program) map[string]string {
	out := map[string]string{}
	for _, fn := range p.LibFns {
		if fn.Name() != "Type" || fn.Signature.Recv() == nil {
			continue
		}
		tn := objectStructName(fn.Signature.Recv().Type())
		if tn == "" {
			continue
		}
		for _, b := range fn.Blocks {
			if ret, ok := terminator(b).(*ssa.Return); ok && len(ret.Results) == 1 {
				if c, ok := ret.Results[0].(*ssa.Const); ok && c.Value != nil {
					out[constant.StringVal(c.Value)] = tn
				}
			}
		}
	}
	return out
}

type argPending struct {
	fn   *ssa.Function
	key  string
	pos  token.Pos
	need func(argState) bool
	msg  string
}

func ruleArgGuard(p *Program, r *Reporter) {
	typeConst := objectTypeConsts(p)
	if len(typeConst) < 8 {
		r.Undecided("object type constants", "-", "cannot read the Type() constants of the object types")
		return
	}
	fns := builtinFns(p)
	registered := map[*ssa.Function]bool{}
	for _, f := range registeredBuiltins(p) {
		registered[f] = true
	}
	callerStates := map[*ssa.Function][]argState{}
	var pend []argPending
	for _, fn := range fns {
		args := ssa.Value(fn.Params[0])
		in := map[*ssa.BasicBlock]*argState{}
		for _, b := range fn.Blocks {
			in[b] = &argState{top: true}
		}
		in[fn.Blocks[0]] = &argState{lens: allLens, types: map[argFact]bool{}}
		edge := func(pd, s *ssa.BasicBlock) *argState {
			st := in[pd]
			if st.top {
				return st
			}
			out := &argState{lens: st.lens, types: map[argFact]bool{}}
			for k := range st.types {
				out.types[k] = true
			}
			iff, ok := terminator(pd).(*ssa.If)
			if !ok || pd.Succs[0] == pd.Succs[1] {
				return out
			}
			branch := pd.Succs[0] == s
			cond := iff.Cond
			for {
				if u, ok := cond.(*ssa.UnOp); ok && u.Op == token.NOT {
					cond, branch = u.X, !branch
					continue
				}
				break
			}
			bo, ok := cond.(*ssa.BinOp)
			if !ok {
				return out
			}
			op := bo.Op
			if !branch {
				op = negateCmp(op)
			}
			if lc, ok := isBuiltinCall(bo.X, "len"); ok && isArgsVal(lc.Call.Args[0], args) {
				if k, ok := constInt(bo.Y); ok && op != token.ILLEGAL {
					out.lens &= restrictLen(op, k)
				}
			}
			if c, ok := bo.X.(*ssa.Call); ok && c.Call.IsInvoke() && c.Call.Method.Name() == "Type" && op == token.EQL {
				if k, ok := argElem(c.Call.Value, args); ok {
					if cc, ok := bo.Y.(*ssa.Const); ok && cc.Value != nil && cc.Value.Kind() == constant.String {
						if tn := typeConst[constant.StringVal(cc.Value)]; tn != "" {
							out.types[argFact{k, tn}] = true
						}
					}
				}
			}
			return out
		}
		for changed := true; changed; {
			changed = false
			for _, b := range fn.Blocks[1:] {
				var ns *argState
				for _, pd := range b.Preds {
					e := edge(pd, b)
					if e.top {
						continue
					}
					if ns == nil {
						ns = e
					} else {
						ns.lens |= e.lens
						for k := range ns.types {
							if !e.types[k] {
								delete(ns.types, k)
							}
						}
					}
				}
				if ns == nil {
					continue
				}
				old := in[b]
				if old.top || old.lens != ns.lens || len(old.types) != len(ns.types) {
					in[b] = ns
					changed = true
				}
			}
		}
		for _, b := range fn.Blocks {
			st := in[b]
			if st.top {
				continue
			}
			for _, ins := range b.Instrs {
				switch v := ins.(type) {
				case *ssa.IndexAddr:
					if !isArgsVal(v.X, args) {
						continue
					}
					k, isConst := constInt(v.Index)
					if !isConst {
						// args[i] in a range/for loop bounded by len(args): go/ssa's
						// range loops are in bounds by construction
						continue
					}
					var need lenset
					for i := int64(0); i <= 6; i++ {
						if i <= k {
							need |= 1 << uint(i)
						}
					}
					key := fmt.Sprintf("%s/args[%d] within bounds", p.FnName(fn), k)
					if st.lens&need == 0 {
						r.OkNT(key, p.Pos(v.Pos()), fmt.Sprintf("possible lengths %07b", st.lens))
					} else {
						nd := need
						pend = append(pend, argPending{fn, key, v.Pos(), func(s argState) bool { return s.lens&nd == 0 },
							fmt.Sprintf("args[%d] is read where the argument count may be %s: a script calling the built-in with too few arguments makes it panic instead of returning null", k, lensStr(st.lens&need))})
					}
				case *ssa.Slice:
					if !isArgsVal(v.X, args) || v.Low == nil {
						continue
					}
					k, isConst := constInt(v.Low)
					if !isConst {
						continue
					}
					var need lenset
					for i := int64(0); i < k; i++ {
						need |= 1 << uint(i)
					}
					key := fmt.Sprintf("%s/args[%d:] within bounds", p.FnName(fn), k)
					if st.lens&need == 0 {
						r.OkNT(key, p.Pos(v.Pos()), "")
					} else {
						nd := need
						pend = append(pend, argPending{fn, key, v.Pos(), func(s argState) bool { return s.lens&nd == 0 }, fmt.Sprintf("args[%d:] is taken where fewer than %d arguments may have been given", k, k)})
					}
				case *ssa.TypeAssert:
					k, ok := argElem(v.X, args)
					if !ok || v.CommaOk {
						continue
					}
					tn := objectStructName(v.AssertedType)
					if tn == "" {
						continue
					}
					key := fmt.Sprintf("%s/args[%d].(*object.%s) guarded", p.FnName(fn), k, tn)
					if st.types[argFact{k, tn}] {
						r.OkNT(key, p.Pos(v.Pos()), "dominated by the Type() test")
					} else {
						f := argFact{k, tn}
						pend = append(pend, argPending{fn, key, v.Pos(), func(s argState) bool { return s.types[f] },
							fmt.Sprintf("args[%d] is asserted to *object.%s without a dominating test of its Type(): an argument of another type makes the built-in panic instead of returning null", k, tn)})
					}
				case *ssa.Call:
					if callee := v.Call.StaticCallee(); callee != nil && len(v.Call.Args) > 0 && isArgsVal(v.Call.Args[0], args) {
						cp := argState{lens: st.lens, types: map[argFact]bool{}}
						for k := range st.types {
							cp.types[k] = true
						}
						callerStates[callee] = append(callerStates[callee], cp)
					}
				}
			}
		}
	}
	for _, pd := range pend {
		sts := callerStates[pd.fn]
		if registered[pd.fn] || len(sts) == 0 {
			r.Fail(pd.key, p.Pos(pd.pos), pd.msg)
			continue
		}
		ok := true
		for _, s := range sts {
			if !pd.need(s) {
				ok = false
			}
		}
		if ok {
			r.OkNT(pd.key, p.Pos(pd.pos), fmt.Sprintf("established at all %d call site(s) of this helper (it is not registered as a built-in itself)", len(sts)))
		} else {
			r.Fail(pd.key, p.Pos(pd.pos), pd.msg+" (not established at every call site of this helper either)")
		}
	}
}

func lensStr(s lenset) string {
	var l []string
	for i := 0; i <= 6; i++ {
		if s&(1<<uint(i)) != 0 {
			if i == 6 {
				l = append(l, ">=6")
			} else {
				l = append(l, fmt.Sprint(i))
			}
		}
	}
	return "{" + strings.Join(l, ",") + "}"
}

// ---------------------------------------------------------------------------
// R-PUREARGS

// derivedFromArgs: v is reached from the args parameter through element loads,
// assertions, field loads, slicing and conversions.
func derivedFromArgs(v ssa.Value, args ssa.Value, depth int) bool {
	if v == args {
		return true
	}
	if depth > 10 || v == nil {
		return false
	}
	switch x := v.(type) {
	case *ssa.Alloc:
		// a parameter spilled because a closure captures it
		for _, ref := range *x.Referrers() {
			if st, ok := ref.(*ssa.Store); ok && st.Addr == ssa.Value(x) && derivedFromArgs(st.Val, args, depth+1) {
				return true
			}
		}
		return false
	case *ssa.UnOp:
		// a load of a field of a freshly allocated struct yields whatever was
		// stored into that field: &object.Array{Elements: in.Elements} shares
		// the argument's backing array
		if fa, ok := x.X.(*ssa.FieldAddr); ok && x.Op == token.MUL {
			if al, ok := throughLocal(fa.X).(*ssa.Alloc); ok {
				for _, ref := range allocAliases(al) {
					fa2, ok := ref.(*ssa.FieldAddr)
					if !ok || fa2.Field != fa.Field {
						continue
					}
					for _, r2 := range *fa2.Referrers() {
						if st, ok := r2.(*ssa.Store); ok && st.Addr == ssa.Value(fa2) && derivedFromArgs(st.Val, args, depth+1) {
							return true
						}
					}
				}
				return false
			}
		}
		return derivedFromArgs(x.X, args, depth+1)
	case *ssa.IndexAddr:
		return derivedFromArgs(x.X, args, depth+1)
	case *ssa.FieldAddr:
		return derivedFromArgs(x.X, args, depth+1)
	case *ssa.Field:
		return derivedFromArgs(x.X, args, depth+1)
	case *ssa.TypeAssert:
		return derivedFromArgs(x.X, args, depth+1)
	case *ssa.Extract:
		return derivedFromArgs(x.Tuple, args, depth+1)
	case *ssa.Slice:
		return derivedFromArgs(x.X, args, depth+1)
	case *ssa.ChangeType:
		return derivedFromArgs(x.X, args, depth+1)
	case *ssa.ChangeInterface:
		return derivedFromArgs(x.X, args, depth+1)
	case *ssa.MakeInterface:
		return derivedFromArgs(x.X, args, depth+1)
	case *ssa.Phi:
		for _, e := range x.Edges {
			if derivedFromArgs(e, args, depth+1) {
				return true
			}
		}
	case *ssa.Lookup:
		return derivedFromArgs(x.X, args, depth+1)
	}
	return false
}

// throughLocal: a load of a local variable that is assigned exactly once is
// the assigned value (variables captured by closures are spilled to memory).
func throughLocal(v ssa.Value) ssa.Value {
	for i := 0; i < 4; i++ {
		u, ok := v.(*ssa.UnOp)
		if !ok || u.Op != token.MUL {
			return v
		}
		al, ok := u.X.(*ssa.Alloc)
		if !ok {
			return v
		}
		var only ssa.Value
		n := 0
		for _, ref := range *al.Referrers() {
			if st, ok := ref.(*ssa.Store); ok && st.Addr == ssa.Value(al) {
				only = st.Val
				n++
			}
		}
		if n != 1 {
			return v
		}
		v = only
	}
	return v
}

// allocAliases: the instructions that use a fresh allocation, directly or
// through a once-assigned local variable that holds its address.
func allocAliases(al *ssa.Alloc) []ssa.Instruction {
	out := append([]ssa.Instruction{}, *al.Referrers()...)
	for _, ref := range *al.Referrers() {
		st, ok := ref.(*ssa.Store)
		if !ok || st.Val != ssa.Value(al) {
			continue
		}
		if slot, ok := st.Addr.(*ssa.Alloc); ok {
			for _, r2 := range *slot.Referrers() {
				if ld, ok := r2.(*ssa.UnOp); ok && ld.Op == token.MUL {
					out = append(out, *ld.Referrers()...)
				}
			}
		}
	}
	return out
}

// structHoldsArgsSlice: v is (an interface holding) a freshly built struct one
// of whose fields was assigned a slice that belongs to an argument — the
// sort.Interface wrapper idiom: Swap then permutes the caller's array.
func structHoldsArgsSlice(v ssa.Value, args ssa.Value) bool {
	if mi, ok := v.(*ssa.MakeInterface); ok {
		v = mi.X
	}
	al, ok := throughLocal(v).(*ssa.Alloc)
	if !ok {
		return false
	}
	for _, ref := range allocAliases(al) {
		fa, ok := ref.(*ssa.FieldAddr)
		if !ok {
			continue
		}
		for _, r2 := range *fa.Referrers() {
			st, ok := r2.(*ssa.Store)
			if !ok || st.Addr != ssa.Value(fa) {
				continue
			}
			if _, isSlice := st.Val.Type().Underlying().(*types.Slice); isSlice && derivedFromArgs(st.Val, args, 0) {
				return true
			}
		}
	}
	return false
}

func rulePureArgs(p *Program, r *Reporter) {
	muts := mutatorMethods(p)
	mutName := map[string]bool{}
	for _, ms := range muts {
		for m := range ms {
			mutName[m] = true
		}
	}
	for _, fn := range builtinFns(p) {
		args := ssa.Value(fn.Params[0])
		bad := ""
		var badPos token.Pos
		check := func(f *ssa.Function, argsV ssa.Value) {
			for _, b := range f.Blocks {
				for _, ins := range b.Instrs {
					switch x := ins.(type) {
					case *ssa.Store:
						if _, isAlloc := x.Addr.(*ssa.Alloc); isAlloc {
							continue
						}
						if derivedFromArgs(x.Addr, argsV, 0) {
							bad, badPos = "stores into an object reachable from its arguments", x.Pos()
						}
					case *ssa.MapUpdate:
						if derivedFromArgs(x.Map, argsV, 0) {
							bad, badPos = "updates a map reachable from its arguments", x.Pos()
						}
					case *ssa.Call:
						cc := x.Call
						if cc.IsInvoke() && mutName[cc.Method.Name()] && derivedFromArgs(cc.Value, argsV, 0) {
							bad, badPos = "calls the mutating method "+cc.Method.Name()+" on an argument", x.Pos()
						}
						if cal := cc.StaticCallee(); cal != nil {
							full := calleeFullName(&cc)
							if strings.HasPrefix(full, "sort.") || strings.HasPrefix(full, "slices.Sort") || strings.HasPrefix(full, "slices.Reverse") {
								if len(cc.Args) > 0 && (derivedFromArgs(cc.Args[0], argsV, 0) || structHoldsArgsSlice(cc.Args[0], argsV)) {
									bad, badPos = "sorts/reverses in place a slice that belongs to an argument ("+full+")", x.Pos()
								}
							}
							if cal.Signature.Recv() != nil && objectStructName(cal.Signature.Recv().Type()) != "" && mutName[cal.Name()] && derivedFromArgs(cc.Args[0], argsV, 0) {
								bad, badPos = "calls the mutating method "+cal.Name()+" on an argument", x.Pos()
							}
						}
					}
				}
			}
		}
		check(fn, args)
		for _, an := range fn.AnonFuncs {
			// closures see args through free variables; a store through a captured
			// args-derived value is found by treating every free variable that
			// binds args as args itself
			for i, fv := range an.FreeVars {
				for _, b := range fn.Blocks {
					for _, ins := range b.Instrs {
						if mc, ok := ins.(*ssa.MakeClosure); ok && mc.Fn == an && i < len(mc.Bindings) && derivedFromArgs(mc.Bindings[i], args, 0) {
							check(an, fv)
						}
					}
				}
			}
		}
		key := p.FnName(fn) + " leaves its arguments unchanged"
		if bad == "" {
			r.OkNT(key, p.Pos(fn.Pos()), "no store, in-place sort or mutating call on anything reachable from args")
		} else {
			r.Fail(key, p.Pos(badPos), "this built-in "+bad+": the caller's value (a variable, a literal of the script, a field of the object) changes as a side effect of the call")
		}
	}
}

// ---------------------------------------------------------------------------
// R-NUMORDER

// orderingByText: library functions that compare strings with < <= > >=.
func orderingByText(p *Program) map[*ssa.Function]bool {
	out := map[*ssa.Function]bool{}
	for _, fn := range p.LibFns {
		for _, b := range fn.Blocks {
			for _, ins := range b.Instrs {
				bo, ok := ins.(*ssa.BinOp)
				if !ok {
					continue
				}
				switch bo.Op {
				case token.LSS, token.LEQ, token.GTR, token.GEQ:
					if isStringType(bo.X.Type()) {
						out[fn] = true
					}
				}
			}
		}
	}
	return out
}

// isNumericTest: fn is (object.Object) bool and compares Type() with both
// numeric type constants.
func isNumericTest(fn *ssa.Function, typeConst map[string]string) bool {
	ps, rs := sigParams(fn), sigResults(fn)
	if len(ps) != 1 || !isObjectIface(ps[0]) || len(rs) != 1 || !isBoolType(rs[0]) {
		return false
	}
	seen := map[string]bool{}
	for _, b := range fn.Blocks {
		for _, ins := range b.Instrs {
			if bo, ok := ins.(*ssa.BinOp); ok && bo.Op == token.EQL {
				if c, ok := bo.Y.(*ssa.Const); ok && c.Value != nil && c.Value.Kind() == constant.String {
					seen[typeConst[constant.StringVal(c.Value)]] = true
				}
			}
		}
	}
	return seen["Integer"] && seen["Float"]
}

func ruleNumOrder(p *Program, r *Reporter) {
	reg := registeredBuiltins(p)
	typeConst := objectTypeConsts(p)
	textual := orderingByText(p)
	if len(textual) == 0 {
		r.Undecided("textual orderings", "-", "no string ordering found in the library (expected the sort helper's comparator)")
		return
	}
	for _, name := range []string{"between", "max", "min"} {
		fn := reg[name]
		key := "built-in " + name + " orders numbers by value"
		if fn == nil {
			r.Undecided(key, "-", "no built-in registered under this name")
			continue
		}
		// (a one-line wrapper is judged by the implementation it shares, under
		// the constants it passes)
		wrapper := fn
		fn, live := sharedImpl(fn)
		_ = wrapper
		args := ssa.Value(fn.Params[0])
		// calls in fn that can reach a textual ordering
		var risky []*ssa.Call
		for _, b := range fn.Blocks {
			if !live[b] {
				continue
			}
			for _, ins := range b.Instrs {
				c, ok := ins.(*ssa.Call)
				if !ok {
					continue
				}
				cal := c.Call.StaticCallee()
				if cal == nil || fnPkg(cal) == nil || !IsLibPath(fnPkg(cal).Pkg.Path()) {
					continue
				}
				for f := range p.Reachable(cal) {
					if textual[f] {
						risky = append(risky, c)
						break
					}
				}
			}
		}
		// direct string orderings in fn itself
		if textual[fn] {
			r.Fail(key, p.Pos(fn.Pos()), "the built-in itself compares strings with an ordering operator")
			continue
		}
		if len(risky) == 0 {
			r.OkNT(key, p.Pos(fn.Pos()), "no path from this built-in to a comparison of printed forms")
			continue
		}
		// the all-numeric block: follow true edges of numeric tests on args elements
		var T *ssa.BasicBlock
		tested := map[int64]bool{}
		testBlocks := map[*ssa.BasicBlock]bool{}
		for _, b := range fn.Blocks {
			if !live[b] {
				continue
			}
			iff, ok := terminator(b).(*ssa.If)
			if !ok {
				continue
			}
			c, ok := iff.Cond.(*ssa.Call)
			if !ok || c.Call.StaticCallee() == nil || !isNumericTest(c.Call.StaticCallee(), typeConst) {
				continue
			}
			if k, ok := argElem(c.Call.Args[0], args); ok {
				tested[k] = true
				testBlocks[b] = true
			}
		}
		// the end of the chain of true edges: a test block whose true successor
		// is not another test, and which is entered only from true edges of tests
		// (or is the first test)
		for b := range testBlocks {
			if testBlocks[b.Succs[0]] {
				continue
			}
			viaTrue := true
			for _, pd := range b.Preds {
				if !(testBlocks[pd] && pd.Succs[0] == b) {
					viaTrue = false
				}
			}
			if viaTrue || len(b.Preds) == 0 || !anyPredIsTest(b, testBlocks) {
				T = b.Succs[0]
			}
		}
		if T == nil || !(tested[0] && tested[1]) {
			r.Fail(key, p.Pos(risky[0].Pos()), "this built-in reaches an ordering of printed forms ("+callKey(p, fn, risky[0])+") and never tests whether its arguments are numbers: \"10\" sorts before \"9\", so the numerically larger/smaller argument is chosen by its text")
			continue
		}
		// blocks reachable from T
		reach := map[*ssa.BasicBlock]bool{T: true}
		work := []*ssa.BasicBlock{T}
		for len(work) > 0 {
			b := work[len(work)-1]
			work = work[:len(work)-1]
			for _, s := range b.Succs {
				if !reach[s] && live[s] {
					reach[s] = true
					work = append(work, s)
				}
			}
		}
		leak := false
		for _, c := range risky {
			if reach[c.Block()] {
				leak = true
				r.Fail(key, p.Pos(c.Pos()), "the call "+callKey(p, fn, c)+", which orders by printed form, is reachable on the branch where both arguments are numbers")
			}
		}
		if !leak {
			r.OkNT(key, p.Pos(fn.Pos()), fmt.Sprintf("%d call(s) that order by printed form lie outside the both-numeric branch", len(risky)))
		}
	}
	// direction: min returns the smaller, max the larger, between is lo <= v <= hi
	less := numericLessFn(p)
	if less == nil {
		r.Undecided("numeric less-than helper", "-", "no helper (Object, Object) bool that returns left < right on the numeric values of its operands")
		return
	}
	r.OkNT("numeric less-than helper "+less.Name(), p.Pos(less.Pos()), "returns left < right for both the integer and the float path")
	for _, name := range []string{"min", "max"} {
		fn := reg[name]
		if fn == nil {
			continue
		}
		fn, live := sharedImpl(fn)
		args := ssa.Value(fn.Params[0])
		key := "built-in " + name + " returns the " + map[string]string{"min": "smaller", "max": "larger"}[name] + " argument"
		found := false
		for _, b := range fn.Blocks {
			if !live[b] {
				continue
			}
			iff, ok := terminator(b).(*ssa.If)
			if !ok {
				continue
			}
			c, ok := liveValue(iff.Cond, live).(*ssa.Call)
			if !ok || c.Call.StaticCallee() != less {
				continue
			}
			ka, okA := argElem(c.Call.Args[0], args)
			kb, okB := argElem(c.Call.Args[1], args)
			if !okA || !okB || ka == kb {
				continue
			}
			retArg := func(blk *ssa.BasicBlock) (int64, bool) {
				ret, ok := terminator(blk).(*ssa.Return)
				if !ok || len(ret.Results) != 1 {
					return 0, false
				}
				return argElem(ret.Results[0], args)
			}
			rt, ok1 := retArg(b.Succs[0])
			rf, ok2 := retArg(b.Succs[1])
			if !ok1 || !ok2 {
				continue
			}
			found = true
			// less(A,B) true: A is the smaller, B the larger
			wantT, wantF := ka, kb
			if name == "max" {
				wantT, wantF = kb, ka
			}
			if rt == wantT && rf == wantF {
				r.OkNT(key, p.Pos(iff.Pos()), fmt.Sprintf("less(args[%d], args[%d]) ? args[%d] : args[%d]", ka, kb, rt, rf))
			} else {
				r.Fail(key, p.Pos(iff.Pos()), fmt.Sprintf("when args[%d] < args[%d] the built-in returns args[%d], otherwise args[%d]: that is the %s of the two", ka, kb, rt, rf, map[string]string{"min": "larger", "max": "smaller"}[name]))
			}
		}
		if !found {
			r.Undecided(key, p.Pos(fn.Pos()), "cannot find the numeric comparison that selects the returned argument")
		}
	}
	if fn := reg["between"]; fn != nil {
		args := ssa.Value(fn.Params[0])
		key := "built-in between is lo <= v <= hi"
		// two tests: less(v, lo) → false ; less(hi, v) → false ; otherwise true
		lowOK, highOK := false, false
		for _, b := range fn.Blocks {
			iff, ok := terminator(b).(*ssa.If)
			if !ok {
				continue
			}
			c, ok := iff.Cond.(*ssa.Call)
			if !ok || c.Call.StaticCallee() != less {
				continue
			}
			ka, okA := argElem(c.Call.Args[0], args)
			kb, okB := argElem(c.Call.Args[1], args)
			if !okA || !okB {
				continue
			}
			// true edge returns a false boolean
			retFalse := false
			if ret, ok := terminator(b.Succs[0]).(*ssa.Return); ok && len(ret.Results) == 1 {
				retFalse = returnsBoolObject(ret.Results[0], false)
			}
			if ka == 0 && kb == 1 && retFalse {
				lowOK = true
			}
			if ka == 2 && kb == 0 && retFalse {
				highOK = true
			}
		}
		r.Check(lowOK && highOK, key, p.Pos(fn.Pos()), "v < lo → false; hi < v → false", fmt.Sprintf("between(v, lo, hi) must be false exactly when v < lo or hi < v (found lower test: %v, upper test: %v)", lowOK, highOK))
	}
}

// returnsBoolObject: v is &object.Boolean{Value: want} built in place.
func returnsBoolObject(v ssa.Value, want bool) bool {
	mi, ok := v.(*ssa.MakeInterface)
	if !ok {
		return false
	}
	al, ok := mi.X.(*ssa.Alloc)
	if !ok || objectStructName(al.Type()) != "Boolean" {
		return false
	}
	val, n := false, 0
	for _, ref := range *al.Referrers() {
		if fa, ok := ref.(*ssa.FieldAddr); ok {
			for _, r2 := range *fa.Referrers() {
				if st, ok := r2.(*ssa.Store); ok {
					if c, ok := st.Val.(*ssa.Const); ok && c.Value != nil && c.Value.Kind() == constant.Bool {
						val = constant.BoolVal(c.Value)
						n++
					}
				}
			}
		}
	}
	if n == 0 {
		return !want // zero value false
	}
	return n == 1 && val == want
}

// numericLessFn: helper (Object, Object) bool of package environment whose
// every return is `x < y` with x computed from the first and y from the second
// parameter.
func numericLessFn(p *Program) *ssa.Function {
	for _, fn := range p.LibFns {
		if fnPkg(fn).Pkg.Path() != Mod+"/environment" || fn.Parent() != nil {
			continue
		}
		ps, rs := sigParams(fn), sigResults(fn)
		if len(ps) != 2 || !isObjectIface(ps[0]) || !isObjectIface(ps[1]) || len(rs) != 1 || !isBoolType(rs[0]) {
			continue
		}
		var from func(v ssa.Value, prm *ssa.Parameter, d int) bool
		from = func(v ssa.Value, prm *ssa.Parameter, d int) bool {
			if v == ssa.Value(prm) {
				return true
			}
			if d > 8 || v == nil {
				return false
			}
			switch x := v.(type) {
			case *ssa.UnOp:
				return from(x.X, prm, d+1)
			case *ssa.FieldAddr:
				return from(x.X, prm, d+1)
			case *ssa.TypeAssert:
				return from(x.X, prm, d+1)
			case *ssa.Extract:
				return from(x.Tuple, prm, d+1)
			case *ssa.Convert:
				return from(x.X, prm, d+1)
			case *ssa.Call:
				for _, a := range x.Call.Args {
					if from(a, prm, d+1) {
						return true
					}
				}
			}
			return false
		}
		good, n := true, 0
		for _, b := range fn.Blocks {
			ret, ok := terminator(b).(*ssa.Return)
			if !ok {
				continue
			}
			bo, ok := ret.Results[0].(*ssa.BinOp)
			if !ok || bo.Op != token.LSS || !isNumeric(bo.X.Type()) {
				good = false
				continue
			}
			n++
			if !(from(bo.X, fn.Params[0], 0) && from(bo.Y, fn.Params[1], 0)) {
				good = false
			}
		}
		if good && n >= 2 {
			return fn
		}
	}
	return nil
}

func anyPredIsTest(b *ssa.BasicBlock, tests map[*ssa.BasicBlock]bool) bool {
	for _, pd := range b.Preds {
		if tests[pd] {
			return true
		}
	}
	return false
}

// tableRegistrations: v is read out of an entry of a package-level slice of
// (name, function) entries that is never written after initialisation; the
// names and functions of all its entries (nil where an entry's function is not
// a function of the module), and whether every entry was understood.
func tableRegistrations(p *Program, v ssa.Value) (names []string, fns []*ssa.Function, all bool) {
	var g *ssa.Global
	var find func(v ssa.Value, depth int)
	find = func(v ssa.Value, depth int) {
		if v == nil || depth > 8 || g != nil {
			return
		}
		switch x := v.(type) {
		case *ssa.Global:
			g = x
		case *ssa.UnOp:
			find(x.X, depth+1)
		case *ssa.Field:
			find(x.X, depth+1)
		case *ssa.FieldAddr:
			find(x.X, depth+1)
		case *ssa.IndexAddr:
			find(x.X, depth+1)
		case *ssa.Index:
			find(x.X, depth+1)
		case *ssa.Extract:
			find(x.Tuple, depth+1)
		case *ssa.Next:
			find(x.Iter, depth+1)
		case *ssa.Range:
			find(x.X, depth+1)
		case *ssa.Phi:
			for _, e := range x.Edges {
				find(e, depth+1)
			}
		case *ssa.MakeInterface:
			find(x.X, depth+1)
		case *ssa.Alloc:
			if x.Referrers() != nil {
				for _, ref := range *x.Referrers() {
					if st, ok := ref.(*ssa.Store); ok && st.Addr == ssa.Value(x) {
						find(st.Val, depth+1)
					}
				}
			}
		}
	}
	find(v, 0)
	if g == nil || g.Pkg == nil || !globalNeverWritten(p, g) {
		return nil, nil, false
	}
	pk := p.ByPath[g.Pkg.Pkg.Path()]
	if pk == nil {
		return nil, nil, false
	}
	all = true
	found := false
	for _, f := range pk.Syntax {
		for _, d := range f.Decls {
			gd, ok := d.(*ast.GenDecl)
			if !ok {
				continue
			}
			for _, sp := range gd.Specs {
				vs, ok := sp.(*ast.ValueSpec)
				if !ok {
					continue
				}
				for i, nm := range vs.Names {
					if nm.Name != g.Name() || i >= len(vs.Values) {
						continue
					}
					cl, ok := vs.Values[i].(*ast.CompositeLit)
					if !ok {
						return nil, nil, false
					}
					found = true
					for _, el := range cl.Elts {
						ecl, ok := el.(*ast.CompositeLit)
						if !ok {
							all = false
							continue
						}
						name, fn := "", (*ssa.Function)(nil)
						for _, fe := range ecl.Elts {
							if kv, ok := fe.(*ast.KeyValueExpr); ok {
								fe = kv.Value
							}
							if tv, ok := pk.TypesInfo.Types[fe]; ok && tv.Value != nil && tv.Value.Kind() == constant.String && name == "" {
								name = constant.StringVal(tv.Value)
								continue
							}
							if id, ok := ast.Unparen(fe).(*ast.Ident); ok {
								if fo, ok := pk.TypesInfo.Uses[id].(*types.Func); ok {
									if sf := p.SSA.FuncValue(fo); sf != nil && fnPkg(sf) != nil && IsLibPath(fnPkg(sf).Pkg.Path()) {
										fn = sf
									}
								}
							}
						}
						if name == "" || fn == nil {
							all = false
						}
						names = append(names, name)
						fns = append(fns, fn)
					}
				}
			}
		}
	}
	return names, fns, all && found && len(names) > 0
}

// sharedImpl: a built-in that is a one-line wrapper around a shared
// implementation — `return pickOfTwo(args, true)` — is judged by that
// implementation under the constant arguments it passes: the function, and the
// blocks of it that can run when its boolean parameters have those values.
func sharedImpl(fn *ssa.Function) (*ssa.Function, map[*ssa.BasicBlock]bool) {
	all := func(f *ssa.Function) map[*ssa.BasicBlock]bool {
		m := map[*ssa.BasicBlock]bool{}
		for _, b := range f.Blocks {
			m[b] = true
		}
		return m
	}
	if len(fn.Blocks) != 1 || len(fn.Params) == 0 {
		return fn, all(fn)
	}
	ret, ok := terminator(fn.Blocks[0]).(*ssa.Return)
	if !ok || len(ret.Results) != 1 {
		return fn, all(fn)
	}
	c, ok := ret.Results[0].(*ssa.Call)
	if !ok || c.Call.StaticCallee() == nil || len(c.Call.StaticCallee().Blocks) == 0 || fnPkg(c.Call.StaticCallee()) == nil || !IsLibPath(fnPkg(c.Call.StaticCallee()).Pkg.Path()) {
		return fn, all(fn)
	}
	h := c.Call.StaticCallee()
	if len(c.Call.Args) == 0 || c.Call.Args[0] != ssa.Value(fn.Params[0]) || len(h.Params) != len(c.Call.Args) {
		return fn, all(fn)
	}
	consts := map[ssa.Value]bool{}
	for i, a := range c.Call.Args[1:] {
		k, ok := a.(*ssa.Const)
		if !ok || k.Value == nil || k.Value.Kind() != constant.Bool {
			return fn, all(fn)
		}
		consts[h.Params[i+1]] = constant.BoolVal(k.Value)
	}
	// nothing else may happen in the wrapper
	for _, ins := range fn.Blocks[0].Instrs {
		switch ins.(type) {
		case *ssa.Call, *ssa.Return, *ssa.DebugRef:
		default:
			return fn, all(fn)
		}
	}
	live := map[*ssa.BasicBlock]bool{}
	var walk func(b *ssa.BasicBlock)
	walk = func(b *ssa.BasicBlock) {
		if live[b] {
			return
		}
		live[b] = true
		if iff, ok := terminator(b).(*ssa.If); ok && len(b.Succs) == 2 {
			cond, neg := iff.Cond, false
			if u, ok := cond.(*ssa.UnOp); ok && u.Op == token.NOT {
				cond, neg = u.X, true
			}
			if v, known := consts[cond]; known {
				if v != neg {
					walk(b.Succs[0])
				} else {
					walk(b.Succs[1])
				}
				return
			}
		}
		for _, sc := range b.Succs {
			walk(sc)
		}
	}
	walk(h.Blocks[0])
	return h, live
}

// liveValue: v, or — when v is a φ — the one value it can have given which of
// its block's predecessors can run.
func liveValue(v ssa.Value, live map[*ssa.BasicBlock]bool) ssa.Value {
	phi, ok := v.(*ssa.Phi)
	if !ok {
		return v
	}
	var one ssa.Value
	n := 0
	for i, e := range phi.Edges {
		if live[phi.Block().Preds[i]] {
			one = e
			n++
		}
	}
	if n == 1 {
		return one
	}
	return v
}
