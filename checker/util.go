package main

// Shared helpers: type predicates, opcode constants, role-based anchors,
// small AST/SSA utilities.

import (
	"fmt"
	"go/ast"
	"go/constant"
	"go/token"
	"go/types"
	"sort"
	"strings"

	"golang.org/x/tools/go/ssa"
)

// ---------------------------------------------------------------------------
// types

func deref(t types.Type) types.Type {
	if p, ok := t.Underlying().(*types.Pointer); ok {
		return p.Elem()
	}
	return t
}

// isNamed reports whether t (after one pointer indirection) is the named type
// pkg.name, pkg given as a path relative to the module ("" = root).
func isNamed(t types.Type, pkg, name string) bool {
	n, ok := deref(t).(*types.Named)
	if !ok {
		// aliases resolve through Unalias
		n, ok = types.Unalias(deref(t)).(*types.Named)
		if !ok {
			return false
		}
	}
	if n.Obj().Name() != name || n.Obj().Pkg() == nil {
		return false
	}
	want := Mod
	if pkg != "" {
		want = Mod + "/" + pkg
	}
	return n.Obj().Pkg().Path() == want
}

// isStdNamed: named type from a non-module package, e.g. ("context","Context").
func isStdNamed(t types.Type, pkg, name string) bool {
	n, ok := types.Unalias(deref(t)).(*types.Named)
	return ok && n.Obj().Name() == name && n.Obj().Pkg() != nil && n.Obj().Pkg().Path() == pkg
}

func isObjectIface(t types.Type) bool { return isNamed(t, "object", "Object") && !isPointer(t) }

func isPointer(t types.Type) bool {
	_, ok := t.Underlying().(*types.Pointer)
	return ok
}

func isErrorType(t types.Type) bool {
	return types.Identical(t, types.Universe.Lookup("error").Type())
}

func isOpcodeType(t types.Type) bool { return isNamed(t, "code", "Opcode") }

var objectStructs = []string{"Array", "Boolean", "Float", "Hash", "Integer", "Null", "Regexp", "String", "Void"}

// objectStructName returns "Integer" for *object.Integer / object.Integer.
func objectStructName(t types.Type) string {
	n, ok := types.Unalias(deref(t)).(*types.Named)
	if !ok || n.Obj().Pkg() == nil || n.Obj().Pkg().Path() != Mod+"/object" {
		return ""
	}
	if _, ok := n.Underlying().(*types.Struct); !ok {
		return ""
	}
	for _, s := range objectStructs {
		if s == n.Obj().Name() {
			return s
		}
	}
	return ""
}

// typeStr renders a type with module-relative package names.
func typeStr(t types.Type) string {
	return types.TypeString(t, func(pk *types.Package) string { return shortPkg(pk.Path()) })
}

// ---------------------------------------------------------------------------
// opcodes

type opcodes struct {
	byName map[string]int64
	byVal  map[int64]string
	names  []string // declaration order by value
}

func (p *Program) Opcodes() *opcodes {
	oc := &opcodes{byName: map[string]int64{}, byVal: map[int64]string{}}
	pk := p.ByPath[Mod+"/code"]
	sc := pk.Types.Scope()
	for _, n := range sc.Names() {
		c, ok := sc.Lookup(n).(*types.Const)
		if !ok || !isOpcodeType(c.Type()) {
			continue
		}
		v, _ := constant.Int64Val(c.Val())
		oc.byName[n] = v
		oc.byVal[v] = n
	}
	for n := range oc.byName {
		oc.names = append(oc.names, n)
	}
	sort.Slice(oc.names, func(i, j int) bool { return oc.byName[oc.names[i]] < oc.byName[oc.names[j]] })
	return oc
}

// opConstName returns the opcode constant an expression denotes ("" if it is
// not a constant of type code.Opcode).  Works through conversions and parens.
func opConstName(info *types.Info, e ast.Expr) string {
	e = ast.Unparen(e)
	if ce, ok := e.(*ast.CallExpr); ok && len(ce.Args) == 1 {
		if tv, ok := info.Types[ce.Fun]; ok && tv.IsType() {
			return opConstName(info, ce.Args[0])
		}
	}
	var id *ast.Ident
	switch x := e.(type) {
	case *ast.SelectorExpr:
		id = x.Sel
	case *ast.Ident:
		id = x
	}
	if id == nil {
		return ""
	}
	if c, ok := info.Uses[id].(*types.Const); ok && isOpcodeType(c.Type()) {
		return c.Name()
	}
	return ""
}

// ssaOpcodeConst returns the opcode name for an SSA constant of Opcode type
// (also through a ChangeType/Convert of a constant).
func (oc *opcodes) ssaName(v ssa.Value) string {
	switch x := v.(type) {
	case *ssa.Const:
		if x.Value != nil && x.Value.Kind() == constant.Int {
			if isOpcodeType(x.Type()) || isByteType(x.Type()) {
				iv, _ := constant.Int64Val(x.Value)
				return oc.byVal[iv]
			}
		}
	case *ssa.Convert:
		return oc.ssaName(x.X)
	case *ssa.ChangeType:
		return oc.ssaName(x.X)
	}
	return ""
}

func isByteType(t types.Type) bool {
	b, ok := t.Underlying().(*types.Basic)
	return ok && (b.Kind() == types.Uint8 || b.Kind() == types.Byte)
}

// ---------------------------------------------------------------------------
// anchors (resolved by role; a missing anchor is an undecided obligation)

type anchors struct {
	compile       *ssa.Function // (*Eval).compile: (ast.Node) error with a type switch
	emit          *ssa.Function // (*Eval).emit: (code.Opcode, ...int) int
	changeOperand *ssa.Function // (*Eval) func(int,int) storing into instructions
	addConstant   *ssa.Function // (*Eval) func(object.Object) int
	vmRun         *ssa.Function // the interpreter: the method of vm.VM that holds the dispatch loop ((*VM).Run, or the function Run hands over to)
	vmEntry       *ssa.Function // (*vm.VM).Run, the entry the rest of the library calls
	vmNew         *ssa.Function
	prepare       *ssa.Function
	execute       *ssa.Function
	run           *ssa.Function
	dump          *ssa.Function
	evalNew       *ssa.Function
	lexNext       *ssa.Function // (*lexer.Lexer).NextToken
	parseExpr     *ssa.Function // (*parser.Parser).parseExpression
	parse         *ssa.Function // (*parser.Parser).Parse
	binop         *ssa.Function // (*vm.VM).executeBinaryOperation (dispatcher)
	optTables     []*ssa.Function
}

func sigParams(fn *ssa.Function) []types.Type {
	var out []types.Type
	ps := fn.Signature.Params()
	for i := 0; i < ps.Len(); i++ {
		out = append(out, ps.At(i).Type())
	}
	return out
}

func sigResults(fn *ssa.Function) []types.Type {
	var out []types.Type
	rs := fn.Signature.Results()
	for i := 0; i < rs.Len(); i++ {
		out = append(out, rs.At(i).Type())
	}
	return out
}

func recvNamed(fn *ssa.Function, pkg, name string) bool {
	r := fn.Signature.Recv()
	return r != nil && isNamed(r.Type(), pkg, name)
}

// Anchors resolves the functions the rules hang on.  Exported API entry points
// are looked up by their API name (the properties are stated on the API);
// internal ones by role, so a rename does not blind a rule.
func (p *Program) Anchors() (*anchors, []string) {
	a := &anchors{}
	var missing []string
	// several functions can have the signature of a role (a helper that hands
	// its arguments on to the real one): the compiler is the one that calls
	// itself, the emitter / patcher / constant pool the one that calls none of
	// the others with that signature
	cands := map[string][]*ssa.Function{}
	calls := func(f, g *ssa.Function) bool {
		for _, b := range f.Blocks {
			for _, ins := range b.Instrs {
				if cc := callOf(ins); cc != nil && cc.StaticCallee() == g {
					return true
				}
			}
		}
		return false
	}
	pick := func(role string, recursive bool) *ssa.Function {
		cs := cands[role]
		sort.Slice(cs, func(i, j int) bool { return len(cs[i].Blocks) > len(cs[j].Blocks) })
		for _, f := range cs {
			if recursive {
				if calls(f, f) {
					return f
				}
				continue
			}
			leaf := true
			for _, g := range cs {
				if g != f && calls(f, g) {
					leaf = false
				}
			}
			if leaf {
				return f
			}
		}
		if len(cs) > 0 {
			return cs[0]
		}
		return nil
	}
	for _, fn := range p.LibFns {
		if fn.Parent() != nil {
			continue
		}
		ps, rs := sigParams(fn), sigResults(fn)
		switch {
		case recvNamed(fn, "", "Eval"):
			switch {
			case len(ps) == 1 && isNamed(ps[0], "ast", "Node") && len(rs) == 1 && isErrorType(rs[0]):
				cands["compile"] = append(cands["compile"], fn)
			case len(ps) == 2 && isOpcodeType(ps[0]) && fn.Signature.Variadic() && len(rs) == 1:
				cands["emit"] = append(cands["emit"], fn)
			case len(ps) == 2 && len(rs) == 0 && isInt(ps[0]) && isInt(ps[1]):
				cands["changeOperand"] = append(cands["changeOperand"], fn)
			case len(ps) == 1 && isObjectIface(ps[0]) && len(rs) == 1 && isInt(rs[0]):
				cands["addConstant"] = append(cands["addConstant"], fn)
			case fn.Name() == "Prepare":
				a.prepare = fn
			case fn.Name() == "Execute":
				a.execute = fn
			case fn.Name() == "Run":
				a.run = fn
			case fn.Name() == "Dump":
				a.dump = fn
			}
		case recvNamed(fn, "vm", "VM"):
			switch {
			case fn.Name() == "Run":
				a.vmRun = fn
			case len(ps) == 1 && isOpcodeType(ps[0]) && len(rs) == 1 && isErrorType(rs[0]):
				a.binop = fn
			case len(ps) >= 3 && func() bool { _, _, _, _, _, ok := tableParams(fn.Signature); return ok }():
				// (operator, left, right) — possibly followed by the operands'
				// values when the caller has already converted them
				a.optTables = append(a.optTables, fn)
			}
		case recvNamed(fn, "lexer", "Lexer") && fn.Name() == "NextToken":
			a.lexNext = fn
		case recvNamed(fn, "parser", "Parser"):
			switch {
			case len(ps) == 1 && isInt(ps[0]) && len(rs) == 1 && isNamed(rs[0], "ast", "Expression"):
				a.parseExpr = fn
			case fn.Name() == "Parse":
				a.parse = fn
			}
		case fn.Signature.Recv() == nil && fn.Name() == "New":
			switch fnPkg(fn).Pkg.Path() {
			case Mod:
				a.evalNew = fn
			case Mod + "/vm":
				a.vmNew = fn
			}
		}
	}
	a.compile = pick("compile", true)
	a.emit = pick("emit", false)
	a.changeOperand = pick("changeOperand", false)
	a.addConstant = pick("addConstant", false)
	// the dispatch loop may have been moved out of Run into a function of its
	// own: the rules about handlers follow it there
	a.vmEntry = a.vmRun
	if a.vmRun != nil && p.FuncDecl(a.vmRun) != nil {
		nCases := func(f *ssa.Function) int {
			if p.FuncDecl(f) == nil || p.FuncDecl(f).Body == nil {
				return 0
			}
			if sw := dispatchSwitch(p, f); sw != nil {
				return len(sw.Body.List)
			}
			return 0
		}
		if nCases(a.vmRun) < 10 {
			for _, g := range staticCalleesWithin(p, a.vmRun, 2) {
				if recvNamed(g, "vm", "VM") && nCases(g) >= 10 {
					a.vmRun = g
				}
			}
		}
	}
	chk := func(f *ssa.Function, what string) {
		if f == nil {
			missing = append(missing, what)
		}
	}
	chk(a.compile, "compiler entry: method of Eval with signature (ast.Node) error")
	chk(a.emit, "emitter: method of Eval with signature (code.Opcode, ...int) int")
	chk(a.changeOperand, "back-patcher: method of Eval with signature (int, int)")
	chk(a.addConstant, "constant pool: method of Eval with signature (object.Object) int")
	chk(a.vmRun, "(*vm.VM).Run")
	chk(a.vmNew, "vm.New")
	chk(a.prepare, "(*Eval).Prepare")
	chk(a.execute, "(*Eval).Execute")
	chk(a.run, "(*Eval).Run")
	chk(a.dump, "(*Eval).Dump")
	chk(a.evalNew, "evalfilter.New")
	chk(a.lexNext, "(*lexer.Lexer).NextToken")
	chk(a.parseExpr, "Pratt loop: method of Parser with signature (int) ast.Expression")
	chk(a.parse, "(*parser.Parser).Parse")
	chk(a.binop, "binary dispatcher: method of VM with signature (code.Opcode) error")
	if len(a.optTables) < 3 {
		missing = append(missing, fmt.Sprintf("operator tables: methods of VM with signature (code.Opcode, object.Object, object.Object …): found %d, want >= 3", len(a.optTables)))
	}
	sort.Slice(a.optTables, func(i, j int) bool { return a.optTables[i].Name() < a.optTables[j].Name() })
	return a, missing
}

func isInt(t types.Type) bool {
	b, ok := t.Underlying().(*types.Basic)
	return ok && b.Kind() == types.Int
}

// needAnchors reports missing anchors as undecided obligations and tells the
// rule whether it can go on.
func needAnchors(p *Program, r *Reporter) *anchors {
	a, missing := p.Anchors()
	for _, m := range missing {
		r.Undecided("anchor "+m, "-", "cannot find "+m+": the rule cannot be evaluated")
	}
	if len(missing) > 0 {
		return nil
	}
	return a
}

// ---------------------------------------------------------------------------
// SSA helpers

func callOf(ins ssa.Instruction) *ssa.CallCommon {
	switch c := ins.(type) {
	case *ssa.Call:
		return &c.Call
	case *ssa.Defer:
		return &c.Call
	case *ssa.Go:
		return &c.Call
	}
	return nil
}

func isBuiltinCall(v ssa.Value, name string) (*ssa.Call, bool) {
	c, ok := v.(*ssa.Call)
	if !ok {
		return nil, false
	}
	b, ok := c.Call.Value.(*ssa.Builtin)
	return c, ok && b.Name() == name
}

func isNilConst(v ssa.Value) bool {
	c, ok := v.(*ssa.Const)
	return ok && c.IsNil()
}

func constInt(v ssa.Value) (int64, bool) {
	c, ok := v.(*ssa.Const)
	if !ok || c.Value == nil || c.Value.Kind() != constant.Int {
		return 0, false
	}
	return constant.Int64Val(c.Value)
}

func terminator(b *ssa.BasicBlock) ssa.Instruction { return b.Instrs[len(b.Instrs)-1] }

// fieldOf returns (struct type name, field name) for a FieldAddr/Field.
func fieldOf(v ssa.Value) (owner *types.Named, field string, ok bool) {
	var xt types.Type
	var idx int
	switch f := v.(type) {
	case *ssa.FieldAddr:
		xt, idx = f.X.Type(), f.Field
	case *ssa.Field:
		xt, idx = f.X.Type(), f.Field
	default:
		return nil, "", false
	}
	n, _ := types.Unalias(deref(xt)).(*types.Named)
	st, isSt := deref(xt).Underlying().(*types.Struct)
	if !isSt {
		return nil, "", false
	}
	return n, st.Field(idx).Name(), true
}

func fieldKey(v ssa.Value) string {
	n, f, ok := fieldOf(v)
	if !ok {
		return ""
	}
	if n == nil {
		return "struct." + f
	}
	return canonField(shortPkg(n.Obj().Pkg().Path()) + "." + n.Obj().Name() + "." + f)
}

// instrIndex returns the index of ins within its block.
func instrIndex(ins ssa.Instruction) int {
	for i, x := range ins.Block().Instrs {
		if x == ins {
			return i
		}
	}
	return -1
}

// dominatesInstr: a executes before b on every path to b.
func dominatesInstr(a, b ssa.Instruction) bool {
	if a.Block() == b.Block() {
		return instrIndex(a) < instrIndex(b)
	}
	return a.Block().Dominates(b.Block())
}

// caseKey renders the governing type-switch/switch clause of a position in a
// function, used for construct keys: "case *ast.ForeachStatement".
func enclosingCase(info *types.Info, fd *ast.FuncDecl, pos token.Pos) string {
	var best string
	var bestLen token.Pos = 1 << 30
	ast.Inspect(fd, func(n ast.Node) bool {
		cc, ok := n.(*ast.CaseClause)
		if !ok {
			return true
		}
		if cc.Pos() <= pos && pos < cc.End() {
			if l := cc.End() - cc.Pos(); l < bestLen || true {
				// prefer the outermost clause that is a type or opcode case
				var parts []string
				for _, e := range cc.List {
					parts = append(parts, types.ExprString(e))
				}
				s := "default"
				if len(parts) > 0 {
					s = "case " + strings.Join(parts, ",")
				}
				if best == "" {
					best = s
					bestLen = l
				}
			}
		}
		return true
	})
	return best
}

// exprStr renders an expression including literals (types.ExprString elides
// some); good enough for keys and messages.
func exprStr(e ast.Expr) string { return types.ExprString(e) }
