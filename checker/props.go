package main

// The property table: which rules decide which property, at what level, and
// what is — and is not — decided.

type Property struct {
	ID          string
	Title       string
	Level       string
	Rules       []string
	Explanation string
	NotDecided  string
	Assumptions []string
	TrustedBase []string
	Tech        string
}

// Technique names the deciding method in a few words.
func (p *Property) Technique() string {
	if p.Tech != "" {
		return p.Tech
	}
	return "repository-specific rules over typed AST, SSA and call graph"
}

func propByID(id string) *Property {
	for i := range properties {
		if properties[i].ID == id {
			return &properties[i]
		}
	}
	return nil
}

var commonAssumptions = []string{
	"go/packages, go/types and go/ssa (x/tools v0.29.0) represent the program the Go compiler builds",
	"the tables in checker/spec.go transcribe the property statements correctly",
	"structural necessary conditions are decided, not the behaviour itself: see coverage.not_decided",
}

var properties = []Property{
	{ID: "C01", Title: "expressions evaluate to the defined value", Level: "other",
		Rules:       []string{"R-OPMAP", "R-OPTABLE", "R-DIVGUARD", "R-UNARY", "R-MATCHCELLS", "R-MEMBERSHIP", "R-LOGICCELLS", "R-CONSTDEDUP", "R-SCRIPTINDEX", "R-FOLDRESET", "R-MATCHONCE", "R-FOLDARITY", "R-DIVCONTEXT", "R-RANGE", "R-HASHKEY"},
		Explanation: "Static table extraction over the type-checked AST: the compiler's operator→opcode map and every cell of the VM's five operator tables (Go operator, operand order, result type, sibling coverage, singleton pushes, division guard) are compared with the tables the language definition gives. Cell-level rules add the unary operators, the regexp-match cells, membership (`in` visits every element and compares type and printed form), the && / || cells, the constant pool's merge condition and the optimizer's window reset. The regexp matcher tries its pattern at least once for every subject, and the folder only rewrites when as many constants are pending as the operator has operands. A `/` after an operand is the division operator (and is only that after a look at the previous token), and the range operator builds the inclusive range. The hash key of a value is computed from the whole value, so an index expression finds the entry of its own key only.",
		NotDecided:  "values Go arithmetic produces; cells computed by calls other than power/substring (regexp match); dispatch on operand types beyond C05's clause; nesting; integer % by zero (a recovered panic, which the property allows as an error).",
		Assumptions: commonAssumptions},
	{ID: "C02", Title: "control flow", Level: "other",
		Rules:       []string{"R-PATCHALL", "R-JUMPSET", "R-HANDLERS", "R-LOOPHEAD", "R-ITERNEXT", "R-MEMBERSHIP", "R-SWITCHDEFAULT", "R-NOMUT", "R-JOINPH", "R-EMITSET", "R-LOOPSTACK", "R-SWITCHONCE", "R-SCOPEFRESH", "R-SCOPERESTORE", "R-CONSTJUMP", "R-CHILDCOMPILED", "R-RANGE", "R-NORELOCATE", "R-TREEKEEP"},
		Explanation: "SSA path analysis of the compiler: every placeholder jump is back-patched on every successful path, loops jump back to a head recorded before the re-executed code, the jump opcode set is the same in VM/optimizer/compiler, every opcode has a handler and the return opcode leaves the interpreter. The foreach handler advances its cursor once per cycle, membership loops have no early exit on a non-match, and a switch's default arm is compiled after every case. Each construct is translated with the opcodes of its scheme only (closed table), forward labels are outside every folding window. Known findings: a foreach body can bury the iterator it keeps on the stack; the switch subject is translated once per arm. A run ends with no loop scope left open (the variables it leaves are the globals), and the optimizer takes a conditional jump away only together with the constant that decides it. No loop of the parser overwrites the sub-tree an earlier turn put into the tree (every else-if arm stays), and translated instructions stay at the offset they were emitted at.",
		NotDecided:  "that patched offsets are the right ones (values computed while Prepare runs), order of arms, element order of foreach.",
		Assumptions: commonAssumptions},
	{ID: "C03", Title: "optimizer transparency", Level: "other",
		Rules:       []string{"R-JOINPH", "R-FOLDAGREE", "R-JUMPSET", "R-EMITLEN", "R-NOINJECT", "R-FLAGONLY", "R-FOLDRESET", "R-OPTCLOSED", "R-FOLDARITY", "R-TABLEKEEP", "R-CONSTJUMP", "R-OPTABLE", "R-OPTGATED"},
		Explanation: "Structural soundness conditions of the peephole optimizer: every forward label is outside every folding window (placeholder or preceded by an unconditional jump) and the folder resets its window on unnamed opcodes; jump sets agree between VM, NOP removal, dead-code pass and compiler; operand presence agrees; the optimizer switch is not script-visible. The optimizer performs exactly the enumerated rewrites (a new one is reported as not decided). Every write of the folder needs as many pending constants as the operator has operands. A conditional jump is removed or made unconditional only where the instruction before it is known to push true or false. The folder's agreement with the VM presupposes that the VM's integer cells are the plain Go operators (R-OPTABLE).",
		NotDecided:  "observational equivalence of optimized and unoptimized programs in general.",
		Assumptions: commonAssumptions},
	{ID: "C13", Title: "invalid scripts are rejected", Level: "other",
		Rules:       []string{"R-NILERR", "R-ERRPROP", "R-BLOCKOPEN", "R-TOPSTOP", "R-TERNGUARD", "R-LOCALGUARD", "R-EOFSENTINEL", "R-NAMETOKEN", "R-FUNCFLAG", "R-SEENTOKEN", "R-VISITALL", "R-ONEDEFAULT", "R-TEXTOFNODE", "R-CHILDCOMPILED", "R-TOKENSTATE", "R-USEBEFORECHECK", "R-WHITESPACE"},
		Explanation: "SSA dataflow over the parser and compiler: a parse function returns nil only after an error was recorded (must-dataflow with callee summaries, through the registered parselet tables), Parse turns a non-empty error list into an error, every error-valued call has its error looked at and never replaced by nil, blocks are parsed only after '{' was demanded, the top-level loop stops only at end of input, nested ternaries and `local` outside functions are rejected. Names are only taken from tokens tested to be identifiers, the in-function flag is cleared on every exit, and the parser never steps over a token it has not looked at (identified beforehand as one kind on every path, or examined afterwards). Compiler loops over a node's children are left early only with an error, a switch cannot end up with two default arms, the printed form of a node stands for it only where the node is an identifier, and a ternary's condition is examined for a ternary. A typestate analysis of the current and next token (may it be the end of input, may it be illegal, has an error been recorded) over all parser methods, with summaries through calls and the parselet tables, shows that no advance steps off a token that may be either without an error on record. The white-space skipper skips exactly space, tab, LF and CR (evaluated per code point), so any other stray character is reported.",
		NotDecided:  "that each individual syntax check is the right check (needs a grammar as oracle).",
		Assumptions: commonAssumptions},
	{ID: "C04", Title: "host object fields", Level: "other",
		Rules:       []string{"R-NONNIL", "R-RUNRESET", "R-LOOKUPORDER", "R-KINDTABLE", "R-COMMAOK", "R-PUREARGS", "R-REFLECTKIND", "R-ONPATHONLY", "R-STATECENSUS", "R-ALLMEMBERS", "R-KINDREACH", "R-IDENTSTART"},
		Explanation: "Conversion of host fields is total and never yields a nil object (SSA nil-source analysis with function summaries over every Object-returning function and every push/store sink), every run and nested call starts from an empty field cache, and names resolve as variable, then field, then null (dominance in the resolver). The reflect.Kind → object table is the documented one, comma-ok results are used only where ok was tested, and no built-in reorders or writes an array it was given (a field's array is shared with the field cache). Members of host containers are taken out of their interface before the kind switch sees them, and the set that cuts off self-containing containers holds the current path only (a sibling met twice is not a cycle). No state of the machine outlives a run unclassified, so a run sees the object it was given. Every loop over the members of a reflected value stores each member: it is counted from the first to the last and skips only on the member's own account, never on the machine's state. For every kind of the documented table no path through the kind switch ends in a freshly made null (a nil slice is the empty array). Every character that may continue a name may begin one (0-9 aside), so a key such as `_id` can be named.",
		NotDecided:  "lossless conversion per kind, order and length of arrays, nested maps: values produced by reflection at run time.",
		Assumptions: commonAssumptions},
	{ID: "C05", Title: "one notion of truth", Level: "other",
		Rules:       []string{"R-IDENTITY", "R-LOGICDISPATCH", "R-TRUTHDEF", "R-TRUTHSITES", "R-RUNEXEC", "R-LOGICCELLS", "R-UNARY", "R-OPTCLOSED", "R-CONDDIRECT", "R-EMITSET", "R-CHILDCOMPILED", "R-CONSTJUMP"},
		Explanation: "No identity comparison of objects anywhere in the library (SSA; matcher self-tested on a built-in example), && and || are reachable for every operand type pair (clause order of the dispatcher against the extracted tables), every True() body is the language's definition, consumers of truth call True(), and Run is True() of Execute's object with Execute's error. The compiler translates conditions and arms of if / while / ternary / switch exactly as the node's own fields and never writes into the tree; `!` is decided by the operand's type; the optimizer's rewrites are the enumerated ones. Both arms of a ternary are translated on every path. The optimizer removes a conditional jump only together with the constant that decides it.",
		NotDecided:  "the values of comparisons themselves.",
		Assumptions: commonAssumptions},
	{ID: "C08", Title: "no crash of the host", Level: "other",
		Rules:       []string{"R-RECOVER", "R-NONNIL", "R-RECURSION", "R-ERRPROP", "R-FRAMERESTORE", "R-MACHINENIL", "R-COMMAOK", "R-LOCKPAIR", "R-FOLDSAFE", "R-USEBEFORECHECK", "R-PREPAREFRESH", "R-INDEXRESULT", "R-PANICSITES", "R-OPTCLOSED", "R-POOLOWNER", "R-NILBLOCK"},
		Explanation: "Execute recovers and sets both results, Run does nothing that can panic afterwards, no nil object escapes, unbounded recursion reachable from the API is enumerated (Tarjan SCCs of the VTA call graph; each needs a depth guard), errors are propagated, and the machine is restored after a failed call so the evaluator remains usable. API methods touch the machine only where it exists, a failed Prepare leaves no stale machine behind, every Lock is released on every path, a position from strings.Index is used as a bound only where -1 was excluded, a constant division by zero is not folded. Outside the recover (Prepare with lexer, parser, compiler, machine construction and optimizer; Dump; Run's tail; the other API methods) every index, slice expression, unchecked type assertion and integer division is discharged: proven from the dominating comparisons (difference constraints with loop-counter induction and identification of repeated loads), or recognised as an index handed out by package sort or a position inside well-formed bytecode; there is no explicit panic there. A block pointer that may be nil (absent else, failed block parse) is dereferenced during parsing only after a comparison with nil.",
		NotDecided:  "memory exhaustion; panics inside the recover region (they become errors, which the property allows); nil-pointer dereferences and nil-map writes outside the recover other than those R-NONNIL / R-MACHINENIL / R-COMMAOK cover; panics raised inside the standard library on arguments it rejects; host-supplied Object implementations.",
		Assumptions: commonAssumptions},
	{ID: "C09", Title: "deadline and cancellation", Level: "other",
		Rules:       []string{"R-POLL", "R-CTXFLOW", "R-RANGE", "R-LOCKPAIR"},
		Explanation: "The non-blocking poll of the VM's context dominates the opcode read and lies on every back edge of the dispatch loop (dominator analysis), its ready edge returns an error, inner loops of the interpreter are classified by their bound, functions execute through the same polled loop, and the context flows SetContext → Prepare → VM with no other writer. Every loop in every function the interpreter reaches is bounded by data that already exists (len, a reflect size, an operand); a trip count taken from a script value is reported. The range constructor — excluded from R-POLL's loop bounds — is bounded by its length computation (R-RANGE). Every lock taken by the API is released on every path, so a run that ended in a time-out does not leave the evaluator locked for good.",
		NotDecided:  "the length of the delay: a single instruction (regexp match, sort, a huge range) may run long; Go scheduling.",
		Assumptions: commonAssumptions},
	{ID: "C06", Title: "functions and scopes", Level: "other",
		Rules:       []string{"R-SCOPEPAIR", "R-SCOPERESTORE", "R-BINDINNER", "R-FRAMERESTORE", "R-LOCALGUARD", "R-CALLPROTO", "R-SCOPESEARCH", "R-SCOPEFRESH", "R-TABLEKEEP", "R-BODYRETURN", "R-FUNCFLAG", "R-NAMEAGREE", "R-VISITALL", "R-BODYSTATE"},
		Explanation: "SSA dominance and call-graph checks on the call protocol: the callee's scope is opened before parameters are bound, binding goes to the innermost scope, scopes and the swapped VM fields are restored by deferred code (by absolute depth / to the pre-swap values) on every exit, loops open and close their scope, `local` only inside functions. A built-in wins over a user function and the arity check applies to the function actually called; scope walks go innermost first; every scope pushed is a freshly made map and the stack is only ever truncated. Every handler that uses a name from the program as a variable's name makes that name the same way (the legacy $ prefix). Every statement of a block is visited by the compiler, so a function defined anywhere is registered. Compiler state that is reset for a function body is put back after it, so a nested definition takes nothing of the enclosing body with it.",
		NotDecided:  "innermost-first lookup order and the redirect of assignments to an existing local (loop direction over run-time data); results of recursion; built-in-before-user lookup order.",
		Assumptions: commonAssumptions},
	{ID: "C07", Title: "no hidden state between runs", Level: "other",
		Rules:       []string{"R-STATECENSUS", "R-RUNRESET", "R-FRAMERESTORE", "R-SCOPERESTORE", "R-NOMUT", "R-PREPAREFRESH", "R-SCOPEFRESH", "R-CTXFLOW", "R-POOLOWNER", "R-CALLPROTO", "R-ONPATHONLY"},
		Explanation: "Ownership/effect argument: a census of every struct field, map and package variable written by code reachable from the interpreter (VTA call graph) must fall into a classified group, and each class's obligation is checked: reset at interpreter entry, restored by defer on every exit, scope stack restored by depth, mutation only on private copies. Scopes are never recycled: each one pushed is a freshly made map. A call checks its arguments before it switches the machine over to the callee, so a refused call leaves nothing of the callee installed.",
		NotDecided:  "cost growth other than through the scope stack and value stack; state inside host-supplied objects and functions.",
		Assumptions: commonAssumptions},
	{ID: "C15", Title: "numbers, strings and booleans are values", Level: "other",
		Rules:       []string{"R-NOMUT", "R-CONSTDEDUP", "R-PUREARGS", "R-POOLOWNER", "R-NAMEAGREE", "R-CONDDIRECT"},
		Explanation: "Immutability argument: if no code reachable from the interpreter mutates a value object other than a private copy (receiver-mutating methods are only invoked on results of a copier covering every library type that has them; nothing else stores into object fields), then sharing pointers between variables, the constant pool and the field cache is unobservable — which is the property inside the library. The compiler never writes into the syntax tree, so a literal is the same value at every translation of it.",
		NotDecided:  "objects of host-defined types implementing the increment/iteration interfaces.",
		Assumptions: commonAssumptions},
	{ID: "C10", Title: "confinement", Level: "proof",
		Rules:       []string{"R-EFFECTS", "R-IMPORTS", "R-DYNCALLS", "R-GLOBALS", "R-HOSTMETHODS"},
		Tech:        "closed-world reference and call enumeration against an allow-list (types.Info uses/selections, import scan of every file regardless of build constraints, resolution of every dynamic call site)",
		Explanation: "Closed-world argument: every object from outside the module that library code references is on an allow-list of I/O-free packages plus exactly the effects the property grants (stdout through fmt.Print*, os.Getenv, the clock, the time-zone database); every file of the library — whatever its build constraints — imports only allow-listed packages and uses no cgo/linkname/assembly; every call through a function value resolves to module functions or to functions the host registered. One obligation per external object, per file, per dynamic call site and per function-table writer; all must be discharged. No package-level variable shares a table between evaluators: a guarded variable's value is reachable through the variable only, so a function one host registered cannot turn up in another evaluator. No value of the host's object is formatted by package fmt under a verb that runs the value's own methods, and no method is called on it through an interface.",
		NotDecided:  "nothing inside the stated trusted base; what host-registered functions do is the host's business, as the property says.",
		Assumptions: commonAssumptions,
		TrustedBase: []string{
			"the allow-listed standard-library functions do what their documentation says (regexp, fmt.Sprintf, strconv, sort … perform no I/O; fmt.Print* writes only to standard output)",
			"go/types name resolution (x/tools v0.29.0, go1.23.5) and the Go toolchain's treatment of cgo/asm/linkname, whose absence is checked",
			"reflection is used to read host values only: reflect.Value.Call/Method/MethodByName/NewAt/MakeFunc are not referenced (checked)",
		}},
	{ID: "C11", Title: "concurrency", Level: "other",
		Rules:       []string{"R-GLOBALS", "R-LOCK", "R-NOMUT", "R-NONDETSRC", "R-LOCKPAIR"},
		Explanation: "Race-freedom argument for the API the property names: Run holds the evaluator's mutex around Execute on every path and Prepare holds it by defer (serialisation gives the one-at-a-time order); every package-level variable is either never written after initialisation or only accessed under a package-level mutex (must-held dataflow); shared singletons and constants are immutable (R-NOMUT); the library starts no goroutines. A package variable handed by address to a method (sync.Pool, sync.Map) counts as written: objects travelling through it are shared between evaluators.",
		NotDecided:  "Execute, SetVariable, GetVariable called concurrently (not promised by the property); host functions and host objects.",
		Assumptions: commonAssumptions},
	{ID: "C12", Title: "precedence and grouping", Level: "other",
		Rules:       []string{"R-PRECTABLE", "R-PRATT", "R-INFIXSET", "R-TERNGUARD", "R-DIVCONTEXT", "R-INFIXVIALOOP"},
		Explanation: "The four facts that are the grouping semantics of a Pratt parser are read from the code: the order of the binding powers against the documented chain, strictness of the loop comparison, capture of the operator's binding power before the parser advances, agreement between the infix table and the precedence table; plus the nested-ternary guard. The token kinds after which `/` divides are exactly IDENT, INT, FLOAT, `)` and `]`. Operator parselets that take a left operand are entered through the table only, the nodes they build around it are built nowhere else, and they judge the operand by the tree, not by the previous token.",
		NotDecided:  "the '.' rewrite of field access, postfix ++/-- being separate statements, what the compiler does with the tree.",
		Assumptions: commonAssumptions},
	{ID: "C14", Title: "literals and layout", Level: "other",
		Rules:       []string{"R-LEXPROGRESS", "R-EOFSENTINEL", "R-ESCAPES", "R-CONSTDEDUP", "R-DIVCONTEXT", "R-COMMENTCTX", "R-NUMBASE", "R-TOKENPROGRESS", "R-LEXINPUT", "R-CUTSET", "R-BYTERUNE", "R-POOLOWNER", "R-WHITESPACE"},
		Explanation: "Narrow claim. Tokenisation terminates for every input: the advance function moves forward unconditionally, every lexer loop advances on every cycle and has an exit taken at the end-of-input sentinel (loop conditions are evaluated with the sentinel substituted, predicates included), and the lexer does not recurse. End of input is decided by position, not by a character value. The string reader's escape table is the language's. Every return of NextToken has consumed a character (readers are entered under their own loop predicate); `//` starts a comment independent of the previous token; `/` divides exactly after an operand-ending token; integer and decimal text is read in base 10 with 64 bits; the constant pool keeps literals of different kinds apart. The lexer's buffer is the script text unmodified; Trim calls have constant cutsets. No text of a script is rebuilt byte by byte in the lexer, parser or compiler. A constant, once in the pool, is never rewritten: the literal a script spells is the value every use of it loads. The white-space skipper skips exactly space, tab, LF and CR.",
		NotDecided:  "what regexp literals denote character by character, and that layout and comments never change the token sequence in general: character-level value semantics.",
		Assumptions: commonAssumptions},
	{ID: "C16", Title: "containers", Level: "other",
		Rules:       []string{"R-SCRIPTINDEX", "R-HASHKEY", "R-MAPORDER", "R-NOMUT", "R-ITERNEXT", "R-RANGE", "R-POPORDER", "R-MEMBERSHIP", "R-LENKIND", "R-PUREARGS", "R-CONSTDEDUP", "R-KINDREACH"},
		Explanation: "Every slice index computed from a script value is proven within bounds from the dominating comparisons (difference constraints over canonical len terms); every HashKey() keeps the type and the value of the key; hash entries are iterated in a total order (sorted with a comparator that identifies the entry); iteration works on a private cursor so every entry is visited exactly once even in nested loops. Ranges are built start to end inclusive, literals pop their elements in reverse push order, membership compares type and printed form over every element, len counts runes/elements. The hash key of a value loses nothing of the value by construction (no float cut to an integer, no narrowing).",
		NotDecided:  "element order from the stack, len, membership: values.",
		Assumptions: commonAssumptions},
	{ID: "C19", Title: "determinism", Level: "other",
		Rules:       []string{"R-MAPORDER", "R-NONDETSRC", "R-PREPAREFRESH", "R-NOMUT", "R-POOLOWNER", "R-FRAMERESTORE", "R-SCOPERESTORE", "R-ONPATHONLY"},
		Explanation: "Every iteration over a Go map in the library is classified as order-insensitive, collected-then-totally-sorted, or listed with a reason; there is no goroutine, multi-way select, pointer printing or randomness in the library; Prepare starts from empty compile outputs. No stack trace, goroutine or process identity reaches a result; a listed order-insensitive map loop must run to exhaustion. The set that cuts off self-containing host containers holds the current path only, so which member of a map turns into null cannot depend on the order the map is walked in.",
		NotDecided:  "nothing structural remains; what remains is values (and now()/time()/getenv(), which the property excludes).",
		Assumptions: commonAssumptions},
	{ID: "C17", Title: "built-in contracts", Level: "other",
		Rules:       []string{"R-ARGGUARD", "R-PUREARGS", "R-NUMORDER", "R-LENKIND", "R-TIMEFIELDS", "R-USEBEFORECHECK", "R-JOINSHAPE", "R-NUMBASE", "R-MATCHONCE", "R-CUTSET", "R-COMMAOK", "R-TYPENAME", "R-FLOATINT", "R-FMTCONST"},
		Explanation: "Narrow claim. Totality on wrong arity/type: every args[k] and every unchecked assertion of an argument is guarded by a dominating length / Type() test (abstract interpretation over length sets and type facts, with helper functions checked at their call sites). Inputs unchanged: no built-in stores into, sorts in place or mutates anything reachable from its arguments. min/max/between: no ordering by printed form is reachable when both arguments are numbers, the numeric helper computes left < right, min returns the smaller and max the larger argument, between is false exactly when v < lo or hi < v. join only concatenates element text and separator, places separators by position and does not post-process its result; int/float read base 10 / 64 bits; the time built-ins call the time method of the same name; len counts runes/elements. The time is decomposed in $TZ or UTC on every path; the matcher tries its pattern at least once; Trim calls have constant cutsets. type() names every type; no built-in converts a float to an integer without a range check. No built-in uses a value as a format string.",
		NotDecided:  "every value-level contract: split and the join/split round trip as a whole, sort's permutation property, conversions, string helpers.",
		Assumptions: commonAssumptions},
	{ID: "C20", Title: "front ends", Level: "other",
		Rules:       []string{"R-RUNEXEC", "R-ENVSHARE", "R-VOIDPUSH", "R-FLAGONLY", "R-NOINJECT", "R-CTXFLOW", "R-DRIVER", "R-POPORDER", "R-SCOPERESTORE", "R-LOCKSET", "R-FMTCONST", "R-SWITCHONCE", "R-CALLPROTO", "R-NAMEAGREE", "R-RECURSION", "R-LOOKUPORDER", "R-OPTGATED"},
		Explanation: "Narrow claim. Run is True() of Execute's object with Execute's error; the API methods pass their own arguments to the one environment the machine was built on; call results are pushed exactly when not void; the NoOptimize flag guards only the optimizer switch; the library injects no variables; the context flows SetContext → Prepare → VM; the command-line driver sets the context before Prepare, plumbs -no-optimizer and the decoded JSON document, reports type/value/truth of Execute's result and recovers panics. Only Prepare and Run take the evaluator's mutex (a host function may call the other methods during Run); printf-style calls have constant formats, so a result's text is never re-interpreted; call arguments are popped in reverse push order. Known finding: the subject of a switch is translated once per arm, so a host function used as subject is called several times. A host function wins over a script function of the same name. What the driver does with a result (its JSON form) is bounded recursion too. The driver never assigns to a field a flag is bound to: every script of an invocation runs under the values given on the command line. Every entry into a bytecode-rewriting pass is made under the test of the optimizer switch, for the main program and for every function body.",
		NotDecided:  "argument order of host calls (index arithmetic over run-time counts), what the driver prints character by character, the lex/parse sub-commands' output.",
		Assumptions: commonAssumptions},
	{ID: "C18", Title: "well-formed code", Level: "other",
		Rules:       []string{"R-EMITLEN", "R-HANDLERS", "R-PATCHALL", "R-JOINPH", "R-JUMPSET", "R-OPBOUNDARY", "R-NARROW", "R-CONSTDEDUP", "R-FOLDRESET", "R-BODYSTATE", "R-OPTCLOSED", "R-CONSTREF", "R-COUNTED", "R-EMITSET", "R-VALUEPOS", "R-LOOPSTACK", "R-POOLOWNER", "R-BODYRETURN", "R-PREPAREFRESH", "R-NORELOCATE", "R-ERRPROP"},
		Explanation: "Emitter-side structural checks: operand presence agrees with code.Length at every emit site and handler, every opcode is handled, every placeholder is patched, every forward label is followed by an instruction, jump sets agree, opcodes are only read at instruction pointers, 16-bit operands are range-checked. Compiler state reset for a function body is restored after it (so the implicit return is decided on the body just compiled), the optimizer removes exactly NOPs, and its constant window is reset, not trimmed. Every instruction whose handler indexes the constant table is emitted with the index the constant pool returned. Counted instructions take their count from the field whose loop pushes exactly that many operands; each construct emits only the opcodes of its scheme. Known findings: value-less constructs (assignment, compound assignment, ++/--) are accepted as operands and underflow the stack at run time; a foreach body can bury its iterator. Prepare starts from empty compile outputs, so no function body compiled against an earlier constant pool survives. The instruction buffer grows through the emitter only (instructions are never copied to another offset than the one their jumps were computed for), and no error of a child translation is dropped.",
		NotDecided:  "stack balance on every path and jump targets of a given emitted program (properties of Prepare's output); R-VALUEPOS and R-LOOPSTACK decide two necessary conditions of stack discipline only.",
		Assumptions: commonAssumptions},
}
