package main

// The property table: which rules decide which property, at what level, and
// what is — and is not — decided.

type Property struct {
	ID          string
	Title       string
	Level       string
	Rules       []string
	Explanation string
	NotDecided  string
	Assumptions []string
	TrustedBase []string
	Tech        string
}

// Technique names the deciding method in a few words.
func (p *Property) Technique() string {
	if p.Tech != "" {
		return p.Tech
	}
	return "repository-specific rules over typed AST, SSA and call graph"
}

func propByID(id string) *Property {
	for i := range properties {
		if properties[i].ID == id {
			return &properties[i]
		}
	}
	return nil
}

var commonAssumptions = []string{
	"go/packages, go/types and go/ssa (x/tools v0.29.0) represent the program the Go compiler builds",
	"the tables in checker/spec.go transcribe the property statements correctly",
	"structural necessary conditions are decided, not the behaviour itself: see coverage.not_decided",
}

var properties = []Property{
	{ID: "C01", Title: "expressions evaluate to the defined value", Level: "other",
		Rules:       []string{"R-OPMAP", "R-OPTABLE", "R-DIVGUARD"},
		Explanation: "Static table extraction over the type-checked AST: the compiler's operator→opcode map and every cell of the VM's five operator tables (Go operator, operand order, result type, sibling coverage, singleton pushes, division guard) are compared with the tables the language definition gives.",
		NotDecided:  "values Go arithmetic produces; cells computed by calls other than power/substring (regexp match); dispatch on operand types beyond C05's clause; nesting; integer % by zero (a recovered panic, which the property allows as an error).",
		Assumptions: commonAssumptions},
	{ID: "C02", Title: "control flow", Level: "other",
		Rules:       []string{"R-PATCHALL", "R-JUMPSET", "R-HANDLERS", "R-LOOPHEAD"},
		Explanation: "SSA path analysis of the compiler: every placeholder jump is back-patched on every successful path, loops jump back to a head recorded before the re-executed code, the jump opcode set is the same in VM/optimizer/compiler, every opcode has a handler and the return opcode leaves the interpreter.",
		NotDecided:  "that patched offsets are the right ones (values computed while Prepare runs), order of arms, element order of foreach.",
		Assumptions: commonAssumptions},
	{ID: "C03", Title: "optimizer transparency", Level: "other",
		Rules:       []string{"R-JOINPH", "R-JUMPSET", "R-EMITLEN", "R-NOINJECT"},
		Explanation: "Structural soundness conditions of the peephole optimizer: every forward label is outside every folding window (placeholder or preceded by an unconditional jump) and the folder resets its window on unnamed opcodes; jump sets agree between VM, NOP removal, dead-code pass and compiler; operand presence agrees; the optimizer switch is not script-visible.",
		NotDecided:  "observational equivalence of optimized and unoptimized programs in general.",
		Assumptions: commonAssumptions},
	{ID: "C13", Title: "invalid scripts are rejected", Level: "other",
		Rules:       []string{"R-NILERR", "R-ERRPROP", "R-BLOCKOPEN", "R-TOPSTOP", "R-TERNGUARD", "R-LOCALGUARD"},
		Explanation: "SSA dataflow over the parser and compiler: a parse function returns nil only after an error was recorded (must-dataflow with callee summaries, through the registered parselet tables), Parse turns a non-empty error list into an error, every error-valued call has its error looked at and never replaced by nil, blocks are parsed only after '{' was demanded, the top-level loop stops only at end of input, nested ternaries and `local` outside functions are rejected.",
		NotDecided:  "that each individual syntax check is the right check (needs a grammar as oracle).",
		Assumptions: commonAssumptions},
	{ID: "C06", Title: "functions and scopes", Level: "other",
		Rules:       []string{"R-SCOPEPAIR", "R-SCOPERESTORE", "R-BINDINNER", "R-FRAMERESTORE", "R-LOCALGUARD"},
		Explanation: "SSA dominance and call-graph checks on the call protocol: the callee's scope is opened before parameters are bound, binding goes to the innermost scope, scopes and the swapped VM fields are restored by deferred code (by absolute depth / to the pre-swap values) on every exit, loops open and close their scope, `local` only inside functions.",
		NotDecided:  "innermost-first lookup order and the redirect of assignments to an existing local (loop direction over run-time data); results of recursion; built-in-before-user lookup order.",
		Assumptions: commonAssumptions},
	{ID: "C07", Title: "no hidden state between runs", Level: "other",
		Rules:       []string{"R-STATECENSUS", "R-RUNRESET", "R-FRAMERESTORE", "R-SCOPERESTORE", "R-NOMUT", "R-PREPAREFRESH"},
		Explanation: "Ownership/effect argument: a census of every struct field, map and package variable written by code reachable from the interpreter (VTA call graph) must fall into a classified group, and each class's obligation is checked: reset at interpreter entry, restored by defer on every exit, scope stack restored by depth, mutation only on private copies.",
		NotDecided:  "cost growth other than through the scope stack and value stack; state inside host-supplied objects and functions.",
		Assumptions: commonAssumptions},
	{ID: "C15", Title: "numbers, strings and booleans are values", Level: "other",
		Rules:       []string{"R-NOMUT"},
		Explanation: "Immutability argument: if no code reachable from the interpreter mutates a value object other than a private copy (receiver-mutating methods are only invoked on results of a copier covering every library type that has them; nothing else stores into object fields), then sharing pointers between variables, the constant pool and the field cache is unobservable — which is the property inside the library.",
		NotDecided:  "objects of host-defined types implementing the increment/iteration interfaces.",
		Assumptions: commonAssumptions},
	{ID: "C12", Title: "precedence and grouping", Level: "other",
		Rules:       []string{"R-PRECTABLE", "R-PRATT", "R-INFIXSET", "R-TERNGUARD"},
		Explanation: "The four facts that are the grouping semantics of a Pratt parser are read from the code: the order of the binding powers against the documented chain, strictness of the loop comparison, capture of the operator's binding power before the parser advances, agreement between the infix table and the precedence table; plus the nested-ternary guard.",
		NotDecided:  "the '.' rewrite of field access, postfix ++/-- being separate statements, what the compiler does with the tree.",
		Assumptions: commonAssumptions},
	{ID: "C18", Title: "well-formed code", Level: "other",
		Rules:       []string{"R-EMITLEN", "R-HANDLERS", "R-PATCHALL", "R-JOINPH", "R-JUMPSET", "R-OPBOUNDARY", "R-NARROW"},
		Explanation: "Emitter-side structural checks: operand presence agrees with code.Length at every emit site and handler, every opcode is handled, every placeholder is patched, every forward label is followed by an instruction, jump sets agree, opcodes are only read at instruction pointers, 16-bit operands are range-checked.",
		NotDecided:  "stack balance and jump targets of a given emitted program (properties of Prepare's output).",
		Assumptions: commonAssumptions},
}
