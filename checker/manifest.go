package main

// MANIFEST.json is generated from the property table so the two cannot drift:
//   bin/evcheck -manifest > MANIFEST.json

import (
	"encoding/json"
	"fmt"
	"os"
	"strings"
)

// notClaimed: properties without a check, each with the reason.
var notClaimed = map[string]string{}

func allPropertyIDs() []string {
	var ids []string
	for i := 1; i <= 20; i++ {
		ids = append(ids, fmt.Sprintf("C%02d", i))
	}
	return ids
}

func printManifest() {
	type level struct {
		Category  string `json:"category"`
		Text      string `json:"text"`
		DesignRef string `json:"design_ref"`
	}
	type check struct {
		PropertyID  string `json:"property_id"`
		QuickCmd    string `json:"quick_cmd"`
		ThoroughCmd string `json:"thorough_cmd"`
		Evidence    string `json:"evidence_file"`
		Replay      string `json:"replay_cmd_template"`
		Engine      string `json:"engine"`
		Level       level  `json:"level_claimed"`
		LevelNote   string `json:"level_note"`
		Technique   string `json:"technique"`
	}
	type na struct {
		PropertyID string `json:"property_id"`
		Reason     string `json:"reason"`
	}
	var checks []check
	nas := []na{}
	var served []string
	for _, id := range allPropertyIDs() {
		pr := propByID(id)
		if pr == nil {
			reason := notClaimed[id]
			if reason == "" {
				reason = "no static rule for this property is built yet (rules are designed in DESIGN.md §4; the property is not claimed until they exist and are exact on the current tree)"
			}
			nas = append(nas, na{id, reason})
			continue
		}
		served = append(served, id)
		text := pr.Explanation
		if pr.Level == "other" {
			text = "Static analysis of the repository's source (no execution): structural necessary conditions of the property are decided on every path / call site / table cell. " + text
		}
		checks = append(checks, check{
			PropertyID:  id,
			QuickCmd:    "./run.sh " + id + " quick",
			ThoroughCmd: "./run.sh " + id + " thorough",
			Evidence:    "/verif/evidence/" + id + ".json",
			Replay:      "./run.sh " + id + " quick --explain {path}",
			Engine:      "evcheck",
			Level:       level{Category: pr.Level, Text: text, DesignRef: "DESIGN.md §4 " + id + ", §3 rules " + strings.Join(pr.Rules, ", ")},
			LevelNote:   "Decides: " + strings.Join(pr.Rules, ", ") + ". Not decided: " + pr.NotDecided + " Trusted: go/packages+go/types+go/ssa (x/tools v0.29.0) model of the program; the oracle tables in checker/spec.go.",
			Technique:   "static analysis: " + pr.Technique(),
		})
	}
	m := map[string]interface{}{
		"version":   1,
		"setup_cmd": "cd /verif && mkdir -p bin evidence && cd checker && GOFLAGS=-mod=mod GOPROXY=off GOSUMDB=off GOTOOLCHAIN=local GOWORK=off CGO_ENABLED=0 go build -o ../bin/evcheck .",
		"hooks": map[string]interface{}{
			"guard":            "verif",
			"enable":           "none needed: the checks read /repo's source; no instrumentation is compiled into skx/evalfilter (the thorough tier also loads the tree with -tags=verif to cover files such a tag would add)",
			"baseline_off_cmd": "cd /repo && GOFLAGS=-mod=mod go test -vet=off -count=1 -timeout 25m ./...",
			"source_commits":   []string{},
			"add_only":         true,
		},
		"engines": []map[string]interface{}{{
			"name":              "evcheck",
			"path":              "checker/",
			"serves_properties": served,
			"kind_free_text":    "repository-specific static checker (go/packages + go/types + go/cfg-style path walks + go/ssa + VTA call graph, golang.org/x/tools v0.29.0); one rule set per property; obligations keyed by rule+construct",
		}},
		"checks":         checks,
		"not_applicable": nas,
		"notes":          "All checks are static: nothing executes evalfilter. Exit 0 / exit 1 with 'VIOLATION property=<id> replay=<path>'; genuine defects that are recorded rather than repaired are in known_findings.txt and printed as KNOWN-FINDING lines. See DESIGN.md.",
	}
	enc := json.NewEncoder(os.Stdout)
	enc.SetIndent("", " ")
	enc.SetEscapeHTML(false)
	enc.Encode(m)
}
