package main

// Safety and truth rules: non-nil objects, recover coverage, recursion,
// identity comparisons, logic dispatch, truth definitions, Run/Execute
// agreement, script-controlled indexes, cancellation polling, context flow.

import (
	"fmt"
	"go/ast"
	"go/constant"
	"go/token"
	"go/types"
	"os"
	"sort"
	"strings"

	"golang.org/x/tools/go/callgraph"
	"golang.org/x/tools/go/ssa"
)

func init() {
	register(&Rule{ID: "R-NONNIL", Floor: 60, Run: ruleNonNil,
		Text: "An object.Object handed on by the library is never nil: functions whose single result is an Object never return an explicit nil source (nil constant, zero-valued variable, φ with a nil edge, result of a function that may), and no such value is pushed, stored as a variable, cached as a field or put into a container."})
	register(&Rule{ID: "R-RECOVER", Floor: 3, Run: ruleRecover,
		Text: "Execute runs the machine under a deferred recover that sets both results; Run does nothing after Execute that can panic except calling True() on a non-nil object."})
	register(&Rule{ID: "R-RECURSION", Floor: 5, Run: ruleRecursion,
		Text: "Every recursive component of the library call graph reachable from Prepare, Execute, Run or Dump is bounded: by a depth counter (incremented, compared with a constant, the other side returning without recursing) such that every cycle of the component takes a call that lies behind such a test; by a depth parameter handed on and increased along every cycle and compared with a constant; by a set of the host values on the current path (tested, inserted, removed by a deferred delete) that every cycle passes; or by being structural recursion over a syntax tree, which the parser bounds.  A Go stack overflow is fatal and cannot be recovered."})
	register(&Rule{ID: "R-IDENTITY", Floor: 1, Run: ruleIdentity,
		Text: "No ==, != or tagged switch compares two object values by identity: booleans and nulls are allocated afresh by reflection, built-ins and the host API, so identity with the VM's singletons does not mean equality."})
	register(&Rule{ID: "R-LOGICDISPATCH", Floor: 2, Run: ruleLogicDispatch,
		Text: "In the binary-operation dispatcher the clauses for && and || (which accept operands of any types) are not pre-empted by a clause that decides on operand types alone, unless the table that clause calls handles them."})
	register(&Rule{ID: "R-TRUTHDEF", Floor: 9, Run: ruleTruthDef,
		Text: "Each object type's True() is the language's definition: the wrapped bool; > 0 for numbers; non-empty for strings, arrays, hashes and regexps; never for null and void."})
	register(&Rule{ID: "R-TRUTHSITES", Floor: 3, Run: ruleTruthSites,
		Text: "Conditions are decided through True(): the conditional jump and the logic operators call the interface method on the popped operands, and the only direct reads of a boolean object's Value in the VM are of the match built-in's result."})
	register(&Rule{ID: "R-RUNEXEC", Floor: 2, Run: ruleRunExec,
		Text: "Run returns exactly the truth of what Execute returns for the same object, and Execute's error unchanged."})
	register(&Rule{ID: "R-SCRIPTINDEX", Floor: 2, Run: ruleScriptIndex,
		Text: "Every slice/array index computed from a script value is proven within bounds by the dominating comparisons (difference constraints over len terms)."})
	register(&Rule{ID: "R-POLL", Floor: 4, Run: rulePoll,
		Text: "The interpreter polls the context with a non-blocking select on every cycle of its dispatch loop and before the first instruction; the ready branch returns a non-nil error; every inner loop is bounded by a 16-bit operand or the length of an existing container (the range constructor is the stated exclusion); instruction execution is re-entered only through the interpreter itself."})
	register(&Rule{ID: "R-CTXFLOW", Floor: 4, Run: ruleCtxFlow,
		Text: "The context travels SetContext → Prepare → VM: Eval.context is written only by the constructor and SetContext, every successful Prepare hands it to the machine it just built, and VM.context is written only by the VM's SetContext.  Every context the evaluator installs in the machine is its own (the host's) or derived from it by context.With…, and a derived one is taken back by a deferred call."})
}

// ---------------------------------------------------------------------------
// R-NONNIL

type nonnil struct {
	mayNilFn map[*ssa.Function]bool
}

// nilGuarded: the use at `at` is dominated by the non-nil edge of a test of v
// against nil.
func nilGuarded(v ssa.Value, at ssa.Instruction) bool {
	if at == nil || v.Referrers() == nil {
		return false
	}
	for _, ref := range liveRefs(v) {
		bo, ok := ref.(*ssa.BinOp)
		if !ok || (bo.Op != token.EQL && bo.Op != token.NEQ) || !(isNilConst(bo.X) || isNilConst(bo.Y)) {
			continue
		}
		for _, r2 := range liveRefs(bo) {
			iff, ok := r2.(*ssa.If)
			if !ok {
				continue
			}
			nonNil := iff.Block().Succs[1]
			if bo.Op == token.NEQ {
				nonNil = iff.Block().Succs[0]
			}
			if len(nonNil.Preds) == 1 && (nonNil == at.Block() || nonNil.Dominates(at.Block())) {
				return true
			}
		}
	}
	return false
}

// ptrMayBeNil: the pointer is the nil constant, or the result of a library
// function that returns a nil pointer on some path.
func ptrMayBeNil(v ssa.Value, depth int) bool {
	if depth > 4 {
		return false
	}
	if _, isPtr := v.Type().Underlying().(*types.Pointer); !isPtr {
		return false
	}
	switch x := v.(type) {
	case *ssa.Const:
		return x.IsNil()
	case *ssa.Phi:
		for _, e := range x.Edges {
			if ptrMayBeNil(e, depth+1) {
				return true
			}
		}
	case *ssa.Call:
		cal := x.Call.StaticCallee()
		if cal == nil || fnPkg(cal) == nil || !IsLibPath(fnPkg(cal).Pkg.Path()) {
			return false
		}
		for _, b := range cal.Blocks {
			if ret, ok := terminator(b).(*ssa.Return); ok && len(ret.Results) >= 1 {
				if ptrMayBeNil(returnOperand(ret, 0), depth+1) {
					return true
				}
			}
		}
	}
	return false
}

// typedNilOrigin: some origin of the interface value is a possibly-nil pointer
// converted to the interface.
func typedNilOrigin(v ssa.Value, seen map[ssa.Value]bool) bool {
	if seen[v] {
		return false
	}
	seen[v] = true
	switch x := v.(type) {
	case *ssa.MakeInterface:
		return ptrMayBeNil(x.X, 0)
	case *ssa.ChangeInterface:
		return typedNilOrigin(x.X, seen)
	case *ssa.Phi:
		for _, e := range x.Edges {
			if typedNilOrigin(e, seen) {
				return true
			}
		}
	case *ssa.UnOp:
		if al, ok := x.X.(*ssa.Alloc); ok && x.Op == token.MUL {
			for _, r := range *al.Referrers() {
				if st, ok := r.(*ssa.Store); ok && st.Addr == ssa.Value(al) && typedNilOrigin(st.Val, seen) {
					return true
				}
			}
		}
	}
	return false
}

func (a *nonnil) mayNilAt(v ssa.Value, at ssa.Instruction) bool {
	if typedNilOrigin(v, map[ssa.Value]bool{}) {
		return true // an `== nil` test on the interface does not see a nil pointer inside it
	}
	if nilGuarded(v, at) {
		return false
	}
	// `val, err = …` on several branches, then `if err != nil { return }`:
	// the edges on which the error is surely set do not reach the use
	if ph, ok := v.(*ssa.Phi); ok && at != nil {
		for _, ins := range ph.Block().Instrs {
			eph, ok := ins.(*ssa.Phi)
			if !ok {
				break
			}
			if eph == ph || !isErrorType(eph.Type()) || !knownNilAt(eph, at) {
				continue
			}
			may := false
			for i, e := range ph.Edges {
				if errorSurelySet(eph.Edges[i], nil) {
					continue
				}
				if a.mayNil(e, map[ssa.Value]bool{ph: true}) {
					may = true
				}
			}
			return may
		}
	}
	return a.mayNil(v, map[ssa.Value]bool{})
}

// everyCallerTests: fn is unexported, is only ever called directly, and at
// each call the result is used only in comparisons with nil or where such a
// comparison has already excluded nil.
func (a *nonnil) everyCallerTests(p *Program, fn *ssa.Function) (int, bool) {
	if fn.Parent() != nil || fn.Object() == nil || fn.Object().Exported() || invokedDynamically(p, fn) {
		return 0, false
	}
	sites := staticCallSites(p, fn)
	if len(sites) == 0 {
		return 0, false
	}
	for _, s := range sites {
		v, ok := s.(ssa.Value)
		if !ok {
			return 0, false // go / defer: result dropped, nothing to test
		}
		vals := []ssa.Value{v}
		if _, isTuple := v.Type().(*types.Tuple); isTuple {
			vals = nil
			for _, ref := range liveRefs(v) {
				if ex, ok := ref.(*ssa.Extract); ok && ex.Index == 0 {
					vals = append(vals, ex)
				}
			}
		}
		for len(vals) > 0 {
			x := vals[0]
			vals = vals[1:]
			for _, ref := range liveRefs(x) {
				switch u := ref.(type) {
				case *ssa.BinOp:
					if (u.Op == token.EQL || u.Op == token.NEQ) && (isNilConst(u.X) || isNilConst(u.Y)) {
						continue
					}
					return 0, false
				case *ssa.Phi:
					// merged with other values: the merged value is tested like the rest
					seenPhi := false
					for _, q := range vals {
						if q == ssa.Value(u) {
							seenPhi = true
						}
					}
					if !seenPhi && len(vals) < 16 {
						vals = append(vals, u)
					}
				case *ssa.Store:
					// kept in a local variable: its loads
					al, ok := u.Addr.(*ssa.Alloc)
					if !ok || u.Val != x {
						return 0, false
					}
					for _, r2 := range liveRefs(al) {
						if ld, ok := r2.(*ssa.UnOp); ok && ld.Op == token.MUL && len(vals) < 16 {
							vals = append(vals, ld)
						}
					}
				case *ssa.DebugRef:
				default:
					ins, ok := ref.(ssa.Instruction)
					if !ok || !nilGuarded(x, ins) {
						return 0, false
					}
				}
			}
		}
	}
	return len(sites), true
}

// knownNilAt: the use at `at` is dominated by the nil edge of a test of v
// against nil.
func knownNilAt(v ssa.Value, at ssa.Instruction) bool {
	if at == nil || v.Referrers() == nil {
		return false
	}
	for _, ref := range liveRefs(v) {
		bo, ok := ref.(*ssa.BinOp)
		if !ok || (bo.Op != token.EQL && bo.Op != token.NEQ) || !(isNilConst(bo.X) || isNilConst(bo.Y)) {
			continue
		}
		for _, r2 := range liveRefs(bo) {
			iff, ok := r2.(*ssa.If)
			if !ok {
				continue
			}
			isNil := iff.Block().Succs[0]
			if bo.Op == token.NEQ {
				isNil = iff.Block().Succs[1]
			}
			if len(isNil.Preds) == 1 && (isNil == at.Block() || isNil.Dominates(at.Block())) {
				return true
			}
		}
	}
	return false
}

// errorSurelySet: the error value is not nil: freshly made (fmt.Errorf,
// errors.New, a pointer to a new value put into the interface) or, at the
// instruction, behind a test that it is not nil.
func errorSurelySet(v ssa.Value, at ssa.Instruction) bool {
	return errorSurelySetD(v, at, 0)
}

func errorSurelySetD(v ssa.Value, at ssa.Instruction, depth int) bool {
	if v == nil || depth > 6 {
		return false
	}
	switch x := v.(type) {
	case *ssa.Call:
		if c := x.Call.StaticCallee(); c != nil {
			switch c.String() {
			case "fmt.Errorf", "errors.New":
				return true
			}
		}
	case *ssa.MakeInterface:
		if _, ok := x.X.(*ssa.Alloc); ok {
			return true
		}
	case *ssa.Phi:
		for _, e := range x.Edges {
			if !errorSurelySetD(e, nil, depth+1) {
				return at != nil && nilGuarded(v, at)
			}
		}
		return true
	}
	return at != nil && nilGuarded(v, at)
}

func (a *nonnil) mayNil(v ssa.Value, seen map[ssa.Value]bool) bool {
	if seen[v] {
		return false
	}
	seen[v] = true
	switch v := v.(type) {
	case *ssa.Const:
		return v.IsNil()
	case *ssa.Phi:
		for _, e := range v.Edges {
			if a.mayNil(e, seen) {
				return true
			}
		}
	case *ssa.MakeInterface:
		// a nil pointer wrapped in an interface is not a nil interface: the
		// callers' `== nil` tests do not see it, the next method call does
		return ptrMayBeNil(v.X, 0)
	case *ssa.ChangeInterface:
		return a.mayNil(v.X, seen)
	case *ssa.Call:
		if c := v.Call.StaticCallee(); c != nil && a.mayNilFn[c] {
			return true
		}
	case *ssa.Extract:
		if cl, ok := v.Tuple.(*ssa.Call); ok && v.Index == 0 {
			if c := cl.Call.StaticCallee(); c != nil && a.mayNilFn[c] {
				return true
			}
		}
	case *ssa.UnOp:
		if v.Op == token.MUL {
			if al, ok := v.X.(*ssa.Alloc); ok {
				stores := 0
				for _, r := range *al.Referrers() {
					if st, ok := r.(*ssa.Store); ok && st.Addr == al {
						stores++
						if a.mayNil(st.Val, seen) {
							return true
						}
					}
				}
				if stores == 0 {
					return true // zero value
				}
				// a load that some store does not dominate may see the zero value
				dominated := false
				for _, r := range *al.Referrers() {
					if st, ok := r.(*ssa.Store); ok && st.Addr == al && dominatesInstr(st, v) {
						dominated = true
					}
				}
				return !dominated
			}
		}
	}
	return false
}

// holesPossible: "" when some store into an element of the slice runs in every
// iteration of a loop (it dominates every back edge of its loop), or every
// path that skips it leaves the function with an error.
func holesPossible(ms *ssa.MakeSlice) string {
	var stores []*ssa.Store
	var collect func(v ssa.Value, d int)
	seen := map[ssa.Value]bool{}
	collect = func(v ssa.Value, d int) {
		if seen[v] || d > 4 || v.Referrers() == nil {
			return
		}
		seen[v] = true
		for _, ref := range *v.Referrers() {
			switch x := ref.(type) {
			case *ssa.IndexAddr:
				if x.X == v {
					for _, r2 := range *x.Referrers() {
						if st, ok := r2.(*ssa.Store); ok && st.Addr == ssa.Value(x) {
							stores = append(stores, st)
						}
					}
				}
			case *ssa.Phi:
				collect(x, d+1)
			case *ssa.Store:
				// spilled to a local: follow the loads
				if al, ok := x.Addr.(*ssa.Alloc); ok && x.Val == v {
					for _, r2 := range *al.Referrers() {
						if ld, ok := r2.(*ssa.UnOp); ok {
							collect(ld, d+1)
						}
					}
				}
			}
		}
	}
	collect(ms, 0)
	if len(stores) == 0 {
		return "no element of the slice is ever assigned"
	}
	for _, st := range stores {
		b := st.Block()
		// the loop containing the store: the innermost header that dominates b and is reachable from b
		var header *ssa.BasicBlock
		for h := b; h != nil; h = h.Idom() {
			isH := false
			for _, pd := range h.Preds {
				if h.Dominates(pd) && (pd == b || blockReaches(b, pd, nil)) {
					isH = true
				}
			}
			if isH {
				header = h
				break
			}
		}
		if header == nil {
			continue
		}
		every := true
		for _, pd := range header.Preds {
			if !header.Dominates(pd) {
				continue
			}
			if !(b == pd || b.Dominates(pd)) {
				every = false
			}
		}
		if every {
			return ""
		}
	}
	return "the slice is created with its full length and its elements are assigned only on some paths through the filling loop"
}

func ruleNonNil(p *Program, r *Reporter) {
	a := &nonnil{mayNilFn: map[*ssa.Function]bool{}}
	var objFns []*ssa.Function
	pairFns := map[*ssa.Function]bool{}
	for _, fn := range p.LibFns {
		rs := sigResults(fn)
		if len(rs) == 1 && isObjectIface(rs[0]) {
			objFns = append(objFns, fn)
		}
		// (object, error): the object is there whenever the error is not
		if len(rs) == 2 && isObjectIface(rs[0]) && isErrorType(rs[1]) {
			objFns = append(objFns, fn)
			pairFns[fn] = true
		}
	}
	type bad struct {
		fn  *ssa.Function
		pos token.Pos
	}
	var bads []bad
	for changed := true; changed; {
		changed = false
		for _, fn := range objFns {
			if a.mayNilFn[fn] {
				continue
			}
			for _, b := range fn.Blocks {
				ret, ok := terminator(b).(*ssa.Return)
				if !ok || (len(b.Preds) == 0 && b != fn.Blocks[0]) {
					continue
				}
				if pairFns[fn] && len(ret.Results) == 2 && errorSurelySet(returnOperand(ret, 1), ret) {
					continue // the error says there is no object
				}
				if a.mayNilAt(returnOperand(ret, 0), ret) {
					a.mayNilFn[fn] = true
					changed = true
					pos := ret.Pos()
					if !pos.IsValid() {
						pos = fn.Pos()
					}
					bads = append(bads, bad{fn, pos})
					break
				}
			}
		}
	}
	isBad := map[*ssa.Function]token.Pos{}
	for _, b := range bads {
		isBad[b.fn] = b.pos
	}
	for _, fn := range objFns {
		key := p.FnName(fn) + " returns a non-nil object"
		if pairFns[fn] {
			key += " whenever its error is nil"
		}
		if pos, ok := isBad[fn]; ok {
			// a helper whose every caller looks at the result before using it:
			// "nil" is then this helper's way of saying "nothing", and the
			// callers (whose own results and sinks are judged with that in
			// mind) turn it into an object
			if n, ok := a.everyCallerTests(p, fn); ok {
				r.OkNT(key, p.Pos(pos), fmt.Sprintf("may return nil to say \"nothing\"; each of its %d caller(s) compares the result with nil before any other use", n))
				continue
			}
			r.Fail(key, p.Pos(pos), "this function can return a nil object.Object (a nil constant, a variable that may still hold its zero value, or the result of a function that can): the caller pushes or returns it and the next method call on it panics — outside Execute's recover when it is the script's result")
		} else {
			r.OkNT(key, p.Pos(fn.Pos()), "")
		}
	}
	// sinks
	sinkNames := map[string]bool{
		"stack.(*Stack).Push": true, "environment.(*Environment).Set": true,
		"environment.(*Environment).SetLocal": true, "environment.(*Environment).Declare": true,
	}
	for _, fn := range p.LibFns {
		for _, b := range fn.Blocks {
			for _, ins := range b.Instrs {
				switch x := ins.(type) {
				case *ssa.Call:
					cal := x.Call.StaticCallee()
					if cal == nil || !sinkNames[p.FnName(cal)] {
						continue
					}
					arg := x.Call.Args[len(x.Call.Args)-1]
					key := siteKey(p, fn, x.Pos(), "passes an object to "+cal.Name())
					if a.mayNilAt(arg, x) {
						r.Fail(key, p.Pos(x.Pos()), "a possibly-nil object is handed to "+cal.Name())
					} else {
						r.Ok(key, p.Pos(x.Pos()), "")
					}
				case *ssa.MapUpdate:
					if !isObjectIface(x.Value.Type()) {
						continue
					}
					key := siteKey(p, fn, x.Pos(), "stores an object in a map")
					if a.mayNilAt(x.Value, x) {
						r.Fail(key, p.Pos(x.Pos()), "a possibly-nil object is stored in a map (field cache / variables)")
					} else {
						r.Ok(key, p.Pos(x.Pos()), "")
					}
				}
			}
		}
	}
	// slices of objects made with a length: every element assigned
	for _, fn := range p.LibFns {
		nth := 0
		for _, b := range fn.Blocks {
			for _, ins := range b.Instrs {
				ms, ok := ins.(*ssa.MakeSlice)
				if !ok {
					continue
				}
				sl, ok := ms.Type().Underlying().(*types.Slice)
				if !ok || !isObjectIface(sl.Elem()) {
					continue
				}
				if k, ok := constInt(ms.Len); ok && k == 0 {
					continue
				}
				nth++
				key := fmt.Sprintf("%s/slice of objects %d made with a length has every element assigned", p.FnName(fn), nth)
				if why := holesPossible(ms); why != "" {
					r.Fail(key, p.Pos(ms.Pos()), why+": the slots that are not assigned stay nil objects inside an array the script can index, iterate or return — `return Tags[1];` then hands a nil object to Run, whose True() call panics outside the recover")
				} else {
					r.OkNT(key, p.Pos(ms.Pos()), "filled by a store that runs in every iteration of the filling loop")
				}
			}
		}
	}
	// Execute returns a non-nil object on every path
	an, _ := p.Anchors()
	if an.execute != nil {
		okAll := true
		for _, b := range an.execute.Blocks {
			ret, ok := terminator(b).(*ssa.Return)
			if !ok {
				continue
			}
			v := returnOperand(ret, 0)
			if len(b.Preds) == 0 && b != an.execute.Blocks[0] {
				// recover block: result slot set by the deferred function; checked by R-RECOVER
				continue
			}
			if a.mayNil(v, map[ssa.Value]bool{}) {
				okAll = false
			}
			// the machine's result: (Object, error) from the interpreter, non-nil
			// when err == nil provided the interpreter itself never returns
			// (nil, nil)
		}
		r.Check(okAll, "Execute returns a non-nil object", p.Pos(an.execute.Pos()), "", "Execute can return an explicit nil object")
	}
	if an.vmRun != nil {
		// the interpreter: a return with nil error carries a non-nil object
		okAll := true
		n := 0
		for _, b := range an.vmRun.Blocks {
			ret, ok := terminator(b).(*ssa.Return)
			if !ok || !isSuccessReturn(ret) {
				continue
			}
			// `return result, err` of a Pop: success iff err nil — multi-result
			// callee handled flow-insensitively: object of (x, nil) pops is non-nil
			// by the stack invariant (only non-nil pushed: sinks above)
			if len(ret.Results) == 2 && isNilConst(ret.Results[1]) {
				n++
				if a.mayNil(ret.Results[0], map[ssa.Value]bool{}) {
					okAll = false
				}
			}
		}
		r.Check(okAll && n > 0, "the interpreter returns a non-nil object with a nil error", p.Pos(an.vmRun.Pos()), fmt.Sprintf("%d success returns", n), "the interpreter can return (nil, nil)")
	}
}

// ---------------------------------------------------------------------------
// R-RECOVER

func ruleRecover(p *Program, r *Reporter) {
	a := needAnchors(p, r)
	if a == nil {
		return
	}
	var runCall ssa.CallInstruction
	for _, c := range callsTo(a.execute, a.vmEntry) {
		runCall = c
	}
	if runCall == nil {
		r.Undecided("Execute runs the machine", p.Pos(a.execute.Pos()), "no direct call of the interpreter")
		return
	}
	recovers, setsBoth := false, false
	for _, body := range deferredBodies(a.execute, runCall) {
		for _, b := range body.Blocks {
			for _, ins := range b.Instrs {
				if c, ok := ins.(*ssa.Call); ok {
					if bi, ok := c.Call.Value.(*ssa.Builtin); ok && bi.Name() == "recover" {
						recovers = true
						// on the branch where it is non-nil both results are stored
						stores := map[int]bool{}
						for _, bb := range body.Blocks {
							for _, i2 := range bb.Instrs {
								if st, ok := i2.(*ssa.Store); ok {
									if fv, ok := st.Addr.(*ssa.FreeVar); ok {
										for i, f := range body.FreeVars {
											if f == fv {
												stores[i] = true
											}
										}
									}
								}
							}
						}
						// free variables that are result slots of Execute
						nres := 0
						for _, fv := range body.FreeVars {
							if isObjectIface(deref(fv.Type())) || isErrorType(deref(fv.Type())) {
								nres++
							}
						}
						n := 0
						for i, fv := range body.FreeVars {
							if (isObjectIface(deref(fv.Type())) || isErrorType(deref(fv.Type()))) && stores[i] {
								n++
							}
						}
						setsBoth = nres >= 2 && n >= 2
						if !setsBoth {
							// a named clean-up function that is handed the addresses of
							// the two results: stores through its pointer parameters
							pres, pn := 0, 0
							for _, prm := range body.Params {
								pt, ok := prm.Type().Underlying().(*types.Pointer)
								if !ok || !(isObjectIface(pt.Elem()) || isErrorType(pt.Elem())) {
									continue
								}
								pres++
								for _, ref := range *prm.Referrers() {
									if st, ok := ref.(*ssa.Store); ok && st.Addr == ssa.Value(prm) {
										pn++
										break
									}
								}
							}
							// … and the deferring call passes the addresses of Execute's own results
							handsResults := false
							for _, eb := range a.execute.Blocks {
								for _, ei := range eb.Instrs {
									if d, ok := ei.(*ssa.Defer); ok && d.Call.StaticCallee() == body {
										cnt := 0
										for _, arg := range d.Call.Args {
											if al, ok := arg.(*ssa.Alloc); ok && (isObjectIface(deref(al.Type())) || isErrorType(deref(al.Type()))) {
												cnt++
											}
										}
										handsResults = cnt >= 2
									}
								}
							}
							setsBoth = pres >= 2 && pn >= 2 && handsResults
						}
					}
				}
			}
		}
	}
	r.Check(recovers, "Execute recovers panics of the machine", p.Pos(runCall.Pos()), "deferred recover registered before the machine runs", "Execute runs the machine without a deferred recover: a panic inside a script (bad index, failed assertion, panic()) unwinds into the host")
	r.Check(setsBoth, "the recover sets both of Execute's results", p.Pos(a.execute.Pos()), "object and error are assigned", "after a recovered panic Execute must return a non-nil object and a non-nil error; the deferred function does not assign both result variables")
	// Run: after Execute only True() on its first result
	var exCall *ssa.Call
	for _, c := range callsTo(a.run, a.execute) {
		exCall, _ = c.(*ssa.Call)
	}
	if exCall == nil {
		r.Undecided("Run calls Execute", p.Pos(a.run.Pos()), "no direct call of Execute in Run")
		return
	}
	risky := ""
	walkForward(exCall, func(ins ssa.Instruction) bool {
		switch x := ins.(type) {
		case *ssa.Call:
			cc := x.Call
			if cc.IsInvoke() {
				if cc.Method.Name() == "True" {
					return false
				}
				risky = "calls " + cc.Method.Name() + " on an interface value"
			} else if cal := cc.StaticCallee(); cal != nil {
				full := calleeFullName(&cc)
				if full != "(*sync.Mutex).Unlock" && full != "(*sync.Mutex).Lock" {
					risky = "calls " + full
				}
			}
		case *ssa.TypeAssert:
			if !x.CommaOk {
				risky = "unchecked type assertion"
			}
		case *ssa.IndexAddr, *ssa.Index, *ssa.Lookup, *ssa.MapUpdate:
			risky = "indexing"
		case *ssa.Panic:
			risky = "explicit panic"
		}
		return false
	})
	r.Check(risky == "", "Run does nothing that can panic after Execute", p.Pos(exCall.Pos()), "only True() on Execute's object (non-nil: R-NONNIL)", "after Execute returns, Run "+risky+" outside any recover")
}

// ---------------------------------------------------------------------------
// R-RECURSION

// sccs of the library call graph (Tarjan).
func librarySCCs(p *Program) [][]*ssa.Function {
	cg := p.CallGraph()
	lib := map[*ssa.Function]bool{}
	for _, fn := range p.LibFns {
		lib[fn] = true
	}
	index := map[*ssa.Function]int{}
	low := map[*ssa.Function]int{}
	on := map[*ssa.Function]bool{}
	var stack []*ssa.Function
	var out [][]*ssa.Function
	idx := 0
	var succs = func(f *ssa.Function) []*ssa.Function {
		var s []*ssa.Function
		n := cg.Nodes[f]
		if n == nil {
			return nil
		}
		seen := map[*ssa.Function]bool{}
		// only direct edges between library functions: recursion through the
		// standard library (sort callbacks, fmt Stringers) is followed by
		// expanding non-library callees transitively
		var expand func(n *callgraph.Node, depth int)
		visited := map[*callgraph.Node]bool{}
		expand = func(n *callgraph.Node, depth int) {
			if visited[n] || depth > 6 {
				return
			}
			visited[n] = true
			for _, e := range n.Out {
				c := e.Callee.Func
				if lib[c] {
					if !seen[c] {
						seen[c] = true
						s = append(s, c)
					}
				} else {
					expand(e.Callee, depth+1)
				}
			}
		}
		expand(n, 0)
		sort.Slice(s, func(i, j int) bool { return s[i].String() < s[j].String() })
		return s
	}
	var strong func(v *ssa.Function)
	strong = func(v *ssa.Function) {
		index[v], low[v] = idx, idx
		idx++
		stack = append(stack, v)
		on[v] = true
		for _, w := range succs(v) {
			if _, ok := index[w]; !ok {
				strong(w)
				if low[w] < low[v] {
					low[v] = low[w]
				}
			} else if on[w] && index[w] < low[v] {
				low[v] = index[w]
			}
		}
		if low[v] == index[v] {
			var comp []*ssa.Function
			for {
				w := stack[len(stack)-1]
				stack = stack[:len(stack)-1]
				on[w] = false
				comp = append(comp, w)
				if w == v {
					break
				}
			}
			self := false
			if len(comp) == 1 {
				for _, w := range succs(v) {
					if w == v {
						self = true
					}
				}
			}
			if len(comp) > 1 || self {
				sort.Slice(comp, func(i, j int) bool { return p.FnName(comp[i]) < p.FnName(comp[j]) })
				out = append(out, comp)
			}
		}
	}
	for _, fn := range p.LibFns {
		if _, ok := index[fn]; !ok {
			strong(fn)
		}
	}
	sort.Slice(out, func(i, j int) bool { return p.FnName(out[i][0]) < p.FnName(out[j][0]) })
	return out
}

// hasDepthGuard: some function of the component compares a counter field
// (that the component increments) with a bound and returns on that branch
// before any call back into the component.
func hasDepthGuard(p *Program, comp []*ssa.Function) (bool, string) {
	in := map[*ssa.Function]bool{}
	for _, f := range comp {
		in[f] = true
	}
	// counters: fields incremented (+1) in the component
	counters := map[string]bool{}
	for _, f := range comp {
		for _, b := range f.Blocks {
			for _, ins := range b.Instrs {
				st, ok := ins.(*ssa.Store)
				if !ok {
					continue
				}
				bo, ok := st.Val.(*ssa.BinOp)
				if !ok || bo.Op != token.ADD {
					continue
				}
				if n, ok := constInt(bo.Y); !ok || n != 1 {
					continue
				}
				if k := fieldKey(st.Addr); k != "" {
					counters[k] = true
				}
			}
		}
	}
	// a counter counts the depth only if nothing inside the component sets it
	// to anything but one more, one less, or a value it had before (saved and
	// put back): a reset to zero at the entry of a function of the component
	// starts the count again at every level, and the limit is never reached
	for k := range counters {
		if counterResetIn(comp, k) {
			delete(counters, k)
		}
	}
	cg := p.CallGraph()
	// the guarded call sites: behind a test of an incremented counter against a
	// constant whose other side returns without calling back into the component
	passOf := map[*ssa.Function][]*ssa.BasicBlock{}
	var guardFns []string
	for _, f := range comp {
		for _, b := range f.Blocks {
			iff, ok := terminator(b).(*ssa.If)
			if !ok {
				continue
			}
			bo, ok := iff.Cond.(*ssa.BinOp)
			if !ok || (bo.Op != token.GTR && bo.Op != token.GEQ && bo.Op != token.LSS && bo.Op != token.LEQ) {
				continue
			}
			counterOf := func(v ssa.Value) string {
				for _, o := range origins(v) {
					if u, ok := o.(*ssa.UnOp); ok && u.Op == token.MUL && counters[fieldKey(u.X)] {
						return fieldKey(u.X)
					}
					if bo2, ok := o.(*ssa.BinOp); ok {
						if u, ok := bo2.X.(*ssa.UnOp); ok && counters[fieldKey(u.X)] {
							return fieldKey(u.X)
						}
					}
				}
				return ""
			}
			_, cy := bo.Y.(*ssa.Const)
			_, cx := bo.X.(*ssa.Const)
			ck := ""
			if cy {
				ck = counterOf(bo.X)
			} else if cx {
				ck = counterOf(bo.Y)
			}
			if ck == "" {
				continue
			}
			// the counter is incremented in this function before the test
			incBefore := false
			for _, b2 := range f.Blocks {
				for _, ins := range b2.Instrs {
					if st, ok := ins.(*ssa.Store); ok && fieldKey(st.Addr) == ck {
						if bo3, ok := st.Val.(*ssa.BinOp); ok && bo3.Op == token.ADD && (b2 == b || b2.Dominates(b)) {
							incBefore = true
						}
					}
				}
			}
			if !incBefore {
				continue
			}
			// one successor returns without recursing: the other is the pass side
			for si, sc := range b.Succs {
				if _, ok := terminator(sc).(*ssa.Return); !ok {
					continue
				}
				rec := false
				for _, ins := range sc.Instrs {
					if cc := callOf(ins); cc != nil && (cc.StaticCallee() == nil || in[cc.StaticCallee()]) {
						rec = true
					}
				}
				if !rec && len(b.Succs[1-si].Preds) == 1 {
					passOf[f] = append(passOf[f], b.Succs[1-si])
				}
			}
		}
		// the same test kept in a helper that says whether one more level is
		// allowed: the call's result decides, and the refusing side returns
		// without recursing
		for _, b := range f.Blocks {
			iff, ok := terminator(b).(*ssa.If)
			if !ok {
				continue
			}
			cond, neg := iff.Cond, false
			if u, ok := cond.(*ssa.UnOp); ok && u.Op == token.NOT {
				cond, neg = u.X, true
			}
			cl, ok := cond.(*ssa.Call)
			passWhen := false
			if ok && cl.Call.StaticCallee() != nil {
				passWhen, ok = depthGuardHelper(cl.Call.StaticCallee())
			} else if bo, isBo := cond.(*ssa.BinOp); isBo && (bo.Op == token.NEQ || bo.Op == token.EQL) {
				// err := vm.enterCall(); if err != nil { return … }
				var ev ssa.Value
				if isNilConst(bo.Y) {
					ev = bo.X
				} else if isNilConst(bo.X) {
					ev = bo.Y
				}
				ok = false
				if ec, isCall := ev.(*ssa.Call); isCall && ec.Call.StaticCallee() != nil && depthGuardHelperErr(ec.Call.StaticCallee()) {
					ok = true
					// the condition is true when …
					passWhen = bo.Op == token.EQL // `err == nil` true: go on
					if neg {
						passWhen = !passWhen
						neg = false
					}
					// map onto "call result true means pass" used below
					cond = ev
					if !passWhen {
						// `err != nil` true means refuse: the pass side is the false edge
						neg, passWhen = true, true
					}
				}
			} else {
				ok = false
			}
			if !ok {
				continue
			}
			// (a counter that the component itself resets counts nothing)
			if hc, isCall := cond.(*ssa.Call); isCall && hc.Call.StaticCallee() != nil {
				if k := helperCounter(hc.Call.StaticCallee()); k != "" && counterResetIn(comp, k) {
					continue
				}
			}
			passIdx := 0
			if passWhen == neg {
				passIdx = 1
			}
			sc := b.Succs[1-passIdx]
			if _, ok := terminator(sc).(*ssa.Return); !ok {
				continue
			}
			rec := false
			for _, ins := range sc.Instrs {
				if cc := callOf(ins); cc != nil && (cc.StaticCallee() == nil || in[cc.StaticCallee()]) {
					rec = true
				}
			}
			if !rec && len(b.Succs[passIdx].Preds) == 1 {
				passOf[f] = append(passOf[f], b.Succs[passIdx])
			}
		}
		if len(passOf[f]) > 0 {
			guardFns = append(guardFns, p.FnName(f))
		}
	}
	if len(passOf) == 0 {
		return false, ""
	}
	guarded := func(f *ssa.Function, site ssa.CallInstruction) bool {
		if site == nil {
			return false
		}
		for _, pb := range passOf[f] {
			if pb == site.Block() || pb.Dominates(site.Block()) {
				return true
			}
		}
		return false
	}
	// without the guarded calls the component has no cycle left: every cycle
	// takes a call that the counter limits
	lib := map[*ssa.Function]bool{}
	for _, fn := range p.LibFns {
		lib[fn] = true
	}
	// callees of x inside the component, with the call site in x; calls that
	// go through wrappers or the standard library are followed to where they
	// come back into the library
	type compEdge struct {
		to   *ssa.Function
		site ssa.CallInstruction
	}
	edgesOf := func(x *ssa.Function) []compEdge {
		var out []compEdge
		nd := cg.Nodes[x]
		if nd == nil {
			return nil
		}
		for _, e := range nd.Out {
			c := e.Callee.Func
			if lib[c] {
				if in[c] {
					out = append(out, compEdge{c, e.Site})
				}
				continue
			}
			seen := map[*callgraph.Node]bool{}
			var expand func(n *callgraph.Node, d int)
			expand = func(n *callgraph.Node, d int) {
				if seen[n] || d > 6 {
					return
				}
				seen[n] = true
				for _, e2 := range n.Out {
					c2 := e2.Callee.Func
					if lib[c2] {
						if in[c2] {
							out = append(out, compEdge{c2, e.Site})
						}
					} else {
						expand(e2.Callee, d+1)
					}
				}
			}
			expand(e.Callee, 0)
		}
		return out
	}
	acyclic := true
	color := map[*ssa.Function]int{}
	var dfs func(x *ssa.Function)
	dfs = func(x *ssa.Function) {
		color[x] = 1
		for _, e := range edgesOf(x) {
			c := e.to
			if guarded(x, e.site) {
				continue
			}
			switch color[c] {
			case 0:
				dfs(c)
			case 1:
				acyclic = false
			}
		}
		color[x] = 2
	}
	for _, x := range comp {
		if color[x] == 0 {
			dfs(x)
		}
	}
	if !acyclic {
		return false, ""
	}
	sort.Strings(guardFns)
	return true, strings.Join(guardFns, ", ") + " count the depth and stop at a bound: every cycle of the component takes a call that lies behind such a test"
}

// hasDepthParam: the recursion carries its depth as an int parameter.  Edges of
// the component that cannot be taken are removed first — an interface call in
// a branch where a type switch has ruled the component's receiver types out, or
// on a hash key, which is never an array or a hash — and in what remains every
// cycle must pass a function that compares its depth parameter with a constant
// and stops, with every call handing the depth on (plus at least one from such
// a function).
func hasDepthParam(p *Program, comp []*ssa.Function) (bool, string) {
	in := map[*ssa.Function]bool{}
	for _, f := range comp {
		in[f] = true
	}
	cg := p.CallGraph()
	lib := map[*ssa.Function]bool{}
	for _, fn := range p.LibFns {
		lib[fn] = true
	}
	type edge struct {
		to   *ssa.Function
		site ssa.CallInstruction // nil when the call goes through the standard library
	}
	edges := map[*ssa.Function][]edge{}
	for _, f := range comp {
		n := cg.Nodes[f]
		if n == nil {
			continue
		}
		for _, e := range n.Out {
			c := e.Callee.Func
			if lib[c] {
				if !in[c] {
					continue
				}
				if e.Site != nil && e.Site.Common().IsInvoke() && c.Signature.Recv() != nil {
					v := e.Site.Common().Value
					if typeRuledOut(v, e.Site.Block(), c.Signature.Recv().Type()) || hashKeyNever(p, v, c.Signature.Recv().Type()) {
						continue
					}
				}
				edges[f] = append(edges[f], edge{c, e.Site})
				continue
			}
			// through the standard library (sort callbacks …)
			seen := map[*callgraph.Node]bool{}
			var expand func(n *callgraph.Node, d int)
			expand = func(n *callgraph.Node, d int) {
				if seen[n] || d > 6 {
					return
				}
				seen[n] = true
				for _, e2 := range n.Out {
					c2 := e2.Callee.Func
					if lib[c2] {
						if in[c2] {
							edges[f] = append(edges[f], edge{c2, nil})
						}
					} else {
						expand(e2.Callee, d+1)
					}
				}
			}
			expand(e.Callee, 0)
		}
	}
	// functions with a bounded depth parameter
	bounded := map[*ssa.Function]int{}
	for _, f := range comp {
		for i, prm := range f.Params {
			if !isInt(prm.Type()) || prm.Referrers() == nil {
				continue
			}
			for _, ref := range *prm.Referrers() {
				bo, ok := ref.(*ssa.BinOp)
				if !ok || (bo.Op != token.GTR && bo.Op != token.GEQ) || bo.X != ssa.Value(prm) {
					continue
				}
				if _, isConst := constInt(bo.Y); !isConst {
					continue
				}
				for _, r2 := range *bo.Referrers() {
					iff, ok := r2.(*ssa.If)
					if !ok {
						continue
					}
					stop := iff.Block().Succs[0]
					if _, ok := terminator(stop).(*ssa.Return); ok {
						rec := false
						for _, ins := range stop.Instrs {
							if cc := callOf(ins); cc != nil && cc.StaticCallee() != nil && in[cc.StaticCallee()] {
								rec = true
							}
						}
						if !rec {
							bounded[f] = i
						}
					}
				}
			}
		}
	}
	if os.Getenv("EVCHECK_DEBUG_REC") != "" {
		for f, es := range edges {
			for _, e := range es {
				fmt.Fprintln(os.Stderr, "edge", f, "->", e.to, e.site != nil)
			}
		}
		for f := range bounded {
			fmt.Fprintln(os.Stderr, "bounded", f)
		}
	}
	if len(bounded) == 0 {
		return false, ""
	}
	// functions that lie on a cycle of the reduced graph
	reach := func(from, to *ssa.Function, avoid map[*ssa.Function]int) bool {
		seen := map[*ssa.Function]bool{}
		var w func(x *ssa.Function) bool
		w = func(x *ssa.Function) bool {
			for _, e := range edges[x] {
				if _, skip := avoid[e.to]; skip && e.to != to {
					continue
				}
				if e.to == to {
					return true
				}
				if !seen[e.to] {
					seen[e.to] = true
					if w(e.to) {
						return true
					}
				}
			}
			return false
		}
		return w(from)
	}
	onCycle := map[*ssa.Function]bool{}
	for _, f := range comp {
		if reach(f, f, nil) {
			onCycle[f] = true
		}
	}
	if len(onCycle) == 0 {
		return true, "no cycle remains once the interface calls that cannot reach the component (type switch, hash keys) are removed"
	}
	// every remaining cycle passes a bounded function
	for f := range onCycle {
		if _, isB := bounded[f]; isB {
			continue
		}
		if reach(f, f, bounded) {
			return false, ""
		}
	}
	// depth is handed on along every edge between functions on cycles
	depthParam := func(f *ssa.Function) *ssa.Parameter {
		if i, ok := bounded[f]; ok {
			return f.Params[i]
		}
		var own *ssa.Parameter
		for _, prm := range f.Params {
			if isInt(prm.Type()) {
				own = prm
			}
		}
		return own
	}
	for f := range onCycle {
		own := depthParam(f)
		for _, e := range edges[f] {
			if !onCycle[e.to] {
				continue
			}
			if e.site == nil || own == nil || e.site.Common().IsInvoke() {
				return false, ""
			}
			tp := depthParam(e.to)
			if tp == nil {
				return false, ""
			}
			idx := -1
			for i, q := range e.to.Params {
				if q == tp {
					idx = i
				}
			}
			args := e.site.Common().Args
			if idx < 0 || idx >= len(args) {
				return false, ""
			}
			k := int64(-1)
			if args[idx] == ssa.Value(own) {
				k = 0
			} else if bo, ok := args[idx].(*ssa.BinOp); ok && bo.Op == token.ADD && bo.X == ssa.Value(own) {
				if kk, ok := constInt(bo.Y); ok {
					k = kk
				}
			}
			_, fromBounded := bounded[f]
			if k < 0 || (fromBounded && k < 1) {
				return false, ""
			}
		}
	}
	var names []string
	for f := range bounded {
		names = append(names, p.FnName(f))
	}
	sort.Strings(names)
	return true, "the recursion carries its depth as a parameter, compared with a constant in " + strings.Join(names, ", ") + "; every call on a cycle hands the depth on, plus one from those functions (interface calls that cannot reach the component are disregarded)"
}

// hashKeyNever: v is the key of a hash entry, every key stored in an entry has
// been asserted to be hashable, and t is not a hashable type — the interface
// call on v cannot reach a method of t.
func hashKeyNever(p *Program, v ssa.Value, t types.Type) bool {
	isKey := false
	var fv ssa.Value = v
	if ld, ok := v.(*ssa.UnOp); ok && ld.Op == token.MUL {
		fv = ld.X
	}
	if owner, fld, ok := fieldOf(fv); ok && owner != nil && owner.Obj().Name() == "HashPair" && fld == "Key" {
		isKey = true
	}
	if !isKey {
		return false
	}
	// t must not have a HashKey method
	ms := types.NewMethodSet(t)
	for i := 0; i < ms.Len(); i++ {
		if ms.At(i).Obj().Name() == "HashKey" {
			return false
		}
	}
	// every entry that is put into a hash has a key that was asserted to be
	// Hashable: keys are only written into local entries, and a local entry
	// is only stored into a map where the assertion has succeeded
	keyOf := map[*ssa.Alloc]ssa.Value{}
	for _, fn := range p.LibFns {
		for _, b := range fn.Blocks {
			for _, ins := range b.Instrs {
				st, ok := ins.(*ssa.Store)
				if !ok {
					continue
				}
				owner, fld, ok := fieldOf(st.Addr)
				if !ok || owner == nil || owner.Obj().Name() != "HashPair" || fld != "Key" {
					continue
				}
				al, ok := st.Addr.(*ssa.FieldAddr).X.(*ssa.Alloc)
				if !ok {
					return false
				}
				if _, dup := keyOf[al]; dup {
					return false
				}
				keyOf[al] = st.Val
			}
		}
	}
	n := 0
	for _, fn := range p.LibFns {
		for _, b := range fn.Blocks {
			for _, ins := range b.Instrs {
				mu, ok := ins.(*ssa.MapUpdate)
				if !ok {
					continue
				}
				mt, ok := mu.Map.Type().Underlying().(*types.Map)
				if !ok {
					continue
				}
				if nm, ok := types.Unalias(mt.Elem()).(*types.Named); !ok || nm.Obj().Name() != "HashPair" {
					continue
				}
				n++
				ld, ok := mu.Value.(*ssa.UnOp)
				if !ok {
					return false
				}
				al, ok := ld.X.(*ssa.Alloc)
				if !ok {
					return false
				}
				key := keyOf[al]
				if key == nil || key.Referrers() == nil {
					return false
				}
				asserted := false
				for _, ref := range *key.Referrers() {
					ta, ok := ref.(*ssa.TypeAssert)
					if !ok || !isNamed(ta.AssertedType, "object", "Hashable") {
						continue
					}
					if !ta.CommaOk {
						if ta.Block() == b || ta.Block().Dominates(b) {
							asserted = true
						}
						continue
					}
					for _, r2 := range *ta.Referrers() {
						ex, ok := r2.(*ssa.Extract)
						if !ok || ex.Index != 1 {
							continue
						}
						for _, r3 := range *ex.Referrers() {
							if iff, ok := r3.(*ssa.If); ok {
								hit := iff.Block().Succs[0]
								if hit == b || hit.Dominates(b) {
									asserted = true
								}
							}
						}
					}
				}
				if !asserted {
					return false
				}
			}
		}
	}
	return n > 0
}

// typeRuledOut: on every path to block b a comma-ok assertion of v to type t
// has failed (the block lies on the false side of `_, ok := v.(t)`).
func typeRuledOut(v ssa.Value, b *ssa.BasicBlock, t types.Type) bool {
	if v.Referrers() == nil {
		return false
	}
	// the same field of the same struct value read twice is one value
	var refs []ssa.Instruction
	refs = append(refs, *v.Referrers()...)
	if f, ok := v.(*ssa.Field); ok && f.X.Referrers() != nil {
		for _, r0 := range *f.X.Referrers() {
			if f2, ok := r0.(*ssa.Field); ok && f2 != f && f2.Field == f.Field && f2.Referrers() != nil {
				refs = append(refs, *f2.Referrers()...)
			}
		}
	}
	if ld, ok := v.(*ssa.UnOp); ok && ld.Op == token.MUL {
		// … and so is a field of a local that is assigned once
		if fa, ok := ld.X.(*ssa.FieldAddr); ok {
			if al, ok := fa.X.(*ssa.Alloc); ok && al.Referrers() != nil {
				stores := 0
				for _, r0 := range *al.Referrers() {
					if st, ok := r0.(*ssa.Store); ok && st.Addr == ssa.Value(al) {
						stores++
					}
				}
				if stores <= 1 {
					for _, r0 := range *al.Referrers() {
						if fa2, ok := r0.(*ssa.FieldAddr); ok && fa2.Field == fa.Field && fa2.Referrers() != nil {
							onlyLoads := true
							for _, r1 := range *fa2.Referrers() {
								if _, isSt := r1.(*ssa.Store); isSt {
									onlyLoads = false
								}
							}
							if !onlyLoads {
								continue
							}
							for _, r1 := range *fa2.Referrers() {
								if l2, ok := r1.(*ssa.UnOp); ok && l2 != ld && l2.Referrers() != nil {
									refs = append(refs, *l2.Referrers()...)
								}
							}
						}
					}
				}
			}
		}
	}
	for _, ref := range refs {
		ta, ok := ref.(*ssa.TypeAssert)
		if !ok || !ta.CommaOk || !types.Identical(ta.AssertedType, t) {
			continue
		}
		for _, r2 := range *ta.Referrers() {
			ex, ok := r2.(*ssa.Extract)
			if !ok || ex.Index != 1 {
				continue
			}
			for _, r3 := range *ex.Referrers() {
				iff, ok := r3.(*ssa.If)
				if !ok {
					continue
				}
				miss := iff.Block().Succs[1]
				if miss == b || miss.Dominates(b) {
					return true
				}
			}
		}
	}
	return false
}

// hasOnPathSet: the recursion follows references of the host's data, and a
// function of the component keeps the set of things it is in the middle of
// converting: it returns without recursing when the thing is already in the
// set, inserts it before recursing and removes it by a deferred delete.  A
// cyclic structure is then followed once around, not for ever.
func hasOnPathSet(p *Program, comp []*ssa.Function) (bool, string) {
	in := map[*ssa.Function]bool{}
	for _, f := range comp {
		in[f] = true
	}
	guarded := map[*ssa.Function]bool{}
	for _, f := range comp {
		var setField string
		insertDominates := false
		var insert *ssa.MapUpdate
		for _, b := range f.Blocks {
			for _, ins := range b.Instrs {
				if mu, ok := ins.(*ssa.MapUpdate); ok {
					if ld, ok := mu.Map.(*ssa.UnOp); ok {
						if k := fieldKey(ld.X); k != "" {
							if c, ok := mu.Value.(*ssa.Const); ok && c.Value != nil && c.Value.Kind() == constant.Bool && constant.BoolVal(c.Value) {
								setField, insert = k, mu
							}
						}
					}
				}
			}
		}
		if insert == nil {
			// the test and the insertion kept in a function that says whether
			// the value was new; the removal (deferred) and the decision stay here
			if ok := onPathViaHelper(f, in); ok {
				guarded[f] = true
			} else if onPathViaList(f, in) {
				guarded[f] = true
			}
			continue
		}
		// test before: a lookup in the same set guarding a return without recursion
		tested := false
		for _, b := range f.Blocks {
			for _, ins := range b.Instrs {
				lk, ok := ins.(*ssa.Lookup)
				if !ok {
					continue
				}
				ld, ok := lk.X.(*ssa.UnOp)
				if !ok || fieldKey(ld.X) != setField {
					continue
				}
				for _, ref := range *lk.Referrers() {
					iff, ok := ref.(*ssa.If)
					if !ok {
						continue
					}
					stop := iff.Block().Succs[0]
					if _, isRet := terminator(stop).(*ssa.Return); isRet && dominatesInstr(lk, insert) {
						rec := false
						for _, i2 := range stop.Instrs {
							if cc := callOf(i2); cc != nil && cc.StaticCallee() != nil && in[cc.StaticCallee()] {
								rec = true
							}
						}
						if !rec {
							tested = true
						}
					}
				}
			}
		}
		// removal: a deferred delete on the same set
		removed := false
		for _, b := range f.Blocks {
			for _, ins := range b.Instrs {
				d, ok := ins.(*ssa.Defer)
				if !ok {
					continue
				}
				if bi, ok := d.Call.Value.(*ssa.Builtin); ok && bi.Name() == "delete" {
					if ld, ok := d.Call.Args[0].(*ssa.UnOp); ok && fieldKey(ld.X) == setField {
						removed = true
					}
				}
			}
		}
		// the insert precedes every call back into the component
		insertDominates = true
		for _, b := range f.Blocks {
			for _, ins := range b.Instrs {
				if cc := callOf(ins); cc != nil && cc.StaticCallee() != nil && in[cc.StaticCallee()] {
					if !dominatesInstr(insert, ins) {
						insertDominates = false
					}
				}
			}
		}
		if tested && removed && insertDominates {
			guarded[f] = true
		}
	}
	if len(guarded) == 0 {
		return false, ""
	}
	// every cycle of the component passes a guarded function: remove them and
	// look for a remaining cycle
	cg := p.CallGraph()
	color := map[*ssa.Function]int{}
	var cyc func(f *ssa.Function) bool
	cyc = func(f *ssa.Function) bool {
		color[f] = 1
		if n := cg.Nodes[f]; n != nil {
			for _, e := range n.Out {
				c := e.Callee.Func
				if !in[c] || guarded[c] {
					continue
				}
				if color[c] == 1 {
					return true
				}
				if color[c] == 0 && cyc(c) {
					return true
				}
			}
		}
		color[f] = 2
		return false
	}
	for _, f := range comp {
		if !guarded[f] && color[f] == 0 && cyc(f) {
			return false, ""
		}
	}
	var names []string
	for f := range guarded {
		names = append(names, p.FnName(f))
	}
	sort.Strings(names)
	// the set stops a value that contains itself, not one that is merely deep:
	// its size — the number of containers on the way to the member at hand —
	// has to be held against a constant too, with the far side returning
	// without recursing
	for f := range guarded {
		if !pathSizeBounded(f, in, 0) {
			lastOnPathNote = p.FnName(f) + " keeps the containers on the current path in a set, which stops a value that contains itself — but nothing limits the size of that set, that is the depth of an acyclic value: a host object nested a few million slices deep still overflows the Go stack"
			return false, ""
		}
	}
	return true, strings.Join(names, ", ") + " keep the set of host values on the current path (tested first, inserted before recursing, removed by a deferred delete), and its size is held against a constant: a value that contains itself is followed once, a deep one to that depth; every cycle of the component passes one of them"
}

// lastOnPathNote: why the last on-path set examined does not bound the recursion.
var lastOnPathNote string

// pathSizeBounded: f (or a function of the module it calls) compares the
// length of a map or slice kept in a field with a constant, and one side of
// that comparison returns without calling back into the component.
func pathSizeBounded(f *ssa.Function, in map[*ssa.Function]bool, depth int) bool {
	for _, b := range f.Blocks {
		iff, ok := terminator(b).(*ssa.If)
		if !ok {
			continue
		}
		bo, ok := iff.Cond.(*ssa.BinOp)
		if !ok || (bo.Op != token.GEQ && bo.Op != token.GTR && bo.Op != token.LSS && bo.Op != token.LEQ) {
			continue
		}
		isLenOfField := func(v ssa.Value) bool {
			c, ok := v.(*ssa.Call)
			if !ok {
				return false
			}
			if _, isLen := isBuiltinCall(c, "len"); !isLen {
				return false
			}
			arg := c.Call.Args[0]
			for i := 0; i < 3; i++ {
				if ld, ok := arg.(*ssa.UnOp); ok {
					if fieldKey(ld.X) != "" {
						return true
					}
					arg = ld.X
					continue
				}
				break
			}
			// a method of the path type applied to the field: len(*p)
			if prm, ok := arg.(*ssa.Parameter); ok && len(f.Params) > 0 && prm == f.Params[0] {
				return true
			}
			return false
		}
		_, cy := bo.Y.(*ssa.Const)
		_, cx := bo.X.(*ssa.Const)
		if !(cy && isLenOfField(bo.X) || cx && isLenOfField(bo.Y)) {
			continue
		}
		for _, sc := range b.Succs {
			if _, isRet := terminator(sc).(*ssa.Return); !isRet {
				continue
			}
			rec := false
			for _, ins := range sc.Instrs {
				if cc := callOf(ins); cc != nil && cc.StaticCallee() != nil && in[cc.StaticCallee()] {
					rec = true
				}
			}
			if !rec {
				return true
			}
		}
	}
	if depth >= 2 {
		return false
	}
	for _, b := range f.Blocks {
		for _, ins := range b.Instrs {
			if cc := callOf(ins); cc != nil && cc.StaticCallee() != nil && !in[cc.StaticCallee()] && len(cc.StaticCallee().Blocks) > 0 && fnPkg(cc.StaticCallee()) != nil && IsLibPath(fnPkg(cc.StaticCallee()).Pkg.Path()) {
				if pathSizeBounded(cc.StaticCallee(), in, depth+1) {
					return true
				}
			}
		}
	}
	return false
}

func ruleRecursion(p *Program, r *Reporter) {
	a := needAnchors(p, r)
	if a == nil {
		return
	}
	roots := []*ssa.Function{a.prepare, a.execute, a.run, a.dump}
	// the command-line driver is a front end of the same library: what it does
	// with a result (show it as JSON) must not kill the process either
	for _, fn := range p.Fns {
		if fnPkg(fn) != nil && strings.HasPrefix(fnPkg(fn).Pkg.Path(), Mod+"/cmd") && fn.Parent() == nil {
			roots = append(roots, fn)
		}
	}
	reach := p.Reachable(roots...)
	for _, comp := range librarySCCs(p) {
		reachable := false
		for _, f := range comp {
			if reach[f] {
				reachable = true
			}
		}
		var names []string
		for _, f := range comp {
			names = append(names, strings.TrimPrefix(p.FnName(f), ""))
		}
		short := names
		if len(short) > 3 {
			short = append(append([]string{}, short[:3]...), fmt.Sprintf("… (%d functions)", len(names)))
		}
		key := "recursive component {" + strings.Join(short, ", ") + "}"
		for _, f := range comp {
			switch f {
			case a.vmRun:
				key = "recursive component: interpreter (script function calls)"
			case a.parseExpr:
				key = "recursive component: parser (nested expressions and statements)"
			case a.compile:
				key = "recursive component: compiler (walk of the syntax tree)"
			case a.lexNext:
				key = "recursive component: lexer"
			}
			switch p.FnName(f) {
			case "object.(*Array).Inspect":
				key = "recursive component: printing of nested arrays and hashes (Inspect)"
			case "object.(*Array).ToInterface":
				key = "recursive component: conversion of nested arrays for sprintf (ToInterface)"
			case "object.(*Array).JSON":
				key = "recursive component: JSON of nested arrays and hashes"
			case "vm.(*VM).primitiveToObject":
				key = "recursive component: conversion of nested host maps (reflection)"
			case "ast.(*InfixExpression).String":
				key = "recursive component: printing of the syntax tree (String)"
			}
		}
		if !reachable {
			r.Info(key, p.Pos(comp[0].Pos()), "not reachable from Prepare/Execute/Run/Dump")
			continue
		}
		if ok, why := hasDepthGuard(p, comp); ok {
			r.OkNT(key, p.Pos(comp[0].Pos()), "depth guard: "+why)
			continue
		}
		if ok, why := hasDepthParam(p, comp); ok {
			r.OkNT(key, p.Pos(comp[0].Pos()), "depth guard: "+why)
			continue
		}
		if ok, why := hasOnPathSet(p, comp); ok {
			r.OkNT(key, p.Pos(comp[0].Pos()), "cycle guard: "+why)
			continue
		}
		if why, ok := recursionBoundedBy[key]; ok {
			r.OkNT(key, p.Pos(comp[0].Pos()), "depth bounded by a guarded structure: "+why)
			continue
		}
		if structuralTreeWalk(comp) {
			r.OkNT(key, p.Pos(comp[0].Pos()), "structural recursion over a syntax tree: every recursive call descends into a field of the node it was given, so the depth is at most the depth of the tree, which only the parser builds (its own unguarded recursion is reported separately; these frames are smaller than the parser's)")
			continue
		}
		if lastOnPathNote != "" && strings.Contains(key, "reflection") {
			r.Fail(key, p.Pos(comp[0].Pos()), lastOnPathNote+" (fatal for the host process; members: "+strings.Join(names, ", ")+")")
			lastOnPathNote = ""
			continue
		}
		r.Fail(key, p.Pos(comp[0].Pos()), "this recursive component is reachable from the API and has no depth guard: input that nests deeply enough overflows the Go stack, which is fatal for the host process and cannot be recovered (members: "+strings.Join(names, ", ")+")")
	}
	deepeningLoops(p, r, reach)
}

// deepeningLoops: the walks of the syntax tree (compiler, printer, the search
// for nested ternaries) are bounded "by the depth of the tree, which only the
// parser builds" — and the parser does not build depth by recursion alone: a
// loop that wraps what it has so far into a new node on every cycle
// (`left = infix(left)`: "a + b + c" is "(a + b) + c") makes a tree as deep as
// the chain is long without a single nested call.  Every such loop has to
// count its cycles against the limit the recursion counts against.
func deepeningLoops(p *Program, r *Reporter, reach map[*ssa.Function]bool) {
	cg := p.CallGraph()
	isTree := func(t types.Type) bool {
		if isASTish(t) {
			return true
		}
		if it, ok := t.Underlying().(*types.Interface); ok && it.NumMethods() > 0 {
			if n, ok := types.Unalias(t).(*types.Named); ok && n.Obj().Pkg() != nil && n.Obj().Pkg().Path() == Mod+"/ast" {
				return true
			}
		}
		return false
	}
	// derives: v is (a wrapper around) the value w
	var derives func(v, w ssa.Value, depth int) bool
	derives = func(v, w ssa.Value, depth int) bool {
		if v == w {
			return true
		}
		if depth > 6 {
			return false
		}
		switch x := v.(type) {
		case *ssa.MakeInterface:
			return derives(x.X, w, depth+1)
		case *ssa.ChangeInterface:
			return derives(x.X, w, depth+1)
		case *ssa.ChangeType:
			return derives(x.X, w, depth+1)
		case *ssa.TypeAssert:
			return derives(x.X, w, depth+1)
		case *ssa.Extract:
			return derives(x.Tuple, w, depth+1)
		}
		return false
	}
	// counterInc: the instruction adds one to a field
	counterInc := func(ins ssa.Instruction) string {
		st, ok := ins.(*ssa.Store)
		if !ok {
			return ""
		}
		bo, ok := st.Val.(*ssa.BinOp)
		if !ok || bo.Op != token.ADD {
			return ""
		}
		if n, ok := constInt(bo.Y); !ok || n != 1 {
			return ""
		}
		if ld, ok := bo.X.(*ssa.UnOp); !ok || fieldKey(ld.X) != fieldKey(st.Addr) {
			return ""
		}
		return fieldKey(st.Addr)
	}
	// guardedIncIn: among the given blocks, a block that increments a counter
	// and then compares it with a constant, one side of the comparison leaving
	// (returning) without going on
	guardedInc := func(f *ssa.Function, inLoop func(b *ssa.BasicBlock) bool) (blk *ssa.BasicBlock, counter string) {
		for _, b := range f.Blocks {
			if !inLoop(b) {
				continue
			}
			// the count and the test made by a helper whose boolean result says
			// whether the limit was passed: `if !p.descend() { return nil }`
			if iff, ok := terminator(b).(*ssa.If); ok && len(b.Succs) == 2 {
				cond, neg := iff.Cond, false
				if u, ok := cond.(*ssa.UnOp); ok && u.Op == token.NOT {
					cond, neg = u.X, true
				}
				if cl, ok := cond.(*ssa.Call); ok && cl.Call.StaticCallee() != nil {
					if passWhen, ok := depthGuardHelper(cl.Call.StaticCallee()); ok {
						refused := 1 // successor taken when the helper refuses
						if passWhen == neg {
							refused = 0
						}
						if _, isRet := terminator(b.Succs[refused]).(*ssa.Return); isRet {
							// the counter the helper counts in
							ck := ""
							for _, hb := range cl.Call.StaticCallee().Blocks {
								for _, hi := range hb.Instrs {
									if k := counterInc(hi); k != "" {
										ck = k
									}
								}
							}
							if ck != "" {
								return b, ck
							}
						}
					}
				}
			}
			for _, ins := range b.Instrs {
				ck := counterInc(ins)
				if ck == "" {
					continue
				}
				// the test: in this block or a block it dominates (within the loop)
				for _, tb := range f.Blocks {
					if !(tb == b || b.Dominates(tb)) {
						continue
					}
					iff, ok := terminator(tb).(*ssa.If)
					if !ok {
						continue
					}
					bo, ok := iff.Cond.(*ssa.BinOp)
					if !ok || (bo.Op != token.GTR && bo.Op != token.GEQ && bo.Op != token.LSS && bo.Op != token.LEQ) {
						continue
					}
					names := func(v ssa.Value) bool {
						for _, o := range origins(v) {
							if u, ok := o.(*ssa.UnOp); ok && fieldKey(u.X) == ck {
								return true
							}
							if b2, ok := o.(*ssa.BinOp); ok {
								if u, ok := b2.X.(*ssa.UnOp); ok && fieldKey(u.X) == ck {
									return true
								}
							}
						}
						return false
					}
					_, cy := bo.Y.(*ssa.Const)
					_, cx := bo.X.(*ssa.Const)
					if !(cy && names(bo.X) || cx && names(bo.Y)) {
						continue
					}
					for _, sc := range tb.Succs {
						if _, isRet := terminator(sc).(*ssa.Return); isRet {
							return b, ck
						}
					}
				}
			}
		}
		return nil, ""
	}
	var fns []*ssa.Function
	for f := range reach {
		if fnPkg(f) != nil && fnPkg(f).Pkg.Path() == Mod+"/parser" {
			fns = append(fns, f)
		}
	}
	sort.Slice(fns, func(i, j int) bool { return p.FnName(fns[i]) < p.FnName(fns[j]) })
	found := 0
	for _, f := range fns {
		nth := 0
		for _, hb := range f.Blocks {
			// a loop header: has a predecessor it dominates
			var latches []*ssa.BasicBlock
			for _, pd := range hb.Preds {
				if hb.Dominates(pd) {
					latches = append(latches, pd)
				}
			}
			if len(latches) == 0 {
				continue
			}
			// the natural loop
			loop := map[*ssa.BasicBlock]bool{hb: true}
			var work []*ssa.BasicBlock
			for _, l := range latches {
				if !loop[l] {
					loop[l] = true
					work = append(work, l)
				}
			}
			for len(work) > 0 {
				b := work[len(work)-1]
				work = work[:len(work)-1]
				for _, pd := range b.Preds {
					if !loop[pd] {
						loop[pd] = true
						work = append(work, pd)
					}
				}
			}
			for _, ins := range hb.Instrs {
				phi, ok := ins.(*ssa.Phi)
				if !ok || !isTree(phi.Type()) {
					continue
				}
				// the value that comes round: wraps the φ?
				var wrapCall ssa.CallInstruction
				var wrapLit *ssa.Alloc
				for i, e := range phi.Edges {
					if !loop[hb.Preds[i]] {
						continue
					}
					for _, o := range origins(e) {
						for {
							if mi, ok := o.(*ssa.MakeInterface); ok {
								o = mi.X
								continue
							}
							if ex, ok := o.(*ssa.Extract); ok {
								o = ex.Tuple
								continue
							}
							break
						}
						switch x := o.(type) {
						case *ssa.Call:
							for _, a := range x.Call.Args {
								if derives(a, phi, 0) {
									wrapCall = x
								}
							}
						case *ssa.Alloc:
							if !isASTish(x.Type()) {
								continue
							}
							for _, ref := range *x.Referrers() {
								if fa, ok := ref.(*ssa.FieldAddr); ok {
									for _, r2 := range *fa.Referrers() {
										if st, ok := r2.(*ssa.Store); ok && st.Addr == ssa.Value(fa) && derives(st.Val, phi, 0) {
											wrapLit = x
										}
									}
								}
							}
						}
					}
				}
				if wrapCall == nil && wrapLit == nil {
					continue
				}
				found++
				nth++
				key := fmt.Sprintf("%s/tree-deepening loop %d counts its cycles against a limit", p.FnName(f), nth)
				var wrapBlock *ssa.BasicBlock
				var wrapPos token.Pos
				if wrapCall != nil {
					wrapBlock, wrapPos = wrapCall.Block(), wrapCall.Pos()
				} else {
					wrapBlock, wrapPos = wrapLit.Block(), wrapLit.Pos()
				}
				ib, ck := guardedInc(f, func(b *ssa.BasicBlock) bool { return loop[b] })
				if ib != nil && (ib == wrapBlock || ib.Dominates(wrapBlock)) {
					// nothing in the loop gives the count back
					undone := token.NoPos
					for b := range loop {
						for _, in2 := range b.Instrs {
							if st, ok := in2.(*ssa.Store); ok && fieldKey(st.Addr) == ck && counterInc(in2) == "" {
								undone = st.Pos()
							}
						}
					}
					if undone.IsValid() {
						r.Fail(key, p.Pos(undone), "the loop counts a level for every node it wraps around the tree built so far, and gives it back inside the same loop: the count never grows with the chain, so the limit is never reached")
					} else {
						r.OkNT(key, p.Pos(wrapPos), "every cycle that wraps the tree adds one to "+ck+" and tests it against the limit first")
					}
					continue
				}
				// or: every function the wrapping call can reach counts for itself
				if wrapCall != nil {
					var callees []*ssa.Function
					if cal := wrapCall.Common().StaticCallee(); cal != nil {
						callees = []*ssa.Function{cal}
					} else if n := cg.Nodes[f]; n != nil {
						for _, e := range n.Out {
							if e.Site == wrapCall {
								callees = append(callees, e.Callee.Func)
							}
						}
					}
					sort.Slice(callees, func(i, j int) bool { return p.FnName(callees[i]) < p.FnName(callees[j]) })
					var unguarded []string
					for _, cal := range callees {
						if len(cal.Blocks) == 0 {
							continue
						}
						// a bound method value (p.parseX stored in a table): the method itself
						for hop := 0; hop < 3 && cal.Synthetic != ""; hop++ {
							var inner *ssa.Function
							for _, b := range cal.Blocks {
								for _, in2 := range b.Instrs {
									if cc := callOf(in2); cc != nil && cc.StaticCallee() != nil {
										inner = cc.StaticCallee()
									}
								}
							}
							if inner == nil || len(inner.Blocks) == 0 {
								break
							}
							cal = inner
						}
						cb, cck := guardedInc(cal, func(b *ssa.BasicBlock) bool { return true })
						ok := cb != nil
						if ok {
							// before anything is built: the increment dominates every return
							// that is not the refusal itself, and nothing in the callee
							// gives the level back (the loop is to accumulate them)
							for _, b := range cal.Blocks {
								for _, in2 := range b.Instrs {
									if st, isSt := in2.(*ssa.Store); isSt && fieldKey(st.Addr) == cck && counterInc(in2) == "" {
										ok = false
									}
									if df, isDf := in2.(*ssa.Defer); isDf {
										_ = df
										ok = false
									}
								}
								if _, isRet := terminator(b).(*ssa.Return); isRet && !(cb == b || cb.Dominates(b)) {
									ok = false
								}
							}
						}
						if !ok {
							unguarded = append(unguarded, p.FnName(cal))
						}
					}
					if len(callees) > 0 && len(unguarded) == 0 {
						r.OkNT(key, p.Pos(wrapPos), fmt.Sprintf("each of the %d function(s) the wrapping call can reach adds a level and tests the limit before it builds its node", len(callees)))
						continue
					}
					if len(unguarded) > 4 {
						unguarded = append(unguarded[:4], fmt.Sprintf("… (%d)", len(unguarded)))
					}
					r.Fail(key, p.Pos(wrapPos), "this loop wraps the tree it has built so far into a new node on every cycle and nothing counts the cycles against the nesting limit (not the loop, and not every function the call can reach: "+strings.Join(unguarded, ", ")+"): a chain of a few million operators — index or call operators included — gives a tree that deep, and the recursive walks over it (the compiler first) overflow the Go stack, which kills the host process")
					continue
				}
				r.Fail(key, p.Pos(wrapPos), "this loop wraps the tree it has built so far into a new node on every cycle and nothing counts the cycles against the nesting limit: the recursive walks over the tree (the compiler first) overflow the Go stack on a long enough chain, which kills the host process")
			}
		}
	}
	if found == 0 {
		r.Info("tree-deepening loops in the parser", "-", "none found")
	}
}

// structuralTreeWalk: every function of the component takes a syntax node
// (parameter or receiver of a type of package ast) and every call back into
// the component passes a field — or an element of a field — of that node.
func structuralTreeWalk(comp []*ssa.Function) bool {
	same := map[*ssa.Function][]*ssa.Function{}
	in := map[*ssa.Function]bool{}
	for _, f := range comp {
		in[f] = true
	}
	// a member that is handed no node but a piece of work — it calls a
	// parameter of function type and otherwise nothing of the component
	// (`withFreshBuffer(func() error { … })`): it passes on whatever the
	// function literals of the component do, without descending itself
	carrier := map[*ssa.Function]bool{}
	for _, f := range comp {
		if f.Parent() != nil {
			continue
		}
		hasNode, hasFuncParam, callsIn := false, false, false
		for _, pr := range f.Params {
			if isASTish(pr.Type()) || isASTList(pr.Type()) {
				hasNode = true
			}
			if _, ok := pr.Type().Underlying().(*types.Signature); ok {
				hasFuncParam = true
			}
		}
		for _, b := range f.Blocks {
			for _, ins := range b.Instrs {
				if cc := callOf(ins); cc != nil && cc.StaticCallee() != nil && in[cc.StaticCallee()] {
					callsIn = true
				}
			}
		}
		if !hasNode && hasFuncParam && !callsIn {
			carrier[f] = true
			for _, g := range comp {
				if g.Parent() != nil {
					same[f] = append(same[f], g)
				}
			}
		}
	}
	for _, f := range comp {
		if carrier[f] {
			continue
		}
		// the node parameters: the parameters of an ast type (a part of the
		// walk may be handed several pieces of one node); for a function
		// literal, the nodes it captured — each bound, where the literal is
		// made, to a part of the node of the function that makes it
		var nodes []ssa.Value
		if f.Parent() != nil {
			if !in[f.Parent()] {
				return false
			}
			var parentNodes []ssa.Value
			for _, pr := range f.Parent().Params {
				if isASTish(pr.Type()) || isASTList(pr.Type()) {
					parentNodes = append(parentNodes, pr)
				}
			}
			for i, fv := range f.FreeVars {
				if !(isASTish(fv.Type()) || isASTList(fv.Type()) || isASTish(deref(fv.Type()))) {
					continue
				}
				bound := false
				for _, pb := range f.Parent().Blocks {
					for _, ins := range pb.Instrs {
						mc, ok := ins.(*ssa.MakeClosure)
						if !ok || mc.Fn != ssa.Value(f) || i >= len(mc.Bindings) {
							continue
						}
						okPart := false
						for _, nd := range parentNodes {
							if directPart(mc.Bindings[i], nd, 0) == "" {
								okPart = true
							}
						}
						if !okPart {
							return false
						}
						bound = true
					}
				}
				if !bound {
					return false
				}
				nodes = append(nodes, fv)
			}
			// the function that makes the literal hands it on without descending
			same[f.Parent()] = append(same[f.Parent()], f)
		} else {
			for _, pr := range f.Params {
				if isASTish(pr.Type()) || isASTList(pr.Type()) {
					nodes = append(nodes, pr)
				}
			}
		}
		if len(nodes) == 0 {
			return false
		}
		// part: the argument is a chain of selections from one of the node
		// parameters; strict when it selects at least once
		part := func(arg ssa.Value) (ok, strict bool) {
			for _, nd := range nodes {
				if directPart(arg, nd, 0) == "" {
					return true, strictPart(arg, nd, 0)
				}
			}
			return false, false
		}
		for _, b := range f.Blocks {
			for _, ins := range b.Instrs {
				cc := callOf(ins)
				if cc == nil {
					continue
				}
				if cal := cc.StaticCallee(); cal != nil && carrier[cal] {
					same[f] = append(same[f], cal)
					continue
				}
				var callee *ssa.Function
				var args []ssa.Value
				if cal := cc.StaticCallee(); cal != nil {
					callee = cal
					// the callee's node parameters
					for i, pr := range cal.Params {
						if (isASTish(pr.Type()) || isASTList(pr.Type())) && i < len(cc.Args) {
							args = append(args, cc.Args[i])
						}
					}
				} else if cc.IsInvoke() {
					// a method of the node interface invoked on a child: may re-enter the component
					re := false
					for g := range in {
						if g.Name() == cc.Method.Name() {
							re = true
						}
					}
					if !re {
						continue
					}
					args = []ssa.Value{cc.Value}
					callee = f // treat as a call into the component
				}
				if callee == nil || !in[callee] {
					continue
				}
				if len(args) == 0 {
					return false
				}
				allStrict := true
				for _, arg := range args {
					ok, strict := part(arg)
					if !ok {
						return false
					}
					if !strict {
						allStrict = false
					}
				}
				// the node handed on as it is (to a function that deals with
				// this kind of node) is no descent: remember the edge
				if !allStrict {
					same[f] = append(same[f], callee)
				}
			}
		}
	}
	// a cycle of calls that never descends would not be bounded by the tree
	color := map[*ssa.Function]int{}
	cyc := false
	var dfs func(x *ssa.Function)
	dfs = func(x *ssa.Function) {
		color[x] = 1
		for _, c := range same[x] {
			switch color[c] {
			case 0:
				dfs(c)
			case 1:
				cyc = true
			}
		}
		color[x] = 2
	}
	for _, f := range comp {
		if color[f] == 0 {
			dfs(f)
		}
	}
	return !cyc
}

// recursionBoundedBy: components whose depth is bounded by a structure whose
// construction is itself depth-guarded, keyed by the first function name.
var recursionBoundedBy = map[string]string{
	"recursive component: printing of the syntax tree (String)": "depth is at most the depth of the syntax tree, which only the parser builds; the parser's own unguarded recursion is reported separately, and with its smaller frames this component did not overflow first on any input tried (1M and 2M nested prefix operators: the run is quadratic in time, not fatal)",
}

// ---------------------------------------------------------------------------
// R-IDENTITY

func isObjectish(t types.Type) bool {
	return isObjectIface(t) || (isPointer(t) && objectStructName(t) != "")
}

func ruleIdentity(p *Program, r *Reporter) {
	n := 0
	for _, fn := range p.LibFns {
		for _, bo := range identityCmps(fn, isObjectish) {
			n++
			r.Fail(siteKey(p, fn, bo.Pos(), "compares objects by identity"), p.Pos(bo.Pos()), "two object values are compared with "+bo.Op.String()+" (pointer identity): a boolean/null/number produced by reflection, a built-in or a host function is a different object from the VM's singleton or from an equal value, so the comparison answers 'same allocation', not 'same value'")
		}
	}
	// positive example: the rule must be able to see such a comparison
	if !identitySelfTest() {
		r.Undecided("self-test", "-", "the identity-comparison matcher did not fire on its built-in positive example")
	} else {
		r.OkNT("identity comparisons in the library", "-", fmt.Sprintf("%d found; matcher verified on a built-in positive example", n))
	}
}

// ---------------------------------------------------------------------------
// R-LOGICDISPATCH

func ruleLogicDispatch(p *Program, r *Reporter) {
	a := needAnchors(p, r)
	if a == nil {
		return
	}
	bv := binopView(p, a)
	fd, info, opObj := bv.fd, bv.info, bv.opObj
	var sw *ast.SwitchStmt
	ast.Inspect(fd.Body, func(n ast.Node) bool {
		if s, ok := n.(*ast.SwitchStmt); ok && s.Tag == nil && sw == nil {
			sw = s
		}
		return true
	})
	if sw == nil {
		r.Undecided("dispatcher shape", p.Pos(fd.Pos()), "no tagless switch in the binary-operation dispatcher")
		return
	}
	tables := map[types.Object]*tableFn{}
	for _, t := range a.optTables {
		if ex := extractTable(p, t); ex != nil {
			tables[t.Object()] = ex
		}
	}
	type clause struct {
		opConst string   // decides on op == X alone
		table   *tableFn // decides on types and calls this table
		tname   string
		pos     token.Pos
		other   bool
	}
	var cls []clause
	for _, cc := range sw.Body.List {
		cl := cc.(*ast.CaseClause)
		if len(cl.List) != 1 {
			cls = append(cls, clause{other: true, pos: cl.Pos()})
			continue
		}
		c := clause{pos: cl.Pos()}
		cond := ast.Unparen(cl.List[0])
		mentionsOp := false
		ast.Inspect(cond, func(n ast.Node) bool {
			if id, ok := n.(*ast.Ident); ok && info.Uses[id] == opObj {
				mentionsOp = true
			}
			return true
		})
		if be, ok := cond.(*ast.BinaryExpr); ok && be.Op == token.EQL && mentionsOp {
			if n := opConstName(info, be.Y); n != "" {
				c.opConst = n
			} else if n := opConstName(info, be.X); n != "" {
				c.opConst = n
			}
		}
		if !mentionsOp {
			// which table does the body call?
			for _, st := range cl.Body {
				ast.Inspect(st, func(n ast.Node) bool {
					if ce, ok := n.(*ast.CallExpr); ok {
						if t, ok := tables[calleeObj(info, ce)]; ok {
							c.table, c.tname = t, t.fn.Name()
						}
					}
					return true
				})
			}
			if c.table == nil {
				c.other = true
			}
		}
		cls = append(cls, c)
	}
	for _, want := range []string{"OpAnd", "OpOr"} {
		found := false
		for i, c := range cls {
			if c.opConst != want {
				continue
			}
			found = true
			var blockers []string
			for _, e := range cls[:i] {
				if e.table != nil && e.table.clause[want] == nil {
					blockers = append(blockers, e.tname+"("+e.table.lType+","+e.table.rType+")")
				}
			}
			key := "operator " + want + " reachable for every operand type pair"
			if len(blockers) == 0 {
				r.OkNT(key, p.Pos(c.pos), "no earlier type-only clause pre-empts it")
			} else {
				r.Fail(key, p.Pos(c.pos), "the clause for "+want+" comes after clauses that dispatch on operand types alone to tables without a case for it ("+strings.Join(blockers, ", ")+"): for those operand types the logic operator is an 'unknown operator' run-time error although it must accept operands of any type")
			}
		}
		if !found {
			r.Fail("operator "+want+" reachable for every operand type pair", p.Pos(sw.Pos()), "the dispatcher has no clause deciding on op == "+want)
		}
	}
}

// ---------------------------------------------------------------------------
// R-TRUTHDEF / R-TRUTHSITES / R-RUNEXEC

func ruleTruthDef(p *Program, r *Reporter) {
	want := map[string]string{
		"Boolean": "value", "Integer": "positive", "Float": "positive",
		"String": "nonempty-string", "Regexp": "nonempty-string",
		"Array": "nonempty-len", "Hash": "nonempty-len",
		"Null": "false", "Void": "false",
	}
	seen := map[string]bool{}
	for _, fn := range p.LibFns {
		if fn.Name() != "True" || fn.Signature.Recv() == nil || fn.Parent() != nil {
			continue
		}
		tn := objectStructName(fn.Signature.Recv().Type())
		if tn == "" {
			continue
		}
		seen[tn] = true
		key := "truth of object." + tn
		w := want[tn]
		if w == "" {
			r.Undecided(key, p.Pos(fn.Pos()), "no definition of truth recorded for this object type")
			continue
		}
		if len(fn.Blocks) != 1 {
			r.Undecided(key, p.Pos(fn.Pos()), "True() is not a single expression")
			continue
		}
		ret, ok := terminator(fn.Blocks[0]).(*ssa.Return)
		if !ok || len(ret.Results) != 1 {
			r.Undecided(key, p.Pos(fn.Pos()), "True() has an unexpected shape")
			continue
		}
		got := classifyTruth(ret.Results[0], fn)
		if got == w {
			r.OkNT(key, p.Pos(fn.Pos()), got)
		} else {
			r.Fail(key, p.Pos(fn.Pos()), fmt.Sprintf("True() of %s is %q; the language defines %q (true, positive numbers and non-empty strings/arrays/hashes/regexps are truthy; false, null, zero, negative numbers and empty containers are not)", tn, got, w))
		}
	}
	for tn := range want {
		if !seen[tn] {
			r.Fail("truth of object."+tn, "-", "object type has no True() method in the library")
		}
	}
}

// classifyTruth normalises the returned expression.
func classifyTruth(v ssa.Value, fn *ssa.Function) string {
	recvField := func(x ssa.Value) string {
		if u, ok := x.(*ssa.UnOp); ok && u.Op == token.MUL {
			if fa, ok := u.X.(*ssa.FieldAddr); ok && fa.X == fn.Params[0] {
				_, f, _ := fieldOf(fa)
				return f
			}
		}
		return ""
	}
	zero := func(x ssa.Value) bool {
		c, ok := x.(*ssa.Const)
		if !ok || c.Value == nil {
			return false
		}
		switch c.Value.Kind() {
		case constant.Int, constant.Float:
			return constant.Sign(c.Value) == 0
		case constant.String:
			return constant.StringVal(c.Value) == ""
		}
		return false
	}
	one := func(x ssa.Value) bool { n, ok := constInt(x); return ok && n == 1 }
	switch x := v.(type) {
	case *ssa.Const:
		if x.Value != nil && x.Value.Kind() == constant.Bool {
			if constant.BoolVal(x.Value) {
				return "true"
			}
			return "false"
		}
	case *ssa.UnOp:
		if f := recvField(x); f == "Value" {
			return "value"
		}
	case *ssa.BinOp:
		// number > 0
		if recvField(x.X) == "Value" && zero(x.Y) {
			switch x.Op {
			case token.GTR:
				if isNumeric(x.X.Type()) {
					return "positive"
				}
			case token.NEQ:
				if isStringType(x.X.Type()) {
					return "nonempty-string"
				}
				return "nonzero"
			case token.GEQ:
				return "non-negative"
			}
		}
		if zero(x.X) && recvField(x.Y) == "Value" && x.Op == token.LSS && isNumeric(x.Y.Type()) {
			return "positive"
		}
		// len(field) != 0 / > 0 / >= 1
		if lc, ok := isBuiltinCall(x.X, "len"); ok {
			f := recvField(lc.Call.Args[0])
			if f != "" {
				if (zero(x.Y) && (x.Op == token.NEQ || x.Op == token.GTR)) || (one(x.Y) && x.Op == token.GEQ) {
					if f == "Value" {
						return "nonempty-string"
					}
					return "nonempty-len"
				}
			}
		}
	}
	return "unrecognised(" + v.String() + ")"
}

func isNumeric(t types.Type) bool {
	b, ok := t.Underlying().(*types.Basic)
	return ok && b.Info()&types.IsNumeric != 0
}

func isStringType(t types.Type) bool {
	b, ok := t.Underlying().(*types.Basic)
	return ok && b.Kind() == types.String
}

func ruleTruthSites(p *Program, r *Reporter) {
	a := needAnchors(p, r)
	if a == nil {
		return
	}
	// (1) the conditional jump handler calls True() on the popped value
	sw := dispatchSwitch(p, a.vmRun)
	info := p.Info(a.vmRun)
	if sw == nil {
		r.Undecided("dispatch switch", "-", "not found")
		return
	}
	for _, cc := range sw.Body.List {
		cl := cc.(*ast.CaseClause)
		for _, e := range cl.List {
			if opConstName(info, e) != "OpJumpIfFalse" {
				continue
			}
			callsTrue := false
			for _, st := range cl.Body {
				ast.Inspect(st, func(n ast.Node) bool {
					if ce, ok := n.(*ast.CallExpr); ok {
						if f, ok := calleeObj(info, ce).(*types.Func); ok && f.Name() == "True" {
							callsTrue = true
						}
					}
					return true
				})
			}
			r.Check(callsTrue, "conditional jump decides through True()", p.Pos(cl.Pos()), "", "the conditional jump does not ask the popped value for True(): if/while/ternary would use another notion of truth")
		}
	}
	// (2) the logic clauses of the dispatcher call True() on both operands
	nTrue := 0
	for _, b := range binopView(p, a).fn.Blocks {
		for _, ins := range b.Instrs {
			if c, ok := ins.(*ssa.Call); ok && c.Call.IsInvoke() && c.Call.Method.Name() == "True" {
				nTrue++
			}
		}
	}
	r.Check(nTrue >= 4, "logic operators decide through True()", p.Pos(a.binop.Pos()), fmt.Sprintf("%d True() calls in the dispatcher", nTrue), "the && / || clauses do not call True() on their operands (found "+fmt.Sprint(nTrue)+" calls, need left and right for each operator)")
	// (3) direct reads of Boolean.Value in package vm: only on results of the
	// match built-in (dynamic call through the function table) or in
	// conversion/negation of a type-switched boolean
	for _, fn := range p.LibFns {
		if fnPkg(fn).Pkg.Path() != Mod+"/vm" {
			continue
		}
		for _, b := range fn.Blocks {
			for _, ins := range b.Instrs {
				fa, ok := ins.(*ssa.FieldAddr)
				if !ok || objectStructName(fa.X.Type()) != "Boolean" {
					continue
				}
				if _, isAlloc := fa.X.(*ssa.Alloc); isAlloc {
					continue
				}
				// loads only
				isLoad := false
				for _, ref := range liveRefs(fa) {
					if u, ok := ref.(*ssa.UnOp); ok && u.Op == token.MUL {
						isLoad = true
					}
				}
				if !isLoad {
					continue
				}
				key := siteKey(p, fn, fa.Pos(), "reads Boolean.Value directly")
				okSrc := false
				why := ""
				for _, o := range outerOrigins(fa.X) {
					if c, ok := o.(*ssa.Call); ok && c.Call.StaticCallee() == nil && !c.Call.IsInvoke() {
						okSrc, why = true, "result of the match built-in called through the function table"
					}
					if _, ok := o.(*ssa.Parameter); ok {
						okSrc, why = true, "type-switched operand (negation / conversion)"
					}
					if e, ok := o.(*ssa.Extract); ok {
						if _, isPop := e.Tuple.(*ssa.Call); isPop {
							okSrc, why = true, "type-switched operand (negation)"
						}
					}
				}
				if okSrc {
					r.Ok(key, p.Pos(fa.Pos()), why)
				} else {
					r.Undecided(key, p.Pos(fa.Pos()), "a boolean's Value is read directly from an unrecognised source; truth must go through True()")
				}
			}
		}
	}
}

func ruleRunExec(p *Program, r *Reporter) {
	a := needAnchors(p, r)
	if a == nil {
		return
	}
	var exCall *ssa.Call
	for _, c := range callsTo(a.run, a.execute) {
		exCall, _ = c.(*ssa.Call)
	}
	if exCall == nil {
		r.Undecided("Run calls Execute", p.Pos(a.run.Pos()), "no direct call")
		return
	}
	// argument: Run's own parameter
	argOK := false
	for _, o := range origins(exCall.Call.Args[1]) {
		if prm, ok := o.(*ssa.Parameter); ok && prm == a.run.Params[1] {
			argOK = true
		}
	}
	r.Check(argOK, "Run passes its own object to Execute", p.Pos(exCall.Pos()), "", "Run does not pass its argument to Execute unchanged")
	good, n := true, 0
	why := ""
	for _, b := range a.run.Blocks {
		ret, ok := terminator(b).(*ssa.Return)
		if !ok || len(ret.Results) != 2 {
			continue
		}
		n++
		if isSuccessReturn(ret) {
			// bool = True() invoked on Execute's first result
			ok2 := false
			if c, ok := ret.Results[0].(*ssa.Call); ok && c.Call.IsInvoke() && c.Call.Method.Name() == "True" {
				if ex, ok := c.Call.Value.(*ssa.Extract); ok && ex.Tuple == ssa.Value(exCall) && ex.Index == 0 {
					ok2 = true
				}
			}
			if !ok2 {
				good, why = false, "a successful return of Run is not True() of Execute's object ("+p.Pos(ret.Pos())+")"
			}
		} else {
			ex, ok := ret.Results[1].(*ssa.Extract)
			if !ok || ex.Tuple != ssa.Value(exCall) || ex.Index != 1 {
				good, why = false, "an error return of Run does not hand on Execute's error ("+p.Pos(ret.Pos())+")"
			}
			if c, ok := ret.Results[0].(*ssa.Const); !ok || c.Value == nil || constant.BoolVal(c.Value) {
				good, why = false, "Run reports true together with an error"
			}
		}
	}
	// the error test must be on Execute's error
	r.Check(good && n >= 2, "Run = truth of Execute, same error", p.Pos(a.run.Pos()), fmt.Sprintf("%d returns", n), why)
}

// ---------------------------------------------------------------------------
// R-SCRIPTINDEX

type lin struct {
	term string
	off  int64
}

func hasFieldStore(fn *ssa.Function, fa *ssa.FieldAddr) bool {
	for _, b := range fn.Blocks {
		for _, ins := range b.Instrs {
			if st, ok := ins.(*ssa.Store); ok {
				if fa2, ok := st.Addr.(*ssa.FieldAddr); ok && fa2.Field == fa.Field && types.Identical(fa2.X.Type(), fa.X.Type()) {
					return true
				}
			}
		}
	}
	return false
}

func canon(v ssa.Value, fn *ssa.Function) lin {
	switch v := v.(type) {
	case *ssa.Const:
		if k, ok := constInt(v); ok {
			return lin{"", k}
		}
	case *ssa.Convert:
		if b, ok := v.Type().Underlying().(*types.Basic); ok && b.Info()&types.IsInteger != 0 {
			if sb, ok := v.X.Type().Underlying().(*types.Basic); ok && sb.Info()&types.IsInteger != 0 {
				// a conversion to a narrower integer type (int64 → int where int
				// has 32 bits) keeps only the low bits: what is known about the
				// source says nothing about the result
				if curProgram != nil && len(curProgram.Pkgs) > 0 && curProgram.Pkgs[0].TypesSizes != nil {
					sz := curProgram.Pkgs[0].TypesSizes
					if sz.Sizeof(b) < sz.Sizeof(sb) {
						return lin{v.Name(), 0}
					}
				}
				return canon(v.X, fn)
			}
		}
		if s, ok := v.Type().Underlying().(*types.Slice); ok && types.Identical(s.Elem(), types.Typ[types.Rune]) {
			return lin{"runes(" + canon(v.X, fn).term + ")", 0}
		}
	case *ssa.BinOp:
		l, r := canon(v.X, fn), canon(v.Y, fn)
		if r.term == "" {
			if v.Op == token.SUB {
				return lin{l.term, l.off - r.off}
			}
			if v.Op == token.ADD {
				return lin{l.term, l.off + r.off}
			}
		}
	case *ssa.Call:
		if _, ok := isBuiltinCall(v, "len"); ok {
			return lin{"len(" + canon(v.Call.Args[0], fn).term + ")", 0}
		}
		if c := v.Call.StaticCallee(); c != nil && c.String() == "unicode/utf8.RuneCountInString" {
			return lin{"len(runes(" + canon(v.Call.Args[0], fn).term + "))", 0}
		}
		if c := v.Call.StaticCallee(); c != nil && objectStructName(sigRecvType(c)) == "String" && c.Name() == "Inspect" {
			// (*String).Inspect returns the Value field
			return lin{"strval(" + canon(v.Call.Args[0], fn).term + ")", 0}
		}
	case *ssa.UnOp:
		if v.Op == token.MUL {
			if fa, ok := v.X.(*ssa.FieldAddr); ok && !hasFieldStore(fn, fa) {
				return lin{fmt.Sprintf("fld(%s.%d)", fa.X.Name(), fa.Field), 0}
			}
		}
	}
	return lin{v.Name(), 0}
}

func sigRecvType(f *ssa.Function) types.Type {
	if f.Signature.Recv() == nil {
		return types.Typ[types.Invalid]
	}
	return f.Signature.Recv().Type()
}

// scriptTainted: derives from a load of field Value of an object type.
func scriptTainted(v ssa.Value, depth int) bool {
	if depth > 8 {
		return false
	}
	switch v := v.(type) {
	case *ssa.UnOp:
		if fa, ok := v.X.(*ssa.FieldAddr); ok {
			if objectStructName(fa.X.Type()) != "" {
				if _, f, _ := fieldOf(fa); f == "Value" {
					return true
				}
			}
		}
		return scriptTainted(v.X, depth+1)
	case *ssa.Convert:
		return scriptTainted(v.X, depth+1)
	case *ssa.BinOp:
		return scriptTainted(v.X, depth+1) || scriptTainted(v.Y, depth+1)
	case *ssa.Phi:
		for _, e := range v.Edges {
			if scriptTainted(e, depth+1) {
				return true
			}
		}
	case *ssa.Extract:
		// a number handed back by one of the library's own functions
		if cl, ok := v.Tuple.(*ssa.Call); ok {
			return resultTainted(cl, v.Index, depth)
		}
	case *ssa.Call:
		return resultTainted(v, 0, depth)
	case *ssa.Parameter:
		// a number handed in by the library's own callers
		if taintProgram == nil || v.Parent() == nil || !isNumeric(v.Type()) {
			return false
		}
		k := -1
		for i, q := range v.Parent().Params {
			if q == v {
				k = i
			}
		}
		for _, site := range staticCallSites(taintProgram, v.Parent()) {
			if args := site.Common().Args; k >= 0 && k < len(args) && scriptTainted(args[k], depth+2) {
				return true
			}
		}
	}
	return false
}

var taintProgram *Program

func resultTainted(cl *ssa.Call, idx, depth int) bool {
	c := cl.Call.StaticCallee()
	if c == nil || fnPkg(c) == nil || !IsLibPath(fnPkg(c).Pkg.Path()) || !isNumeric(cl.Type()) && cl.Call.Signature().Results().Len() == 1 {
		return false
	}
	for _, b := range c.Blocks {
		if ret, ok := terminator(b).(*ssa.Return); ok && idx < len(ret.Results) {
			if isNumeric(ret.Results[idx].Type()) && scriptTainted(returnOperand(ret, idx), depth+2) {
				return true
			}
		}
	}
	return false
}

func ruleScriptIndex(p *Program, r *Reporter) {
	taintProgram = p
	for _, fn := range p.LibFns {
		for _, b := range fn.Blocks {
			for _, ins := range b.Instrs {
				var index, base ssa.Value
				switch x := ins.(type) {
				case *ssa.IndexAddr:
					index, base = x.Index, x.X
				case *ssa.Index:
					index, base = x.Index, x.X
				default:
					continue
				}
				if !scriptTainted(index, 0) {
					continue
				}
				type edgeT struct {
					from, to string
					w        int64
				}
				var facts []edgeT
				addLE := func(a, c lin, strict bool) {
					w := c.off - a.off
					if strict {
						w--
					}
					facts = append(facts, edgeT{a.term, c.term, w})
				}
				for cur := b; cur.Idom() != nil; cur = cur.Idom() {
					d := cur.Idom()
					iff, ok := terminator(d).(*ssa.If)
					if !ok || d.Succs[0] == d.Succs[1] {
						continue
					}
					var branch, known bool
					t, f := d.Succs[0], d.Succs[1]
					domT := (t == b || t.Dominates(b)) && len(t.Preds) == 1
					domF := (f == b || f.Dominates(b)) && len(f.Preds) == 1
					if domT && !domF {
						branch, known = true, true
					} else if domF && !domT {
						branch, known = false, true
					}
					bo, ok := iff.Cond.(*ssa.BinOp)
					if !ok || !known {
						continue
					}
					x, y := canon(bo.X, fn), canon(bo.Y, fn)
					op := bo.Op
					if !branch {
						switch op {
						case token.LSS:
							op = token.GEQ
						case token.LEQ:
							op = token.GTR
						case token.GTR:
							op = token.LEQ
						case token.GEQ:
							op = token.LSS
						default:
							op = token.ILLEGAL
						}
					}
					switch op {
					case token.LSS:
						addLE(x, y, true)
					case token.LEQ:
						addLE(x, y, false)
					case token.GTR:
						addLE(y, x, true)
					case token.GEQ:
						addLE(y, x, false)
					}
				}
				idx := canon(index, fn)
				bs := canon(base, fn)
				if u, ok := base.(*ssa.UnOp); ok && u.Op == token.MUL {
					// IndexAddr on a slice held in a field
					bs = canon(u, fn)
				}
				ln := "len(" + bs.term + ")"
				relax := func(src string) map[string]int64 {
					dist := map[string]int64{src: 0}
					for i := 0; i < len(facts)+1; i++ {
						for _, e := range facts {
							if d, ok := dist[e.from]; ok {
								if nd, ok2 := dist[e.to]; !ok2 || d+e.w < nd {
									dist[e.to] = d + e.w
								}
							}
						}
					}
					return dist
				}
				upper, lower := false, false
				if d, ok := relax(idx.term)[ln]; ok && idx.off+d <= -1 {
					upper = true
				}
				if d, ok := relax("")[idx.term]; ok && -d+idx.off >= 0 {
					lower = true
				}
				key := siteKey(p, fn, ins.Pos(), "script-controlled index into "+typeStr(base.Type()))
				if upper && lower {
					r.OkNT(key, p.Pos(ins.Pos()), fmt.Sprintf("0 <= %s%+d < %s follows from %d dominating comparison(s)", idx.term, idx.off, ln, len(facts)))
				} else {
					r.Fail(key, p.Pos(ins.Pos()), fmt.Sprintf("the index comes from a script value and the dominating comparisons do not prove it within bounds (lower bound proven: %v, upper bound proven: %v; %d comparison(s) considered): an out-of-range index yields a run-time panic/error instead of null", lower, upper, len(facts)))
				}
			}
		}
	}
}

// ---------------------------------------------------------------------------
// R-POLL / R-CTXFLOW

func rulePoll(p *Program, r *Reporter) {
	a := needAnchors(p, r)
	if a == nil {
		return
	}
	run := a.vmRun
	findSel := func(f *ssa.Function) *ssa.Select {
		var found *ssa.Select
		for _, b := range f.Blocks {
			for _, ins := range b.Instrs {
				if s, ok := ins.(*ssa.Select); ok && !s.Blocking {
					for _, st := range s.States {
						if c, ok := st.Chan.(*ssa.Call); ok && c.Call.IsInvoke() && c.Call.Method.Name() == "Done" {
							found = s
						}
					}
				}
			}
		}
		return found
	}
	// readyOf: the block a function goes to when the select found the context done
	readyOf := func(s *ssa.Select) *ssa.BasicBlock {
		for _, ref := range liveRefs(s) {
			ex, ok := ref.(*ssa.Extract)
			if !ok || ex.Index != 0 {
				continue
			}
			for _, r2 := range liveRefs(ex) {
				bo, ok := r2.(*ssa.BinOp)
				if !ok || bo.Op != token.EQL {
					continue
				}
				if n, ok := constInt(bo.Y); !ok || n != 0 {
					continue
				}
				for _, r3 := range liveRefs(bo) {
					if iff, ok := r3.(*ssa.If); ok {
						return iff.Block().Succs[0]
					}
				}
			}
		}
		return nil
	}
	sel := findSel(run)
	// the instruction of the interpreter at which the context is polled: the
	// select itself, or the call of a function of the machine that holds it and
	// whose result says whether the context was done (`if vm.expired() {…}`,
	// `if err := vm.checkContext(); err != nil {…}`)
	var pollIns ssa.Instruction
	var helperReady *ssa.BasicBlock // in the interpreter: where it goes when the helper said "done"
	if sel != nil {
		pollIns = sel
	} else {
		for _, b := range run.Blocks {
			for _, ins := range b.Instrs {
				c, ok := ins.(*ssa.Call)
				if !ok || c.Call.StaticCallee() == nil || fnPkg(c.Call.StaticCallee()) == nil || fnPkg(c.Call.StaticCallee()).Pkg.Path() != Mod+"/vm" {
					continue
				}
				h := c.Call.StaticCallee()
				hs := findSel(h)
				if hs == nil || h.Signature.Results().Len() != 1 {
					continue
				}
				rb := readyOf(hs)
				if rb == nil {
					continue
				}
				// what the helper returns on the ready side and elsewhere
				isBool := isBoolType(h.Signature.Results().At(0).Type())
				isErr := isErrorType(h.Signature.Results().At(0).Type())
				if !isBool && !isErr {
					continue
				}
				good := true
				for _, hb := range h.Blocks {
					ret, ok := terminator(hb).(*ssa.Return)
					if !ok {
						continue
					}
					onReady := hb == rb || rb.Dominates(hb)
					v := returnOperand(ret, 0)
					switch {
					case isBool:
						k, ok := v.(*ssa.Const)
						if !ok || k.Value == nil || k.Value.Kind() != constant.Bool || constant.BoolVal(k.Value) != onReady {
							good = false
						}
					case isErr:
						if isNilConst(v) == onReady {
							good = false
						}
					}
				}
				if !good {
					continue
				}
				// the branch on the helper's result
				for _, ref := range liveRefs(c) {
					switch x := ref.(type) {
					case *ssa.If:
						if isBool {
							helperReady = x.Block().Succs[0]
						}
					case *ssa.UnOp:
						if x.Op == token.NOT && isBool {
							for _, r2 := range liveRefs(x) {
								if iff, ok := r2.(*ssa.If); ok {
									helperReady = iff.Block().Succs[1]
								}
							}
						}
					case *ssa.BinOp:
						if isErr && (x.Op == token.NEQ || x.Op == token.EQL) && (isNilConst(x.X) || isNilConst(x.Y)) {
							for _, r2 := range liveRefs(x) {
								if iff, ok := r2.(*ssa.If); ok {
									if x.Op == token.NEQ {
										helperReady = iff.Block().Succs[0]
									} else {
										helperReady = iff.Block().Succs[1]
									}
								}
							}
						}
					}
				}
				if helperReady != nil {
					sel, pollIns = hs, c
				}
			}
		}
	}
	if sel == nil || pollIns == nil {
		r.Fail("non-blocking poll of the context", p.Pos(run.Pos()), "the interpreter has no non-blocking select on the context's Done channel: a deadline or cancellation cannot stop a running script")
		return
	}
	// the Done() receiver is VM.context
	ctxOK := false
	for _, st := range sel.States {
		if c, ok := st.Chan.(*ssa.Call); ok {
			if u, ok := c.Call.Value.(*ssa.UnOp); ok && fieldKey(u.X) == "vm.VM.context" {
				ctxOK = true
			}
		}
	}
	r.Check(ctxOK, "the poll reads the VM's context", p.Pos(sel.Pos()), "select on VM.context.Done()", "the polled channel is not the Done channel of the VM's context field")
	dp := dispatchPoint(run)
	if dp == nil {
		r.Undecided("dispatch point", "-", "not found")
		return
	}
	r.Check(dominatesInstr(pollIns, dp), "the poll precedes every instruction", p.Pos(sel.Pos()), "poll block dominates the opcode read", "the context is not polled before an instruction is dispatched")
	// every back edge into the dispatch loop's header passes the poll
	header := dp.Block()
	for header != nil {
		isHeader := false
		for _, pr := range header.Preds {
			if header.Dominates(pr) {
				isHeader = true
			}
		}
		if isHeader && header.Dominates(pollIns.Block()) {
			break
		}
		header = header.Idom()
	}
	if header == nil {
		r.Undecided("dispatch loop", "-", "cannot find the loop header dominating the poll")
		return
	}
	nBack := 0
	allPolled := true
	for _, b := range run.Blocks {
		for _, s := range b.Succs {
			if s == header && header.Dominates(b) {
				nBack++
				if !(pollIns.Block() == b || pollIns.Block().Dominates(b)) {
					allPolled = false
				}
			}
		}
	}
	r.Check(allPolled && nBack > 0, "the poll is on every cycle of the dispatch loop", p.Pos(sel.Pos()), fmt.Sprintf("%d back edge(s), each dominated by the poll", nBack), "some path around the dispatch loop (for example a `continue`) bypasses the context poll: a script spinning on that path cannot be stopped")
	// the ready edge returns a non-nil error
	readyOK := false
	var readyBlock *ssa.BasicBlock
	if helperReady != nil {
		readyBlock = helperReady
	} else {
		readyBlock = readyOf(sel)
	}
	if readyBlock != nil {
		if ret, ok := terminator(readyBlock).(*ssa.Return); ok && !isSuccessReturn(ret) {
			readyOK = true
		}
	}
	r.Check(readyOK, "an expired context ends the run with an error", p.Pos(sel.Pos()), "ready branch returns a non-nil error", "when the context is done the interpreter does not return a non-nil error")
	// ... and promptly: between noticing that the context is done and the
	// return, nothing is done whose cost depends on the script's values
	// (printing the stack, say: the printed form of a value can be exponential
	// in the size of the script that built it)
	if readyBlock != nil {
		var slow string
		var slowPos token.Pos
		var boundedFn func(f *ssa.Function, depth int) bool
		var cheap func(ins ssa.Instruction, depth int) bool
		basicArg := func(v ssa.Value) bool {
			for {
				if mi, ok := v.(*ssa.MakeInterface); ok {
					v = mi.X
					continue
				}
				break
			}
			if c, ok := v.(*ssa.Const); ok && c.IsNil() {
				return true
			}
			_, isBasic := v.Type().Underlying().(*types.Basic)
			return isBasic
		}
		cheap = func(ins ssa.Instruction, depth int) bool {
			cc := callOf(ins)
			if cc == nil {
				return true
			}
			if _, isBuiltin := cc.Value.(*ssa.Builtin); isBuiltin {
				return true
			}
			if cc.IsInvoke() {
				return isStdNamed(cc.Value.Type(), "context", "Context") || isErrorType(cc.Value.Type())
			}
			cal := cc.StaticCallee()
			if cal == nil {
				return false
			}
			if fnPkg(cal) != nil && IsLibPath(fnPkg(cal).Pkg.Path()) {
				return boundedFn(cal, depth+1)
			}
			pkgPath := ""
			if cal.Pkg != nil {
				pkgPath = cal.Pkg.Pkg.Path()
			}
			switch pkgPath {
			case "fmt", "errors", "strings", "strconv":
				for _, a := range cc.Args {
					if els, known := varargsOf(a); known && a.Type().Underlying() != nil {
						if _, isSlice := a.Type().Underlying().(*types.Slice); isSlice {
							for _, e := range els {
								if e != nil && !basicArg(e) {
									return false
								}
							}
							continue
						}
					}
					if !basicArg(a) {
						return false
					}
				}
				return true
			}
			return false
		}
		bounded := map[*ssa.Function]int{}
		boundedFn = func(f *ssa.Function, depth int) bool {
			if v, ok := bounded[f]; ok {
				return v == 1 // a function met again while it is examined is recursive: 0
			}
			if depth > 4 || len(f.Blocks) == 0 {
				return false
			}
			bounded[f] = 0
			for _, b := range f.Blocks {
				for _, sc := range b.Succs {
					if sc.Dominates(b) {
						return false // a loop
					}
				}
				for _, ins := range b.Instrs {
					if !cheap(ins, depth) {
						return false
					}
				}
			}
			bounded[f] = 1
			return true
		}
		seenB := map[*ssa.BasicBlock]bool{}
		var walk func(b *ssa.BasicBlock)
		walk = func(b *ssa.BasicBlock) {
			if seenB[b] || slow != "" {
				return
			}
			seenB[b] = true
			for _, ins := range b.Instrs {
				if !cheap(ins, 0) {
					slow = strings.TrimPrefix(callKey(p, run, ins.(ssa.CallInstruction)), "call ")
					slowPos = ins.Pos()
					return
				}
			}
			if _, ok := terminator(b).(*ssa.Return); ok {
				return
			}
			for _, sc := range b.Succs {
				if sc != header {
					walk(sc)
				}
			}
		}
		walk(readyBlock)
		if slow != "" {
			r.Fail("an expired context ends the run promptly", p.Pos(slowPos), "once the context is done the interpreter still calls "+slow+" before it returns: that is not known to take bounded time (it loops, recurses, or formats a value whose printed form the script controls), so the run can outlast its deadline by as long as the script likes")
		} else {
			r.OkNT("an expired context ends the run promptly", p.Pos(sel.Pos()), "the ready branch only builds an error from constants and numbers before it returns")
		}
	}
	// inner loops
	for _, b := range run.Blocks {
		isHeader := false
		for _, pr := range b.Preds {
			if b.Dominates(pr) && b != header {
				isHeader = true
			}
		}
		if !isHeader {
			continue
		}
		bound := loopBound(b, run)
		key := "inner loop " + outerCase(p, run, firstPos(b)) + " is bounded"
		switch bound {
		case "operand", "len", "range-over-container":
			r.OkNT(key, p.Pos(firstPos(b)), "bounded by "+bound)
		case "range-constructor":
			r.OkNT(key, p.Pos(firstPos(b)), "the range constructor: bounded by the script's range size (the property's stated exclusion: a single instruction may run long)")
		default:
			r.Undecided(key, p.Pos(firstPos(b)), "cannot see what bounds this loop inside the interpreter; an unbounded loop inside one instruction is not interrupted by the poll")
		}
	}
	// loops in everything the interpreter calls: one instruction must not hide a
	// loop whose trip count is a number supplied by the script
	reach := p.Reachable(run)
	var rfns []*ssa.Function
	for fn := range reach {
		if fn == run || fnPkg(fn) == nil || !IsLibPath(fnPkg(fn).Pkg.Path()) {
			continue
		}
		rfns = append(rfns, fn)
	}
	sort.Slice(rfns, func(i, j int) bool { return p.FnName(rfns[i]) < p.FnName(rfns[j]) })
	for _, fn := range rfns {
		nth := 0
		for _, b := range fn.Blocks {
			isHeader := false
			for _, pr := range b.Preds {
				if b.Dominates(pr) {
					isHeader = true
				}
			}
			if !isHeader {
				continue
			}
			nth++
			key := fmt.Sprintf("%s/loop %d is bounded by data that already exists", p.FnName(fn), nth)
			switch bound := loopBound(b, fn); bound {
			case "len", "range-over-container", "operand":
				r.Ok(key, p.Pos(firstPos(b)), "bounded by "+bound)
			case "range-constructor":
				r.Fail(key, p.Pos(firstPos(b)), "the number of iterations of this loop is a number taken from a script value (an Integer's or Float's Value), and the loop runs inside a single instruction: the context is polled between instructions only, so `3 ** N` with N = 9e15 from the object spins for years and no deadline or cancellation stops it")
			default:
				if why := loopListed(p, fn, b); why != "" {
					r.OkNT(key, p.Pos(firstPos(b)), why)
				} else {
					r.Undecided(key, p.Pos(firstPos(b)), "cannot see what bounds this loop, which runs inside a single instruction of the interpreter; an unbounded loop there is not interrupted by the poll")
				}
			}
		}
	}
	// re-entry only through the interpreter itself: no other function
	// dispatches on opcodes and executes handlers (the walker only reads)
	for _, fn := range p.LibFns {
		if fn == run || fnPkg(fn).Pkg.Path() != Mod+"/vm" {
			continue
		}
		if dispatchPoint(fn) == nil {
			continue
		}
		// a second decoder: fine if it is the walker/optimizer (never pushes to the stack)
		pushes := false
		for _, b := range fn.Blocks {
			for _, ins := range b.Instrs {
				if c, ok := ins.(*ssa.Call); ok && c.Call.StaticCallee() != nil && c.Call.StaticCallee().Name() == "Push" {
					pushes = true
				}
			}
		}
		r.Check(!pushes, p.FnName(fn)+" decodes but does not execute", p.Pos(fn.Pos()), "no stack effects", "a second function decodes opcodes and executes them outside the polled loop")
	}
}

// loopListed: loops reachable from the interpreter whose bound is not one of
// the recognised forms, each with the reason it terminates promptly.
func loopListed(p *Program, fn *ssa.Function, h *ssa.BasicBlock) string {
	return ""
}

func firstPos(b *ssa.BasicBlock) token.Pos {
	for _, ins := range b.Instrs {
		if ins.Pos().IsValid() {
			return ins.Pos()
		}
	}
	for _, s := range b.Succs {
		for _, ins := range s.Instrs {
			if ins.Pos().IsValid() {
				return ins.Pos()
			}
		}
	}
	return token.NoPos
}

// loopBound classifies the exit condition of the loop headed by h.
func loopBound(h *ssa.BasicBlock, fn *ssa.Function) string {
	// range over slice/map/string: header compares index < len or uses Next
	for _, blk := range []*ssa.BasicBlock{h} {
		iff, ok := terminator(blk).(*ssa.If)
		if !ok {
			// range over map/string: `next` in body
			for _, ins := range blk.Instrs {
				if _, ok := ins.(*ssa.Next); ok {
					return "range-over-container"
				}
			}
			continue
		}
		if ex, ok := iff.Cond.(*ssa.Extract); ok {
			if _, ok := ex.Tuple.(*ssa.Next); ok {
				return "range-over-container"
			}
		}
		bo, ok := iff.Cond.(*ssa.BinOp)
		if !ok {
			continue
		}
		derivesMode := func(v ssa.Value, pred func(ssa.Value) bool, allSites bool) bool {
			seen := map[ssa.Value]bool{}
			var w func(v ssa.Value, d int) bool
			w = func(v ssa.Value, d int) bool {
				if v == nil || seen[v] || d > 10 {
					return false
				}
				seen[v] = true
				if pred(v) {
					return true
				}
				switch x := v.(type) {
				case *ssa.Parameter:
					// a number handed in: what the callers pass (every one of
					// them for a bound that is to be trusted, any one for a
					// bound that is to be reported)
					if curProgram == nil || x.Parent() == nil {
						return false
					}
					k := -1
					for i, q := range x.Parent().Params {
						if q == x {
							k = i
						}
					}
					sites := staticCallSites(curProgram, x.Parent())
					if len(sites) == 0 || k < 0 {
						return false
					}
					n := 0
					for _, site := range sites {
						if args := site.Common().Args; k < len(args) && w(args[k], d+1) {
							n++
						}
					}
					if allSites {
						return n == len(sites)
					}
					return n > 0
				case *ssa.Phi:
					for _, e := range x.Edges {
						if w(e, d+1) {
							return true
						}
					}
				case *ssa.BinOp:
					return w(x.X, d+1) || w(x.Y, d+1)
				case *ssa.Convert:
					return w(x.X, d+1)
				case *ssa.UnOp:
					return w(x.X, d+1)
				}
				return false
			}
			return w(v, 0)
		}
		derives := func(v ssa.Value, pred func(ssa.Value) bool) bool {
			return derivesMode(v, pred, true)
		}
		isUint16 := func(v ssa.Value) bool {
			// the operand as a function that decodes the instruction hands it back
			if ex, ok := v.(*ssa.Extract); ok {
				if c, ok := ex.Tuple.(*ssa.Call); ok {
					if d, ok := decoderOf(c.Call.StaticCallee()); ok && ex.Index == d.argIdx {
						return true
					}
				}
			}
			if c, ok := v.(*ssa.Call); ok {
				if cal := c.Call.StaticCallee(); cal != nil && cal.Name() == "Uint16" {
					return true
				}
				if c.Call.IsInvoke() && c.Call.Method.Name() == "Uint16" {
					return true
				}
			}
			return false
		}
		isLen := func(v ssa.Value) bool {
			if _, ok := isBuiltinCall(v, "len"); ok {
				return true
			}
			// the size of an existing host value, through reflection
			if c, ok := v.(*ssa.Call); ok {
				name := ""
				if c.Call.IsInvoke() {
					name = c.Call.Method.Name()
				} else if cal := c.Call.StaticCallee(); cal != nil && cal.Pkg != nil && cal.Pkg.Pkg.Path() == "reflect" {
					name = cal.Name()
				}
				return name == "Len" || name == "NumField" || name == "NumMethod"
			}
			return false
		}
		isValueField := func(v ssa.Value) bool {
			if u, ok := v.(*ssa.UnOp); ok {
				if fa, ok := u.X.(*ssa.FieldAddr); ok && objectStructName(fa.X.Type()) != "" {
					return true
				}
			}
			return false
		}
		for _, side := range []ssa.Value{bo.X, bo.Y} {
			if derives(side, isLen) {
				return "len"
			}
		}
		for _, side := range []ssa.Value{bo.X, bo.Y} {
			if derivesMode(side, isValueField, false) {
				return "range-constructor"
			}
		}
		for _, side := range []ssa.Value{bo.X, bo.Y} {
			if derives(side, isUint16) {
				return "operand"
			}
		}
	}
	return ""
}

func ruleCtxFlow(p *Program, r *Reporter) {
	a := needAnchors(p, r)
	if a == nil {
		return
	}
	// writers of Eval.context and VM.context
	writers := map[string][]string{}
	for _, fn := range p.LibFns {
		for _, b := range fn.Blocks {
			for _, ins := range b.Instrs {
				if st, ok := ins.(*ssa.Store); ok {
					k := fieldKey(st.Addr)
					if k == "evalfilter.Eval.context" || k == "vm.VM.context" {
						writers[k] = append(writers[k], p.FnName(fn))
					}
				}
			}
		}
	}
	chk := func(field string, allowed map[string]bool, what string) {
		var extra []string
		for _, w := range writers[field] {
			if !allowed[w] {
				extra = append(extra, w)
			}
		}
		sort.Strings(extra)
		r.Check(len(extra) == 0 && len(writers[field]) > 0, "writers of "+field, "-", fmt.Sprintf("%v", writers[field]), what+" is also written by "+strings.Join(extra, ", ")+": the context the host supplied can be replaced behind its back")
	}
	chk("evalfilter.Eval.context", map[string]bool{"evalfilter.New": true, "evalfilter.(*Eval).SetContext": true}, "Eval.context")
	chk("vm.VM.context", map[string]bool{"vm.(*VM).SetContext": true}, "VM.context")
	// Prepare: on every success path SetContext(e.context) is applied to the
	// machine built by vm.New
	vmSet := methodOf(p, "vm", "VM", "SetContext")
	// the machine is built, and the context handed over, in Prepare itself or
	// in functions Prepare calls: a function that builds the machine and can
	// return without handing the context over leaves that to its caller
	isSet := func(ins ssa.Instruction) bool {
		c, ok := staticCalleeIs(ins, vmSet)
		if !ok {
			return false
		}
		u, ok := c.Common().Args[1].(*ssa.UnOp)
		return ok && fieldKey(u.X) == "evalfilter.Eval.context"
	}
	nSet, nNew := 0, 0
	var leaks func(fn *ssa.Function, depth int) (builds bool, leak bool)
	var alwaysSets func(fn *ssa.Function, depth int) bool
	alwaysSets = func(fn *ssa.Function, depth int) bool {
		if fn == nil || depth > 2 || len(fn.Blocks) == 0 || fnPkg(fn) == nil || fnPkg(fn).Pkg.Path() != Mod {
			return false
		}
		// every path from the entry to a return passes a set
		okAll := true
		seen := map[*ssa.BasicBlock]bool{}
		var walk func(b *ssa.BasicBlock)
		walk = func(b *ssa.BasicBlock) {
			for _, ins := range b.Instrs {
				if isSet(ins) {
					return
				}
				if cc := callOf(ins); cc != nil && cc.StaticCallee() != nil && alwaysSets(cc.StaticCallee(), depth+1) {
					return
				}
				if _, ok := ins.(*ssa.Return); ok {
					okAll = false
					return
				}
			}
			for _, sc := range b.Succs {
				if !seen[sc] {
					seen[sc] = true
					walk(sc)
				}
			}
		}
		walk(fn.Blocks[0])
		return okAll
	}
	leaks = func(fn *ssa.Function, depth int) (bool, bool) {
		builds, leak := false, false
		for _, b := range fn.Blocks {
			for i, ins := range b.Instrs {
				isNew := false
				if _, ok := staticCalleeIs(ins, a.vmNew); ok {
					isNew = true
					nNew++
				} else if cc := callOf(ins); cc != nil && cc.StaticCallee() != nil && depth < 2 && fnPkg(cc.StaticCallee()) != nil && fnPkg(cc.StaticCallee()).Pkg.Path() == Mod && cc.StaticCallee() != fn {
					if bl, lk := leaks(cc.StaticCallee(), depth+1); bl {
						builds = true
						isNew = lk
					}
				}
				if !isNew {
					continue
				}
				builds = true
				// every (successful) return reachable from here passes a set
				seen := map[*ssa.BasicBlock]bool{}
				var walk func(b *ssa.BasicBlock, i int)
				walk = func(b *ssa.BasicBlock, i int) {
					for ; i < len(b.Instrs); i++ {
						if isSet(b.Instrs[i]) {
							return
						}
						if cc := callOf(b.Instrs[i]); cc != nil && cc.StaticCallee() != nil && alwaysSets(cc.StaticCallee(), 0) {
							return
						}
						if ret, ok := b.Instrs[i].(*ssa.Return); ok {
							if isSuccessReturn(ret) {
								leak = true
							}
							return
						}
					}
					for _, sc := range b.Succs {
						if !seen[sc] {
							seen[sc] = true
							walk(sc, 0)
						}
					}
				}
				walk(b, i+1)
			}
		}
		return builds, leak
	}
	builds, leak := leaks(a.prepare, 0)
	if !builds || nNew == 0 {
		r.Undecided("Prepare builds the machine", p.Pos(a.prepare.Pos()), "no call of vm.New in Prepare")
		return
	}
	for _, fn := range append([]*ssa.Function{a.prepare}, staticCalleesWithin(p, a.prepare, 2)...) {
		for _, b := range fn.Blocks {
			for _, ins := range b.Instrs {
				if isSet(ins) {
					nSet++
				}
			}
		}
	}
	good := !leak
	setCalls := make([]int, nSet)
	r.Check(good && len(setCalls) > 0, "Prepare hands the evaluator's context to the machine", p.Pos(a.prepare.Pos()), "SetContext(e.context) follows vm.New on every successful path", "Prepare can succeed without giving the machine the context set with SetContext: the deadline is silently ignored")
	// the machine the context is given to is the one stored in Eval.machine
	// and the one Execute runs
	r.Check(len(callsTo(a.execute, a.vmEntry)) == 1, "Execute runs the prepared machine", p.Pos(a.execute.Pos()), "", "Execute does not run the machine exactly once")
	// every context the evaluator installs in the machine is the host's, or is
	// derived from the host's and taken back on every exit
	isHostCtx := func(v ssa.Value, fn *ssa.Function) bool {
		if u, ok := v.(*ssa.UnOp); ok && fieldKey(u.X) == "evalfilter.Eval.context" {
			return true
		}
		if prm, ok := v.(*ssa.Parameter); ok {
			for _, ref := range *prm.Referrers() {
				if st, ok := ref.(*ssa.Store); ok && st.Val == v && fieldKey(st.Addr) == "evalfilter.Eval.context" {
					return true
				}
			}
		}
		return false
	}
	var derivedFromHost func(v ssa.Value, fn *ssa.Function, d int) bool
	derivedFromHost = func(v ssa.Value, fn *ssa.Function, d int) bool {
		if d > 4 {
			return false
		}
		if isHostCtx(v, fn) {
			return true
		}
		if ex, ok := v.(*ssa.Extract); ok {
			v = ex.Tuple
		}
		if c, ok := v.(*ssa.Call); ok && c.Call.StaticCallee() != nil && fnPkg(c.Call.StaticCallee()) != nil && fnPkg(c.Call.StaticCallee()).Pkg.Path() == "context" && strings.HasPrefix(c.Call.StaticCallee().Name(), "With") && len(c.Call.Args) > 0 {
			return derivedFromHost(c.Call.Args[0], fn, d+1)
		}
		return false
	}
	for _, fn := range p.LibFns {
		if fnPkg(fn).Pkg.Path() == Mod+"/vm" {
			continue
		}
		nth := 0
		for _, b := range fn.Blocks {
			for _, ins := range b.Instrs {
				cc := callOf(ins)
				if cc == nil || cc.StaticCallee() != vmSet || len(cc.Args) < 2 {
					continue
				}
				if _, isDefer := ins.(*ssa.Defer); isDefer && isHostCtx(cc.Args[1], fn) {
					continue // the restoring defer itself
				}
				nth++
				key := fmt.Sprintf("%s/context %d given to the machine is the host's", p.FnName(fn), nth)
				arg := cc.Args[1]
				switch {
				case isHostCtx(arg, fn):
					r.OkNT(key, p.Pos(ins.Pos()), "the evaluator's own context")
				case derivedFromHost(arg, fn, 0):
					// temporary: a deferred call must put the host's context back
					restored := false
					for _, b2 := range fn.Blocks {
						for _, i2 := range b2.Instrs {
							if d, ok := i2.(*ssa.Defer); ok && d.Call.StaticCallee() == vmSet && len(d.Call.Args) >= 2 && isHostCtx(d.Call.Args[1], fn) {
								restored = true
							}
						}
					}
					if restored {
						r.OkNT(key, p.Pos(ins.Pos()), "derived from the host's context; a deferred call puts the host's back")
					} else {
						r.Fail(key, p.Pos(ins.Pos()), "a context derived for this run is installed in the machine and not taken back by a deferred call: when the run ends by a panic (recovered at the API) the machine keeps the run's context — cancelled by then — and every later run fails with a time-out nobody asked for")
					}
				default:
					r.Fail(key, p.Pos(ins.Pos()), "the machine is given a context that is not the host's and is not derived from it: while it is installed the host's deadline and cancellation are not seen by the interpreter loop")
				}
			}
		}
	}
}

// counterResetIn: some function of the component stores into the counter
// field something other than one more, one less, or a value loaded from it.
func counterResetIn(comp []*ssa.Function, k string) bool {
	for _, f := range comp {
		for _, b := range f.Blocks {
			for _, ins := range b.Instrs {
				st, ok := ins.(*ssa.Store)
				if !ok || fieldKey(st.Addr) != k {
					continue
				}
				fine := false
				if bo, ok := st.Val.(*ssa.BinOp); ok && (bo.Op == token.ADD || bo.Op == token.SUB) {
					if n, ok := constInt(bo.Y); ok && n == 1 {
						fine = true
					}
					// several levels given back at once (`depth -= levels`, the levels
					// counted as they were entered): the counter less something that
					// is not the counter
					if bo.Op == token.SUB && !fine {
						if ld, ok := bo.X.(*ssa.UnOp); ok && ld.Op == token.MUL && fieldKey(ld.X) == k {
							usesCounter := false
							for _, o := range origins(bo.Y) {
								if u, ok := o.(*ssa.UnOp); ok && u.Op == token.MUL && fieldKey(u.X) == k {
									usesCounter = true
								}
							}
							fine = !usesCounter
						}
					}
				}
				if !fine {
					fine = savedCounterValue(st.Val, k, 0, map[ssa.Value]bool{})
				}
				if !fine {
					return true
				}
			}
		}
	}
	return false
}

// savedCounterValue: v is a value the counter had before — loaded from the
// field, possibly kept in a local variable in between (also one that a
// deferred function literal captured).
func savedCounterValue(v ssa.Value, k string, depth int, seen map[ssa.Value]bool) bool {
	if v == nil || depth > 6 || seen[v] {
		return false
	}
	seen[v] = true
	fromCell := func(cell ssa.Value) bool {
		al, ok := cell.(*ssa.Alloc)
		if !ok || al.Referrers() == nil {
			return false
		}
		n := 0
		for _, ref := range *al.Referrers() {
			if st, ok := ref.(*ssa.Store); ok && st.Addr == ssa.Value(al) {
				n++
				if !savedCounterValue(st.Val, k, depth+1, seen) {
					return false
				}
			}
		}
		return n > 0
	}
	switch x := v.(type) {
	case *ssa.UnOp:
		if x.Op != token.MUL {
			return false
		}
		if fieldKey(x.X) == k {
			return true
		}
		if _, ok := x.X.(*ssa.Alloc); ok {
			return fromCell(x.X)
		}
		if fv, ok := x.X.(*ssa.FreeVar); ok {
			fn := fv.Parent()
			idx := -1
			for i, q := range fn.FreeVars {
				if q == fv {
					idx = i
				}
			}
			if idx < 0 || fn.Parent() == nil {
				return false
			}
			n := 0
			for _, b := range fn.Parent().Blocks {
				for _, ins := range b.Instrs {
					if mc, ok := ins.(*ssa.MakeClosure); ok && mc.Fn == ssa.Value(fn) && idx < len(mc.Bindings) {
						n++
						if !fromCell(mc.Bindings[idx]) {
							return false
						}
					}
				}
			}
			return n > 0
		}
	case *ssa.FreeVar:
		// captured by value
		fn := x.Parent()
		idx := -1
		for i, q := range fn.FreeVars {
			if q == x {
				idx = i
			}
		}
		if idx < 0 || fn.Parent() == nil {
			return false
		}
		n := 0
		for _, b := range fn.Parent().Blocks {
			for _, ins := range b.Instrs {
				if mc, ok := ins.(*ssa.MakeClosure); ok && mc.Fn == ssa.Value(fn) && idx < len(mc.Bindings) {
					n++
					if !savedCounterValue(mc.Bindings[idx], k, depth+1, seen) {
						return false
					}
				}
			}
		}
		return n > 0
	case *ssa.Phi:
		for _, e := range x.Edges {
			if !savedCounterValue(e, k, depth+1, seen) {
				return false
			}
		}
		return len(x.Edges) > 0
	}
	return false
}

// helperCounter: the field a depth-guard helper increments.
func helperCounter(h *ssa.Function) string {
	for _, b := range h.Blocks {
		for _, ins := range b.Instrs {
			if st, ok := ins.(*ssa.Store); ok {
				if bo, ok := st.Val.(*ssa.BinOp); ok && bo.Op == token.ADD {
					if n, ok := constInt(bo.Y); ok && n == 1 && fieldKey(st.Addr) != "" {
						return fieldKey(st.Addr)
					}
				}
			}
		}
	}
	return ""
}

// depthGuardHelper: h increments a counter field by one, compares it with a
// constant, and its boolean result tells which side of that test was taken:
// every return on the side where the counter is within the limit is the
// constant passWhen, every other return is the opposite constant.
func depthGuardHelper(h *ssa.Function) (passWhen bool, ok bool) {
	return depthGuardHelperKind(h, false)
}

// depthGuardHelperErr: the same with an error for a result: nil on the side
// where the counter is within the limit, an error on the other.
func depthGuardHelperErr(h *ssa.Function) bool {
	pw, ok := depthGuardHelperKind(h, true)
	return ok && pw
}

func depthGuardHelperKind(h *ssa.Function, wantErr bool) (passWhen bool, ok bool) {
	rs := h.Signature.Results()
	if rs.Len() != 1 || len(h.Blocks) == 0 {
		return false, false
	}
	if wantErr {
		if !isErrorType(rs.At(0).Type()) {
			return false, false
		}
	} else if b, isB := rs.At(0).Type().Underlying().(*types.Basic); !isB || b.Kind() != types.Bool {
		return false, false
	}
	for _, b := range h.Blocks {
		iff, isIf := terminator(b).(*ssa.If)
		if !isIf {
			continue
		}
		bo, isBo := iff.Cond.(*ssa.BinOp)
		if !isBo {
			continue
		}
		// which successor is "within the limit"
		within := -1
		var counter ssa.Value
		_, cy := bo.Y.(*ssa.Const)
		_, cx := bo.X.(*ssa.Const)
		switch {
		case cy && (bo.Op == token.GTR || bo.Op == token.GEQ):
			within, counter = 1, bo.X
		case cy && (bo.Op == token.LSS || bo.Op == token.LEQ):
			within, counter = 0, bo.X
		case cx && (bo.Op == token.GTR || bo.Op == token.GEQ):
			within, counter = 0, bo.Y
		case cx && (bo.Op == token.LSS || bo.Op == token.LEQ):
			within, counter = 1, bo.Y
		default:
			continue
		}
		// the counter: a field that a store of (field + 1) before the test wrote
		key := ""
		for _, o := range origins(counter) {
			if u, isU := o.(*ssa.UnOp); isU && u.Op == token.MUL && fieldKey(u.X) != "" {
				key = fieldKey(u.X)
			}
			if bo2, isB2 := o.(*ssa.BinOp); isB2 && bo2.Op == token.ADD {
				if u, isU := bo2.X.(*ssa.UnOp); isU && fieldKey(u.X) != "" {
					key = fieldKey(u.X)
				}
			}
		}
		if key == "" {
			continue
		}
		inc := false
		for _, b2 := range h.Blocks {
			for _, ins := range b2.Instrs {
				if st, isSt := ins.(*ssa.Store); isSt && fieldKey(st.Addr) == key && (b2 == b || b2.Dominates(b)) {
					if bo3, isB3 := st.Val.(*ssa.BinOp); isB3 && bo3.Op == token.ADD {
						if n, isC := constInt(bo3.Y); isC && n == 1 {
							inc = true
						}
					}
				}
			}
		}
		if !inc || len(b.Succs[within].Preds) != 1 {
			continue
		}
		wb := b.Succs[within]
		// returns: constants, one value inside, the other outside
		var inside, outside []bool
		for _, rb := range h.Blocks {
			ret, isRet := terminator(rb).(*ssa.Return)
			if !isRet {
				continue
			}
			var val bool
			if wantErr {
				// nil is "go on" (true), anything made on the spot is a refusal
				switch x := returnOperand(ret, 0).(type) {
				case *ssa.Const:
					if !x.IsNil() {
						return false, false
					}
					val = true
				case *ssa.Call, *ssa.MakeInterface:
					val = false
				default:
					return false, false
				}
			} else {
				c, isC := returnOperand(ret, 0).(*ssa.Const)
				if !isC || c.Value == nil || c.Value.Kind() != constant.Bool {
					return false, false
				}
				val = constant.BoolVal(c.Value)
			}
			if rb == wb || wb.Dominates(rb) {
				inside = append(inside, val)
			} else {
				outside = append(outside, val)
			}
		}
		if len(inside) == 0 || len(outside) == 0 {
			continue
		}
		pw := inside[0]
		for _, v := range inside {
			if v != pw {
				return false, false
			}
		}
		for _, v := range outside {
			if v == pw {
				return false, false
			}
		}
		return pw, true
	}
	return false, false
}

// onPathHelper: h tests whether a key is in a set held in a field, returns
// false (as its last result) without inserting when it is, and otherwise
// inserts it and returns true.  The set's field.
func onPathHelper(h *ssa.Function) (string, bool) {
	if h == nil || len(h.Blocks) == 0 {
		return "", false
	}
	rs := h.Signature.Results()
	if rs.Len() == 0 || !isBoolType(rs.At(rs.Len()-1).Type()) {
		return "", false
	}
	var insert *ssa.MapUpdate
	setField := ""
	for _, b := range h.Blocks {
		for _, ins := range b.Instrs {
			if mu, ok := ins.(*ssa.MapUpdate); ok {
				if ld, ok := mu.Map.(*ssa.UnOp); ok {
					if k := fieldKey(ld.X); k != "" {
						if c, ok := mu.Value.(*ssa.Const); ok && c.Value != nil && c.Value.Kind() == constant.Bool && constant.BoolVal(c.Value) {
							if insert != nil {
								return "", false
							}
							setField, insert = k, mu
						}
					}
				}
			}
		}
	}
	if insert == nil {
		return "", false
	}
	// the lookup of the same key in the same set, before the insert
	tested := false
	for _, b := range h.Blocks {
		for _, ins := range b.Instrs {
			lk, ok := ins.(*ssa.Lookup)
			if !ok || !sameKeyValue(lk.Index, insert.Key) || !dominatesInstr(lk, insert) {
				continue
			}
			if ld, ok := lk.X.(*ssa.UnOp); !ok || fieldKey(ld.X) != setField {
				continue
			}
			for _, ref := range *lk.Referrers() {
				if iff, ok := ref.(*ssa.If); ok {
					found := iff.Block().Succs[0]
					if found != insert.Block() && !found.Dominates(insert.Block()) {
						tested = true
					}
				}
			}
		}
	}
	if !tested {
		return "", false
	}
	// the last result is true exactly on the returns behind the insert
	for _, b := range h.Blocks {
		ret, ok := terminator(b).(*ssa.Return)
		if !ok {
			continue
		}
		c, ok := returnOperand(ret, rs.Len()-1).(*ssa.Const)
		if !ok || c.Value == nil || c.Value.Kind() != constant.Bool {
			return "", false
		}
		behind := insert.Block() == b || insert.Block().Dominates(b)
		if constant.BoolVal(c.Value) != behind {
			return "", false
		}
	}
	return setField, true
}

// onPathViaHelper: f calls such a helper, returns without recursing when it
// says the value is already on the path, defers the removal from the same set,
// and recurses only behind the call.
func onPathViaHelper(f *ssa.Function, in map[*ssa.Function]bool) bool {
	for _, b := range f.Blocks {
		for _, ins := range b.Instrs {
			cl, ok := ins.(*ssa.Call)
			if !ok {
				continue
			}
			setField, ok := onPathHelper(cl.Call.StaticCallee())
			if !ok {
				continue
			}
			last := cl.Call.Signature().Results().Len() - 1
			var flag ssa.Value = cl
			if last > 0 {
				flag = nil
				for _, ref := range *cl.Referrers() {
					if ex, ok := ref.(*ssa.Extract); ok && ex.Index == last {
						flag = ex
					}
				}
			}
			if flag == nil {
				continue
			}
			tested := false
			for _, ref := range *flag.Referrers() {
				iff, ok := ref.(*ssa.If)
				if !ok {
					continue
				}
				stop := iff.Block().Succs[1] // the flag is false: already on the path
				if _, isRet := terminator(stop).(*ssa.Return); !isRet {
					continue
				}
				rec := false
				for _, i2 := range stop.Instrs {
					if cc := callOf(i2); cc != nil && cc.StaticCallee() != nil && in[cc.StaticCallee()] {
						rec = true
					}
				}
				if !rec {
					tested = true
				}
			}
			removed := false
			for _, b2 := range f.Blocks {
				for _, i2 := range b2.Instrs {
					if d, ok := i2.(*ssa.Defer); ok {
						if bi, ok := d.Call.Value.(*ssa.Builtin); ok && bi.Name() == "delete" {
							if ld, ok := d.Call.Args[0].(*ssa.UnOp); ok && fieldKey(ld.X) == setField {
								removed = true
							}
						}
					}
				}
			}
			if !removed && defersUndoHandedBack(f, setField) {
				removed = true
			}
			dominates := true
			for _, b2 := range f.Blocks {
				for _, i2 := range b2.Instrs {
					if cc := callOf(i2); cc != nil && cc.StaticCallee() != nil && in[cc.StaticCallee()] && !dominatesInstr(cl, i2) {
						dominates = false
					}
				}
			}
			if tested && removed && dominates {
				return true
			}
		}
	}
	return false
}

// sameKeyValue: the same SSA value, or two loads of one local that is
// written once.
func sameKeyValue(x, y ssa.Value) bool {
	if x == y {
		return true
	}
	lx, ok1 := x.(*ssa.UnOp)
	ly, ok2 := y.(*ssa.UnOp)
	if !ok1 || !ok2 || lx.Op != token.MUL || ly.Op != token.MUL || lx.X != ly.X {
		return false
	}
	al, ok := lx.X.(*ssa.Alloc)
	if !ok {
		return false
	}
	// only field-wise initialisation before the first load: no store after
	for _, ref := range *al.Referrers() {
		switch r := ref.(type) {
		case *ssa.Store:
			if !dominatesInstr(r, lx) || !dominatesInstr(r, ly) {
				return false
			}
		case *ssa.FieldAddr:
			for _, r2 := range *r.Referrers() {
				if st, ok := r2.(*ssa.Store); ok && (!dominatesInstr(st, lx) || !dominatesInstr(st, ly)) {
					return false
				}
			}
		}
	}
	return true
}

// The path kept as a list instead of a set: a field of slice type with three
// small operations — a scan that says whether a value is in it, an append,
// and dropping the last element.

// listScan: h reports whether its argument equals some element of the slice
// it is applied to (true only behind such a comparison; false otherwise).
func listScan(h *ssa.Function) bool {
	if h == nil || len(h.Blocks) == 0 || len(h.Params) != 2 || h.Signature.Results().Len() != 1 || !isBoolType(h.Signature.Results().At(0).Type()) {
		return false
	}
	if _, isSl := h.Params[0].Type().Underlying().(*types.Slice); !isSl {
		return false
	}
	var eq *ssa.BinOp
	for _, b := range h.Blocks {
		for _, ins := range b.Instrs {
			bo, ok := ins.(*ssa.BinOp)
			if !ok || bo.Op != token.EQL {
				continue
			}
			elem := func(v ssa.Value) bool {
				ld, ok := v.(*ssa.UnOp)
				if !ok {
					return false
				}
				ia, ok := ld.X.(*ssa.IndexAddr)
				return ok && ia.X == ssa.Value(h.Params[0])
			}
			if (elem(bo.X) && bo.Y == ssa.Value(h.Params[1])) || (elem(bo.Y) && bo.X == ssa.Value(h.Params[1])) {
				eq = bo
			}
		}
	}
	if eq == nil {
		return false
	}
	sawTrue := false
	for _, b := range h.Blocks {
		ret, ok := terminator(b).(*ssa.Return)
		if !ok {
			continue
		}
		c, ok := returnOperand(ret, 0).(*ssa.Const)
		if !ok || c.Value == nil || c.Value.Kind() != constant.Bool {
			return false
		}
		if constant.BoolVal(c.Value) {
			sawTrue = true
		}
	}
	return sawTrue
}

// listPush / listPop: h appends its argument to (drops the last element of)
// the slice its receiver points to.
func listPush(h *ssa.Function) bool {
	if h == nil || len(h.Params) != 2 {
		return false
	}
	for _, b := range h.Blocks {
		for _, ins := range b.Instrs {
			st, ok := ins.(*ssa.Store)
			if !ok || st.Addr != ssa.Value(h.Params[0]) {
				continue
			}
			if ap, ok := isBuiltinCall(st.Val, "append"); ok {
				if ld, ok := ap.Call.Args[0].(*ssa.UnOp); ok && ld.X == ssa.Value(h.Params[0]) {
					if vals, known := varargsOf(ap.Call.Args[1]); known && len(vals) == 1 && vals[0] == ssa.Value(h.Params[1]) {
						return true
					}
				}
			}
		}
	}
	return false
}

func listPop(h *ssa.Function) bool {
	if h == nil || len(h.Params) != 1 {
		return false
	}
	for _, b := range h.Blocks {
		for _, ins := range b.Instrs {
			st, ok := ins.(*ssa.Store)
			if !ok || st.Addr != ssa.Value(h.Params[0]) {
				continue
			}
			sl, ok := st.Val.(*ssa.Slice)
			if !ok || sl.Low != nil || sl.High == nil {
				continue
			}
			ld, ok := sl.X.(*ssa.UnOp)
			if !ok || ld.X != ssa.Value(h.Params[0]) {
				continue
			}
			base, k := linear(sl.High)
			if lc, ok := isBuiltinCall(base, "len"); ok && k == -1 {
				if l2, ok := lc.Call.Args[0].(*ssa.UnOp); ok && l2.X == ssa.Value(h.Params[0]) {
					return true
				}
			}
		}
	}
	return false
}

// onPathViaList: f asks the scan whether the value is on the path and returns
// without recursing when it is, pushes it before every call back into the
// component, and defers the pop — all on one field.
func onPathViaList(f *ssa.Function, in map[*ssa.Function]bool) bool {
	var push *ssa.Call
	field := ""
	for _, b := range f.Blocks {
		for _, ins := range b.Instrs {
			c, ok := ins.(*ssa.Call)
			if !ok || !listPush(c.Call.StaticCallee()) {
				continue
			}
			if k := fieldKey(c.Call.Args[0]); k != "" {
				push, field = c, k
			}
		}
	}
	if push == nil {
		return false
	}
	tested := false
	for _, b := range f.Blocks {
		for _, ins := range b.Instrs {
			c, ok := ins.(*ssa.Call)
			if !ok || !listScan(c.Call.StaticCallee()) || !dominatesInstr(c, push) {
				continue
			}
			ld, ok := c.Call.Args[0].(*ssa.UnOp)
			if !ok || fieldKey(ld.X) != field || !sameKeyValue(c.Call.Args[1], push.Call.Args[1]) {
				continue
			}
			for _, ref := range *c.Referrers() {
				iff, ok := ref.(*ssa.If)
				if !ok {
					continue
				}
				stop := iff.Block().Succs[0]
				if _, isRet := terminator(stop).(*ssa.Return); !isRet {
					continue
				}
				rec := false
				for _, i2 := range stop.Instrs {
					if cc := callOf(i2); cc != nil && cc.StaticCallee() != nil && in[cc.StaticCallee()] {
						rec = true
					}
				}
				if !rec {
					tested = true
				}
			}
		}
	}
	removed := false
	for _, b := range f.Blocks {
		for _, ins := range b.Instrs {
			if d, ok := ins.(*ssa.Defer); ok && listPop(d.Call.StaticCallee()) && len(d.Call.Args) == 1 && fieldKey(d.Call.Args[0]) == field && dominatesInstr(push, d) {
				removed = true
			}
		}
	}
	dominates := true
	for _, b := range f.Blocks {
		for _, ins := range b.Instrs {
			if cc := callOf(ins); cc != nil && cc.StaticCallee() != nil && in[cc.StaticCallee()] && !dominatesInstr(push, ins) {
				dominates = false
			}
		}
	}
	return tested && removed && dominates
}

// isASTList: a slice of syntax nodes (the statements of a block, the elements
// of a literal handed to a helper as they are).
func isASTList(t types.Type) bool {
	sl, ok := t.Underlying().(*types.Slice)
	return ok && isASTish(sl.Elem())
}
