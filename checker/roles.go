package main

// Role resolution.  The rules speak of "the parser's current token", "the
// evaluator's machine", "the lexer's read position".  Those are roles, not
// names: each is found by type and by the way the code uses the field, and the
// field's key is then *aliased* to the canonical name the rules use.  Renaming
// an unexported field, function or package variable in the repository
// therefore changes nothing for the rules (tools/benign checks that).

import (
	"fmt"
	"go/token"
	"go/types"
	"strings"

	"golang.org/x/tools/go/ssa"
)

// fieldAlias maps "pkg.Type.actualName" to "pkg.Type.roleName".
var fieldAlias = map[string]string{}

// nameAlias maps actual function / package-variable names ("vm.(*VM).x",
// "environment.x") to the role names used in tables of listed exceptions.
var nameAlias = map[string]string{}

func canonField(k string) string {
	if r, ok := fieldAlias[k]; ok {
		return r
	}
	return k
}

func canonName(k string) string {
	if r, ok := nameAlias[k]; ok {
		return r
	}
	return k
}

// structOf finds the named struct type pkgShort.Name of the module.
func (p *Program) structOf(pkgShort, name string) (*types.Named, *types.Struct) {
	path := Mod
	if pkgShort != "" && pkgShort != "evalfilter" {
		path = Mod + "/" + pkgShort
	}
	pk := p.ByPath[path]
	if pk == nil || pk.Types == nil {
		return nil, nil
	}
	obj := pk.Types.Scope().Lookup(name)
	if obj == nil {
		return nil, nil
	}
	n, ok := types.Unalias(obj.Type()).(*types.Named)
	if !ok {
		return nil, nil
	}
	st, ok := n.Underlying().(*types.Struct)
	if !ok {
		return nil, nil
	}
	return n, st
}

// aliasByType: the single field of the struct whose type satisfies pred gets the role name.
func (p *Program) aliasByType(pkgShort, typ, role string, pred func(types.Type) bool) {
	_, st := p.structOf(pkgShort, typ)
	if st == nil {
		return
	}
	var hit []string
	for i := 0; i < st.NumFields(); i++ {
		if pred(st.Field(i).Type()) {
			hit = append(hit, st.Field(i).Name())
		}
	}
	if len(hit) == 1 && hit[0] != role {
		pre := pkgShort
		if pre == "" {
			pre = "evalfilter"
		}
		fieldAlias[pre+"."+typ+"."+hit[0]] = pre + "." + typ + "." + role
	}
}

func isMapOf(t types.Type, key func(types.Type) bool, val func(types.Type) bool) bool {
	m, ok := t.Underlying().(*types.Map)
	return ok && key(m.Key()) && val(m.Elem())
}

func isSliceOf(t types.Type, el func(types.Type) bool) bool {
	s, ok := t.Underlying().(*types.Slice)
	return ok && el(s.Elem())
}

func isBasicKind(k types.BasicKind) func(types.Type) bool {
	return func(t types.Type) bool {
		b, ok := t.Underlying().(*types.Basic)
		return ok && b.Kind() == k
	}
}

func isEmptyIface(t types.Type) bool {
	i, ok := t.Underlying().(*types.Interface)
	return ok && i.NumMethods() == 0
}

// resolveRoles fills the alias tables.  Called once after loading.
func (p *Program) resolveRoles() {
	fieldAlias = map[string]string{}
	nameAlias = map[string]string{}
	isStr := isBasicKind(types.String)
	isObj := isObjectIface
	objMap := func(t types.Type) bool { return isMapOf(t, isStr, isObj) }
	ptrTo := func(pkg, name string) func(types.Type) bool {
		return func(t types.Type) bool { return isPointer(t) && isNamed(t, pkg, name) }
	}
	// evaluator
	p.aliasByType("", "Eval", "environment", ptrTo("environment", "Environment"))
	p.aliasByType("", "Eval", "machine", ptrTo("vm", "VM"))
	p.aliasByType("", "Eval", "context", func(t types.Type) bool { return isStdNamed(t, "context", "Context") })
	p.aliasByType("", "Eval", "mutex", func(t types.Type) bool { return isStdNamed(t, "sync", "Mutex") || isStdNamed(t, "sync", "RWMutex") })
	p.aliasByType("", "Eval", "constants", func(t types.Type) bool { return isSliceOf(t, isObj) })
	p.aliasByType("", "Eval", "instructions", func(t types.Type) bool { return isNamed(t, "code", "Instructions") })
	// machine
	p.aliasByType("vm", "VM", "environment", ptrTo("environment", "Environment"))
	p.aliasByType("vm", "VM", "context", func(t types.Type) bool { return isStdNamed(t, "context", "Context") })
	p.aliasByType("vm", "VM", "stack", ptrTo("stack", "Stack"))
	p.aliasByType("vm", "VM", "fields", objMap)
	p.aliasByType("vm", "VM", "constants", func(t types.Type) bool { return isSliceOf(t, isObj) })
	p.aliasByType("vm", "VM", "bytecode", func(t types.Type) bool { return isNamed(t, "code", "Instructions") })
	p.aliasByType("vm", "VM", "functions", func(t types.Type) bool {
		return isMapOf(t, isStr, func(v types.Type) bool { return isNamed(v, "environment", "UserFunction") })
	})
	// environment
	p.aliasByType("environment", "Environment", "global", objMap)
	p.aliasByType("environment", "Environment", "local", func(t types.Type) bool { return isSliceOf(t, objMap) })
	p.aliasByType("environment", "Environment", "functions", func(t types.Type) bool { return isMapOf(t, isStr, isEmptyIface) })
	// stack
	p.aliasByType("stack", "Stack", "entries", func(t types.Type) bool { return isSliceOf(t, isObj) })
	// iteration cursors: the one int field of the iterable value types
	for _, typ := range []string{"Array", "Hash", "String"} {
		p.aliasByType("object", typ, "offset", isBasicKind(types.Int))
	}
	// parser
	p.aliasByType("parser", "Parser", "errors", func(t types.Type) bool { return isSliceOf(t, isStr) })
	p.parserTokenRoles()
	// lexer
	p.aliasByType("lexer", "Lexer", "ch", isBasicKind(types.Int32))
	p.aliasByType("lexer", "Lexer", "characters", func(t types.Type) bool { return isSliceOf(t, isBasicKind(types.Int32)) })
	p.aliasByType("lexer", "Lexer", "prevToken", func(t types.Type) bool {
		// the previous token, or just its kind
		return (isNamed(t, "token", "Token") || isNamed(t, "token", "Type")) && !isPointer(t)
	})
	p.lexerPositionRoles()
	// package variables and functions named in tables of listed exceptions
	p.nameRoles()
}

// parserTokenRoles: in the method that refills the look-ahead — it stores the
// result of the lexer's NextToken — the field that receives that result is the
// next token, the field that receives the old next token is the current token,
// and the field that receives the old current token is the previous one.
func (p *Program) parserTokenRoles() {
	n, st := p.structOf("parser", "Parser")
	if st == nil {
		return
	}
	_ = n
	isTok := func(i int) bool { return isNamed(st.Field(i).Type(), "token", "Token") }
	for _, fn := range p.LibFns {
		if fn.Parent() != nil || !recvNamed(fn, "parser", "Parser") {
			continue
		}
		peek := -1
		for _, b := range fn.Blocks {
			for _, ins := range b.Instrs {
				s, ok := ins.(*ssa.Store)
				if !ok {
					continue
				}
				fa, ok := s.Addr.(*ssa.FieldAddr)
				if !ok || !isTok(fa.Field) {
					continue
				}
				if c, ok := s.Val.(*ssa.Call); ok && c.Call.StaticCallee() != nil && recvNamed(c.Call.StaticCallee(), "lexer", "Lexer") {
					peek = fa.Field
				}
			}
		}
		if peek < 0 {
			continue
		}
		from := map[int]int{} // dest field ← source field
		for _, b := range fn.Blocks {
			for _, ins := range b.Instrs {
				s, ok := ins.(*ssa.Store)
				if !ok {
					continue
				}
				fa, ok := s.Addr.(*ssa.FieldAddr)
				if !ok || !isTok(fa.Field) {
					continue
				}
				if ld, ok := s.Val.(*ssa.UnOp); ok && ld.Op == token.MUL {
					if fs, ok := ld.X.(*ssa.FieldAddr); ok && isTok(fs.Field) {
						from[fa.Field] = fs.Field
					}
				}
			}
		}
		cur, prev := -1, -1
		for d, s := range from {
			if s == peek {
				cur = d
			}
		}
		for d, s := range from {
			if s == cur {
				prev = d
			}
		}
		set := func(idx int, role string) {
			if idx >= 0 && st.Field(idx).Name() != role {
				fieldAlias["parser.Parser."+st.Field(idx).Name()] = "parser.Parser." + role
			}
		}
		set(peek, "peekToken")
		set(cur, "curToken")
		set(prev, "prevToken")
		return
	}
}

// lexerPositionRoles: in the method that stores the current character, the
// int field used to index the character buffer is the read position; the int
// field that is assigned the read position is the position.
func (p *Program) lexerPositionRoles() {
	_, st := p.structOf("lexer", "Lexer")
	if st == nil {
		return
	}
	isInt := func(i int) bool { return isBasicKind(types.Int)(st.Field(i).Type()) }
	isRune := func(i int) bool { return isBasicKind(types.Int32)(st.Field(i).Type()) }
	for _, fn := range p.LibFns {
		if fn.Parent() != nil || !recvNamed(fn, "lexer", "Lexer") {
			continue
		}
		storesCh := false
		readPos, pos := -1, -1
		for _, b := range fn.Blocks {
			for _, ins := range b.Instrs {
				switch x := ins.(type) {
				case *ssa.Store:
					fa, ok := x.Addr.(*ssa.FieldAddr)
					if !ok {
						continue
					}
					if isRune(fa.Field) {
						storesCh = true
					}
				case *ssa.IndexAddr:
					if ld, ok := x.Index.(*ssa.UnOp); ok && ld.Op == token.MUL {
						if fa, ok := ld.X.(*ssa.FieldAddr); ok && isInt(fa.Field) {
							readPos = fa.Field
						}
					}
				}
			}
		}
		if !storesCh || readPos < 0 {
			continue
		}
		for _, b := range fn.Blocks {
			for _, ins := range b.Instrs {
				s, ok := ins.(*ssa.Store)
				if !ok {
					continue
				}
				fa, ok := s.Addr.(*ssa.FieldAddr)
				if !ok || !isInt(fa.Field) || fa.Field == readPos {
					continue
				}
				if ld, ok := s.Val.(*ssa.UnOp); ok && ld.Op == token.MUL {
					if fs, ok := ld.X.(*ssa.FieldAddr); ok && fs.Field == readPos {
						pos = fa.Field
					}
				}
			}
		}
		set := func(idx int, role string) {
			if idx >= 0 && st.Field(idx).Name() != role {
				fieldAlias["lexer.Lexer."+st.Field(idx).Name()] = "lexer.Lexer." + role
			}
		}
		set(readPos, "readPosition")
		set(pos, "position")
		return
	}
}

// nameRoles: the few functions and package variables that tables of listed
// exceptions mention.
func (p *Program) nameRoles() {
	for _, fn := range p.LibFns {
		if fn.Parent() != nil || fnPkg(fn) == nil {
			continue
		}
		ps, rs := sigParams(fn), sigResults(fn)
		switch {
		case recvNamed(fn, "vm", "VM") && len(ps) == 1 && isStdNamed(ps[0], "reflect", "Value") && len(rs) == 1 && isObjectIface(rs[0]):
			// the kind switch: the one of the two converters that switches on Kind()
			for _, b := range fn.Blocks {
				for _, ins := range b.Instrs {
					if c, ok := ins.(*ssa.Call); ok && c.Call.StaticCallee() != nil && c.Call.StaticCallee().String() == "(reflect.Value).Kind" {
						nameAlias[p.rawFnName(fn)] = "vm.(*VM).primitiveToObject"
					}
				}
			}
		case recvNamed(fn, "vm", "VM") && len(ps) == 0 && len(rs) == 0:
			// NOP removal: the pass that builds an int→int map of old to new offsets
			for _, b := range fn.Blocks {
				for _, ins := range b.Instrs {
					if mm, ok := ins.(*ssa.MakeMap); ok && isMapOf(mm.Type(), isBasicKind(types.Int), isBasicKind(types.Int)) {
						nameAlias[p.rawFnName(fn)] = "vm.(*VM).removeNOPs"
					}
				}
			}
		}
	}
	// the regexp cache and its lock
	if sp := p.SSAPkg[Mod+"/environment"]; sp != nil {
		for name, m := range sp.Members {
			g, ok := m.(*ssa.Global)
			if !ok {
				continue
			}
			t := deref(g.Type())
			switch {
			case isMapOf(t, isBasicKind(types.String), func(v types.Type) bool { return isPointer(v) && isStdNamed(deref(v), "regexp", "Regexp") }):
				nameAlias["environment."+name] = "environment.regCache"
			case isStdNamed(t, "sync", "Mutex") || isStdNamed(t, "sync", "RWMutex"):
				nameAlias["environment."+name] = "environment.regCacheLock"
			}
		}
	}
	_ = fmt.Sprint
	_ = strings.ToLower
}
