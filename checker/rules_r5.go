package main

// Rules added in round 5 of the seeding (see DESIGN.md §10).

import (
	"fmt"
	"go/constant"
	"go/token"
	"go/types"
	"sort"
	"strings"

	"golang.org/x/tools/go/ssa"
)

func init() {
	register(&Rule{ID: "R-CONSTJUMP", Floor: 2, Run: ruleConstJump,
		Text: "The optimizer takes a conditional jump away (or makes it unconditional) only together with the constant that decides it: in a bytecode walker, every instruction written over a conditional jump is written where the instruction before it is known to be the push of true or of false — known through a cell that holds the opcode of the previous instruction on every path on which the walk goes on.  A conditional jump pops its condition; removing the jump and leaving whatever computed the condition leaves a value on the stack that nothing will pop."})
	register(&Rule{ID: "R-NAMEAGREE", Floor: 6, Run: ruleNameAgree,
		Text: "Readers and writers of the variable store agree on the name: every handler of the machine that uses a name taken from the program (a constant, a popped string, a parameter list) as the name of a variable — to look it up, assign, declare, bind or update it — uses either the name as it stands everywhere, or the result of one and the same normalising function everywhere.  A prefix that only the reader strips makes every variable written with the prefix unreadable."})
	register(&Rule{ID: "R-ONPATHONLY", Floor: 1, Run: ruleOnPathOnly,
		Text: "The set that cuts off host containers which contain themselves holds only the containers on the current path: every insertion into it is undone when the conversion of that container ends (a deferred delete registered with the insertion).  A container that stays in the set is taken for a cycle when it is met again as a sibling — two empty slices, the same map under two fields — and arrives as null."})
	register(&Rule{ID: "R-TOKENSTATE", Floor: 20, Run: ruleTokenState,
		Text: "No token is left behind unidentified: whenever the parser advances, the token it steps off has been identified — by a successful test of its kind, by the dispatch that selected the running parselet, by a sub-parser that ended on it — as something other than the end of input or an illegal token, or an error has been recorded on the way.  A construct that is 'closed' by whatever token happens to follow, or a loop that stops at an illegal token and lets its caller step over it, accepts a script from which the offending part was silently dropped."})
}

// ---------------------------------------------------------------------------
// R-CONSTJUMP

// programByteStore: the instruction stores into a byte of a program held in a
// field (vm.bytecode[i] = …); returns the stored value.
func programByteStore(ins ssa.Instruction) (ssa.Value, bool) {
	st, ok := ins.(*ssa.Store)
	if !ok {
		return nil, false
	}
	ia, ok := st.Addr.(*ssa.IndexAddr)
	if !ok {
		return nil, false
	}
	ld, ok := ia.X.(*ssa.UnOp)
	if !ok || !isByteSlice(ld.Type()) {
		return nil, false
	}
	if _, isField := ld.X.(*ssa.FieldAddr); !isField {
		return nil, false
	}
	return st.Val, true
}

// writesOpcodeIntoProgram: fn stores an opcode constant into a program byte.
func writesOpcodeIntoProgram(oc *opcodes, fn *ssa.Function) bool {
	for _, b := range fn.Blocks {
		for _, ins := range b.Instrs {
			if v, ok := programByteStore(ins); ok && oc.ssaName(v) != "" {
				return true
			}
		}
	}
	return false
}

func sameCell(a, b ssa.Value) bool {
	if a == b {
		return true
	}
	fa, ok1 := a.(*ssa.FieldAddr)
	fb, ok2 := b.(*ssa.FieldAddr)
	if ok1 && ok2 && fa.Field == fb.Field {
		_, p1 := fa.X.(*ssa.Parameter)
		_, p2 := fb.X.(*ssa.Parameter)
		return p1 && p2 && fa.X == fb.X
	}
	return false
}

func ruleConstJump(p *Program, r *Reporter) {
	oc := p.Opcodes()
	condJumps := map[string]bool{"OpJumpIfFalse": true}
	consts := map[string]bool{"OpTrue": true, "OpFalse": true}
	nth := map[string]int{}
	found := 0
	for _, fn := range p.LibFns {
		if fnPkg(fn).Pkg.Path() != Mod+"/vm" || !isWalkerCallback(fn) {
			continue
		}
		ps := fn.Params
		sig := fn.Signature.Params()
		n := sig.Len()
		// the opcode parameter (free variables and the receiver come first in Params)
		var opParam *ssa.Parameter
		for _, q := range ps {
			if isOpcodeType(q.Type()) {
				opParam = q
			}
		}
		_ = n
		if opParam == nil {
			continue
		}
		// cells that hold "the previous opcode": every store made by this
		// function into the cell stores the opcode parameter
		type cellInfo struct {
			addr   ssa.Value
			stores []*ssa.Store
			clean  bool
		}
		var cells []*cellInfo
		cellOf := func(addr ssa.Value) *cellInfo {
			switch a := addr.(type) {
			case *ssa.FreeVar:
			case *ssa.FieldAddr:
				if _, isParam := a.X.(*ssa.Parameter); !isParam {
					return nil
				}
			default:
				return nil
			}
			if !isOpcodeType(deref(addr.Type())) {
				return nil
			}
			for _, c := range cells {
				if sameCell(c.addr, addr) {
					return c
				}
			}
			c := &cellInfo{addr: addr, clean: true}
			cells = append(cells, c)
			return c
		}
		for _, b := range fn.Blocks {
			for _, ins := range b.Instrs {
				if st, ok := ins.(*ssa.Store); ok {
					if c := cellOf(st.Addr); c != nil {
						c.stores = append(c.stores, st)
						if stripConvSSA(st.Val) != ssa.Value(opParam) {
							c.clean = false
						}
					}
				}
			}
		}
		// tracksPrevious: the cell is brought up to date on every path on which
		// the walk goes on (a return whose first result is not the constant false)
		tracksPrevious := func(c *cellInfo) (bool, string) {
			if !c.clean || len(c.stores) == 0 {
				return false, "the cell is also assigned something other than the opcode of the instruction just visited"
			}
			var sb []*ssa.BasicBlock
			for _, st := range c.stores {
				sb = append(sb, st.Block())
			}
			for _, b := range fn.Blocks {
				ret, ok := terminator(b).(*ssa.Return)
				if !ok || len(ret.Results) == 0 {
					continue
				}
				if k, ok := returnOperand(ret, 0).(*ssa.Const); ok && k.Value != nil && k.Value.String() == "false" {
					continue
				}
				if !dominatedByOneOf(sb, b) {
					return false, "on a path on which the walk goes on (" + p.Pos(ret.Pos()) + ") the cell is not brought up to date: it then names an instruction further back, and what lies between — a jump target, say — is overlooked"
				}
			}
			return true, ""
		}
		// the writes over a conditional jump
		for _, b := range fn.Blocks {
			var sets map[ssa.Value]map[string]bool
			for _, ins := range b.Instrs {
				isWrite := false
				if v, ok := programByteStore(ins); ok && oc.ssaName(v) != "" {
					isWrite = true
				} else if c, ok := ins.(*ssa.Call); ok {
					if cal := c.Call.StaticCallee(); cal != nil && cal != fn && fnPkg(cal) != nil && fnPkg(cal).Pkg.Path() == Mod+"/vm" && !isWalkerCallback(cal) && writesOpcodeIntoProgram(oc, cal) {
						isWrite = true
					}
				}
				if !isWrite {
					continue
				}
				if sets == nil {
					sets = opcodeSetsAt(p, fn, b)
				}
				cur := sets[ssa.Value(opParam)]
				if cur == nil || len(cur) == 0 {
					continue
				}
				onlyCond := true
				for o := range cur {
					if !condJumps[o] {
						onlyCond = false
					}
				}
				if !onlyCond {
					continue
				}
				found++
				label := outerCase(p, fn, ins.Pos())
				nth[p.FnName(fn)+label]++
				key := fmt.Sprintf("%s/%s/write %d over a conditional jump is decided by a constant", p.FnName(fn), label, nth[p.FnName(fn)+label])
				// a tested load of a previous-opcode cell whose value here is true/false
				okWhy, bad := "", ""
				for v, set := range sets {
					ld, isLoad := v.(*ssa.UnOp)
					if !isLoad || ld.Op != token.MUL || len(set) == 0 {
						continue
					}
					c := cellOf(ld.X)
					if c == nil {
						continue
					}
					all := true
					for o := range set {
						if !consts[o] {
							all = false
						}
					}
					if !all {
						continue
					}
					if ok, why := tracksPrevious(c); ok {
						var names []string
						for o := range set {
							names = append(names, o)
						}
						sort.Strings(names)
						okWhy = "the instruction before is known to be " + strings.Join(names, "/")
					} else {
						bad = why
					}
				}
				switch {
				case okWhy != "":
					r.OkNT(key, p.Pos(ins.Pos()), okWhy)
				case bad != "":
					r.Fail(key, p.Pos(ins.Pos()), "the jump is rewritten because of what a cell says the previous instruction was, but "+bad)
				default:
					r.Fail(key, p.Pos(ins.Pos()), "an instruction is written over a conditional jump on a path on which the instruction before it is not known to be the push of true or false: the jump pops its condition, so taking it away (or making it unconditional) leaves the condition's value on the stack — inside a foreach, on top of the iterator — and, if the condition is not a constant, changes which way the program goes")
				}
			}
		}
	}
	if found == 0 {
		r.Info("conditional jumps rewritten by the optimizer", "-", "no bytecode walker writes over a conditional jump")
	}
}

// ---------------------------------------------------------------------------
// R-NAMEAGREE

func ruleNameAgree(p *Program, r *Reporter) {
	a := needAnchors(p, r)
	if a == nil {
		return
	}
	// the accessors of the variable store: methods of environment.Environment
	// whose first parameter is the name (string) and which read or write the
	// variable maps
	isAccessor := func(f *ssa.Function) bool {
		if f == nil || f.Signature.Recv() == nil || !isNamed(deref(f.Signature.Recv().Type()), "environment", "Environment") {
			return false
		}
		ps := f.Signature.Params()
		if ps.Len() == 0 {
			return false
		}
		if b, ok := ps.At(0).Type().Underlying().(*types.Basic); !ok || b.Kind() != types.String {
			return false
		}
		// it (or a method of the store it calls) touches the variable maps —
		// not the function table, which has accessors of the same shape
		var touches func(g *ssa.Function, depth int) bool
		touches = func(g *ssa.Function, depth int) bool {
			if g == nil || depth > 2 {
				return false
			}
			for _, b := range g.Blocks {
				for _, ins := range b.Instrs {
					if fa, ok := ins.(*ssa.FieldAddr); ok {
						switch fieldKey(fa) {
						case "environment.Environment.global", "environment.Environment.local":
							return true
						}
					}
					if cc := callOf(ins); cc != nil && cc.StaticCallee() != nil && cc.StaticCallee().Signature.Recv() != nil && isNamed(deref(cc.StaticCallee().Signature.Recv().Type()), "environment", "Environment") && touches(cc.StaticCallee(), depth+1) {
						return true
					}
				}
			}
			return false
		}
		return touches(f, 0)
	}
	// the machine's own resolver(s): functions of vm that call an accessor with
	// (a function of) one of their string parameters
	type use struct {
		fn   *ssa.Function
		call *ssa.Call
		norm string // "" = the name as it stands; otherwise the normaliser(s) applied
		pos  token.Pos
		what string
		read bool // the accessor reached is the reader (it returns value, ok)
	}
	isReader := func(f *ssa.Function) bool { return f != nil && f.Signature.Results().Len() == 2 }
	helperReads := map[*ssa.Function]bool{}
	var uses []use
	reach := p.Reachable(a.vmRun)
	// normOf: which functions the string went through since it was a raw name
	var normOf func(v ssa.Value, depth int) (string, bool)
	normOf = func(v ssa.Value, depth int) (string, bool) {
		if depth > 8 {
			return "", false
		}
		switch x := v.(type) {
		case *ssa.Call:
			cal := x.Call.StaticCallee()
			if x.Call.IsInvoke() {
				// name.Inspect(): the raw text of a name object
				return "", true
			}
			if cal == nil {
				return "", false
			}
			// a string → string function applied to the name
			if len(x.Call.Args) >= 1 && cal.Signature.Results().Len() == 1 {
				if b, ok := cal.Signature.Results().At(0).Type().Underlying().(*types.Basic); ok && b.Kind() == types.String {
					if cal.Signature.Recv() != nil {
						// a method of an object returning its text
						return "", true
					}
					// which argument carries the name: the first string argument
					for _, arg := range x.Call.Args {
						if ab, ok := arg.Type().Underlying().(*types.Basic); ok && ab.Kind() == types.String {
							inner, ok := normOf(arg, depth+1)
							if !ok {
								return "", false
							}
							name := cal.Name()
							if cal.Pkg != nil && !strings.HasPrefix(cal.Pkg.Pkg.Path(), Mod) {
								name = cal.Pkg.Pkg.Name() + "." + cal.Name()
								if len(x.Call.Args) > 1 {
									if k, ok := x.Call.Args[1].(*ssa.Const); ok && k.Value != nil {
										name += "(" + k.Value.ExactString() + ")"
									}
								}
							} else if fnPkg(cal) != nil && IsLibPath(fnPkg(cal).Pkg.Path()) {
								// a helper of the module: what it does to its argument
								if len(cal.Blocks) > 0 {
									var rets []string
									okAll := true
									for _, b := range cal.Blocks {
										if ret, isRet := terminator(b).(*ssa.Return); isRet && len(ret.Results) == 1 {
											n2, ok2 := normOf(ret.Results[0], depth+1)
											if !ok2 {
												okAll = false
											}
											rets = append(rets, n2)
										}
									}
									if okAll && len(rets) > 0 {
										same := true
										for _, x := range rets {
											if x != rets[0] {
												same = false
											}
										}
										if same {
											name = rets[0]
											if name == "" {
												return inner, true
											}
										}
									}
								}
							}
							if inner != "" {
								return inner + "∘" + name, true
							}
							return name, true
						}
					}
				}
			}
			return "", false
		case *ssa.Parameter, *ssa.FreeVar:
			return "", true
		case *ssa.UnOp:
			return "", true // a load: a field of a name object, an element of a parameter list
		case *ssa.Extract, *ssa.Lookup, *ssa.Index, *ssa.TypeAssert, *ssa.Const:
			return "", true
		case *ssa.Phi:
			var first string
			for i, e := range x.Edges {
				n2, ok := normOf(e, depth+1)
				if !ok {
					return "", false
				}
				if i == 0 {
					first = n2
				} else if n2 != first {
					return first + "|" + n2, true
				}
			}
			return first, true
		}
		return "", false
	}
	var fns []*ssa.Function
	for f := range reach {
		if fnPkg(f) != nil && fnPkg(f).Pkg.Path() == Mod+"/vm" {
			fns = append(fns, f)
		}
	}
	sort.Slice(fns, func(i, j int) bool { return p.FnName(fns[i]) < p.FnName(fns[j]) })
	// helpers that hand their string parameter to an accessor (lookup): the
	// normalisation they apply counts for their callers
	helperNorm := map[*ssa.Function]string{}
	for _, f := range fns {
		for _, b := range f.Blocks {
			for _, ins := range b.Instrs {
				c, ok := ins.(*ssa.Call)
				if !ok || !isAccessor(c.Call.StaticCallee()) || len(c.Call.Args) < 2 {
					continue
				}
				nameArg := c.Call.Args[1]
				norm, ok := normOf(nameArg, 0)
				if !ok {
					r.Undecided(siteKey(p, f, c.Pos(), "name handed to "+c.Call.StaticCallee().Name()), p.Pos(c.Pos()), "cannot tell what was done to the name before it is used as the name of a variable")
					continue
				}
				// is the raw name one of f's own parameters?  then f is a resolver
				// helper and its callers are the sites
				root := nameArg
				for depth := 0; depth < 8; depth++ {
					if cl, ok := root.(*ssa.Call); ok && len(cl.Call.Args) > 0 && !cl.Call.IsInvoke() {
						moved := false
						for _, arg := range cl.Call.Args {
							if ab, ok := arg.Type().Underlying().(*types.Basic); ok && ab.Kind() == types.String {
								root = arg
								moved = true
								break
							}
						}
						if moved {
							continue
						}
					}
					break
				}
				if pr, isParam := root.(*ssa.Parameter); isParam && f != a.vmRun && pr.Parent() == f {
					helperNorm[f] = norm
					if isReader(c.Call.StaticCallee()) {
						helperReads[f] = true
					}
					continue
				}
				uses = append(uses, use{fn: f, call: c, norm: norm, pos: c.Pos(), what: c.Call.StaticCallee().Name(), read: isReader(c.Call.StaticCallee())})
			}
		}
	}
	// the callers of resolver helpers
	for _, f := range fns {
		for _, b := range f.Blocks {
			for _, ins := range b.Instrs {
				c, ok := ins.(*ssa.Call)
				if !ok {
					continue
				}
				cal := c.Call.StaticCallee()
				hn, isHelper := helperNorm[cal]
				if !isHelper {
					continue
				}
				var nameArg ssa.Value
				for i, q := range cal.Params {
					if bq, ok := q.Type().Underlying().(*types.Basic); ok && bq.Kind() == types.String && i < len(c.Call.Args) {
						nameArg = c.Call.Args[i]
					}
				}
				if nameArg == nil {
					continue
				}
				norm, ok := normOf(nameArg, 0)
				if !ok {
					r.Undecided(siteKey(p, f, c.Pos(), "name handed to "+cal.Name()), p.Pos(c.Pos()), "cannot tell what was done to the name before it is used as the name of a variable")
					continue
				}
				if norm != "" && hn != "" && norm != hn {
					norm = norm + "∘" + hn
				} else if norm == "" {
					norm = hn
				}
				uses = append(uses, use{fn: f, call: c, norm: norm, pos: c.Pos(), what: cal.Name(), read: helperReads[cal]})
			}
		}
	}
	if len(uses) == 0 {
		r.Undecided("uses of names as variable names", "-", "the machine calls no accessor of the variable store")
		return
	}
	// the reference: what the reader (the use inside / through the name resolver) applies
	ref, refSet := "", false
	for _, u := range uses {
		if u.read && !refSet {
			ref, refSet = u.norm, true
		}
	}
	if !refSet {
		ref = uses[0].norm
	}
	nth := map[string]int{}
	for _, u := range uses {
		label := outerCase(p, u.fn, u.pos)
		k := p.FnName(u.fn) + "/" + label + "/" + u.what
		nth[k]++
		key := fmt.Sprintf("%s %d uses the name as the reader does", k, nth[k])
		show := func(s string) string {
			if s == "" {
				return "the name as it stands"
			}
			return s
		}
		if u.norm == ref {
			r.OkNT(key, p.Pos(u.pos), show(u.norm))
		} else {
			r.Fail(key, p.Pos(u.pos), "this use of a name as the name of a variable takes "+show(u.norm)+", while a variable is read under "+show(ref)+": a script that writes the name in the form only one of them changes assigns one variable and reads another (`$x = 3; return $x;` gives null)")
		}
	}
}

// ---------------------------------------------------------------------------
// R-ONPATHONLY

func ruleOnPathOnly(p *Program, r *Reporter) {
	a := needAnchors(p, r)
	if a == nil {
		return
	}
	// the guard sets of the reflection walk: map fields of VM (or maps reachable
	// through a parameter) that a function of the recursive conversion component
	// tests before it recurses and inserts into
	var comp []*ssa.Function
	for _, c := range librarySCCs(p) {
		for _, f := range c {
			if p.FnName(f) == "vm.(*VM).primitiveToObject" {
				comp = c
			}
		}
	}
	if comp == nil {
		// the conversion is not recursive (any more): nothing to guard
		for _, c := range librarySCCs(p) {
			for _, f := range c {
				if fnPkg(f).Pkg.Path() == Mod+"/vm" && usesReflect(f) {
					comp = c
				}
			}
		}
	}
	if comp == nil {
		r.Info("guard set of the reflection walk", "-", "the conversion of host values is not recursive")
		return
	}
	in := map[*ssa.Function]bool{}
	for _, f := range comp {
		in[f] = true
	}
	// functions called from the component that are not part of it (helpers)
	var fns []*ssa.Function
	fns = append(fns, comp...)
	for _, f := range comp {
		for _, b := range f.Blocks {
			for _, ins := range b.Instrs {
				if cc := callOf(ins); cc != nil {
					if cal := cc.StaticCallee(); cal != nil && !in[cal] && fnPkg(cal) != nil && fnPkg(cal).Pkg.Path() == Mod+"/vm" && len(cal.Blocks) > 0 {
						dup := false
						for _, g := range fns {
							if g == cal {
								dup = true
							}
						}
						if !dup {
							fns = append(fns, cal)
						}
					}
				}
			}
		}
	}
	n := 0
	for _, f := range fns {
		for _, b := range f.Blocks {
			for _, ins := range b.Instrs {
				mu, ok := ins.(*ssa.MapUpdate)
				if !ok {
					continue
				}
				ld, ok := mu.Map.(*ssa.UnOp)
				if !ok {
					continue
				}
				fa, ok := ld.X.(*ssa.FieldAddr)
				if !ok || !isNamed(deref(fa.X.Type()), "vm", "VM") {
					continue
				}
				// a set: bool or struct{} values
				mt, ok := ld.Type().Underlying().(*types.Map)
				if !ok {
					continue
				}
				if b, ok := mt.Elem().Underlying().(*types.Basic); !ok || b.Kind() != types.Bool {
					if st, ok := mt.Elem().Underlying().(*types.Struct); !ok || st.NumFields() != 0 {
						continue
					}
				}
				field := fieldKey(fa)
				// is the same set tested somewhere in these functions (a guard)?
				tested := false
				for _, g := range fns {
					for _, gb := range g.Blocks {
						for _, gi := range gb.Instrs {
							if lk, ok := gi.(*ssa.Lookup); ok {
								if l2, ok := lk.X.(*ssa.UnOp); ok {
									if f2, ok := l2.X.(*ssa.FieldAddr); ok && fieldKey(f2) == field {
										tested = true
									}
								}
							}
						}
					}
				}
				if !tested {
					continue
				}
				n++
				key := fmt.Sprintf("%s/insertion into %s is undone when the conversion ends", p.FnName(f), field)
				// a deferred delete on the same field with the same key, in the
				// function that inserts — or, when the insertion is made by a helper,
				// in every function that calls the helper (the conversion whose
				// container was inserted)
				deletesFromSet := func(cc *ssa.CallCommon) bool {
					if bi, ok := cc.Value.(*ssa.Builtin); ok && bi.Name() == "delete" && len(cc.Args) == 2 {
						if l2, ok := cc.Args[0].(*ssa.UnOp); ok {
							if f2, ok := l2.X.(*ssa.FieldAddr); ok && fieldKey(f2) == field {
								return true
							}
						}
					}
					return false
				}
				// undoInstr: the instruction registers (or performs) the removal
				undoInstr := func(gi ssa.Instruction) bool {
					if c2, ok := gi.(*ssa.Call); ok && deletesFromSet(&c2.Call) {
						return true
					}
					df, ok := gi.(*ssa.Defer)
					if !ok {
						return false
					}
					if deletesFromSet(&df.Call) {
						return true
					}
					// defer func() { delete(vm.set, k) }() or defer vm.leave(k)
					var body *ssa.Function
					if mc, ok := df.Call.Value.(*ssa.MakeClosure); ok {
						body, _ = mc.Fn.(*ssa.Function)
					} else if sc := df.Call.StaticCallee(); sc != nil {
						body = sc
					}
					if body != nil {
						for _, bb := range body.Blocks {
							for _, bi := range bb.Instrs {
								if c2, ok := bi.(*ssa.Call); ok && deletesFromSet(&c2.Call) {
									return true
								}
							}
						}
					}
					return false
				}
				// undone: on every path from `from` to a return of g the removal
				// is registered — paths on which `okVal` (what a helper reported)
				// is false left aside when exemptFalse
				undone := func(g *ssa.Function, from ssa.Instruction, okVal ssa.Value, exemptFalse bool) bool {
					if defersUndoHandedBack(g, field) {
						return true
					}
					if from == nil {
						return false
					}
					leak := false
					seenB := map[*ssa.BasicBlock]bool{}
					var walk func(b *ssa.BasicBlock, start int)
					walk = func(b *ssa.BasicBlock, start int) {
						if leak {
							return
						}
						for i := start; i < len(b.Instrs); i++ {
							gi := b.Instrs[i]
							if undoInstr(gi) {
								return
							}
							switch t := gi.(type) {
							case *ssa.Return:
								leak = true
								return
							case *ssa.Panic:
								return
							case *ssa.If:
								if exemptFalse && okVal != nil && len(b.Succs) == 2 {
									cond, neg := t.Cond, false
									if u, ok := cond.(*ssa.UnOp); ok && u.Op == token.NOT {
										cond, neg = u.X, true
									}
									if cond == okVal {
										s := b.Succs[0]
										if neg {
											s = b.Succs[1]
										}
										if !seenB[s] {
											seenB[s] = true
											walk(s, 0)
										}
										return
									}
								}
							}
						}
						for _, s := range b.Succs {
							if !seenB[s] {
								seenB[s] = true
								walk(s, 0)
							}
						}
					}
					walk(from.Block(), instrIndex(from)+1)
					return !leak
				}
				if in[f] {
					if undone(f, mu, nil, false) {
						r.OkNT(key, p.Pos(mu.Pos()), "a deferred delete is registered on every path from the insertion to a return")
					} else {
						r.Fail(key, p.Pos(mu.Pos()), "a container is put into the set that cuts off cycles and nothing takes it out again when its conversion ends: the set then holds every container met so far, not those on the current path, and a second empty slice, a second nil map or a map stored under two fields is taken for a cycle and arrives as null")
					}
					continue
				}
				// a helper: every caller inside the component must undo — on every
				// path on which the helper has inserted: when the helper says "no"
				// only where it has not inserted (every return that the insertion
				// can reach reports true), the caller's "no" branch has nothing to undo
				insertedMeansTrue := false
				boolIdx := -1
				if rs := sigResults(f); len(rs) > 0 && isBoolType(rs[len(rs)-1]) {
					boolIdx = len(rs) - 1
					insertedMeansTrue = true
					seenR := map[*ssa.BasicBlock]bool{}
					var fw func(b *ssa.BasicBlock, start int)
					fw = func(b *ssa.BasicBlock, start int) {
						for i := start; i < len(b.Instrs); i++ {
							if ret, ok := b.Instrs[i].(*ssa.Return); ok {
								k, isK := returnOperand(ret, boolIdx).(*ssa.Const)
								if !isK || k.Value == nil || k.Value.Kind() != constant.Bool || !constant.BoolVal(k.Value) {
									insertedMeansTrue = false
								}
							}
						}
						for _, sc := range b.Succs {
							if !seenR[sc] {
								seenR[sc] = true
								fw(sc, 0)
							}
						}
					}
					fw(mu.Block(), instrIndex(mu)+1)
				}
				sites, okAll := 0, true
				for _, g := range comp {
					for _, gb := range g.Blocks {
						for _, gi := range gb.Instrs {
							if c2, ok := staticCalleeIs(gi, f); ok && c2 != nil {
								sites++
								var okVal ssa.Value
								if v, isV := gi.(ssa.Value); isV && boolIdx >= 0 {
									if len(sigResults(f)) == 1 {
										okVal = v
									} else if v.Referrers() != nil {
										for _, ref := range *v.Referrers() {
											if ex, ok := ref.(*ssa.Extract); ok && ex.Index == boolIdx {
												okVal = ex
											}
										}
									}
								}
								if !undone(g, gi, okVal, insertedMeansTrue) {
									okAll = false
								}
							}
						}
					}
				}
				if sites > 0 && okAll {
					r.OkNT(key, p.Pos(mu.Pos()), fmt.Sprintf("the helper's %d caller(s) register a deferred delete on every path on which the helper has inserted", sites))
				} else {
					r.Fail(key, p.Pos(mu.Pos()), "a container is put into the set that cuts off cycles (by a helper) and on some path the conversion that called the helper does not take it out again when it ends (a refusal reported after the insertion, say, on which the caller returns at once): the set then holds every container met so far, not those on the current path, and a second empty slice, a second nil map or a map stored under two fields is taken for a cycle and arrives as null")
				}
			}
		}
	}
	if n == 0 {
		// the guard kept in another form (a list that grows and shrinks at its
		// end with the conversion): what R-RECURSION accepts as an on-path
		// structure holds the path only by construction
		if ok, why := hasOnPathSet(p, comp); ok {
			r.OkNT("the guard of the reflection walk holds the current path only", p.Pos(comp[0].Pos()), why)
		} else {
			r.Info("guard set of the reflection walk", "-", "no set is used to cut off cycles (R-RECURSION decides whether the walk is bounded)")
		}
	}
}

func usesReflect(f *ssa.Function) bool {
	for _, q := range f.Params {
		if isStdNamed(q.Type(), "reflect", "Value") {
			return true
		}
	}
	return false
}

// ---------------------------------------------------------------------------
// R-BYTERUNE

func init() {
	register(&Rule{ID: "R-BYTERUNE", Floor: 1, Run: ruleByteRune,
		Text: "No text of a script is rebuilt byte by byte: nowhere in the lexer, the parser or the compiler is a byte taken out of a string by indexing converted to a string on its own (string(s[i])) — for a byte of a multi-byte character that yields a different character (the two bytes of `é` become `Ã©`), so any text that passes through such a loop is only right while it is ASCII.  (Expected count on a correct tree: zero; the matcher is run on a built-in positive example on every run.)"})
}

// byteToStringSites: conversions to string of a single byte that was indexed
// out of a string.
func byteToStringSites(fn *ssa.Function) []*ssa.Convert {
	var out []*ssa.Convert
	for _, b := range fn.Blocks {
		for _, ins := range b.Instrs {
			cv, ok := ins.(*ssa.Convert)
			if !ok {
				continue
			}
			if tb, ok := cv.Type().Underlying().(*types.Basic); !ok || tb.Info()&types.IsString == 0 {
				continue
			}
			if sb, ok := cv.X.Type().Underlying().(*types.Basic); !ok || sb.Kind() != types.Uint8 {
				continue
			}
			for _, o := range append([]ssa.Value{cv.X}, origins(cv.X)...) {
				var base ssa.Value
				switch x := o.(type) {
				case *ssa.Index:
					base = x.X
				case *ssa.Lookup:
					base = x.X
				default:
					continue
				}
				if xb, ok := base.Type().Underlying().(*types.Basic); ok && xb.Info()&types.IsString != 0 {
					out = append(out, cv)
					break
				}
			}
		}
	}
	return out
}

const byteRuneExample = `package t
func flags(val string) string {
	out := ""
	for i := 0; i < len(val); i++ {
		if val[i] == ')' {
			break
		}
		out += string(val[i])
	}
	return out
}
`

func ruleByteRune(p *Program, r *Reporter) {
	n := 0
	for _, fn := range p.LibFns {
		path := fnPkg(fn).Pkg.Path()
		if path != Mod+"/lexer" && path != Mod+"/parser" && path != Mod && path != Mod+"/token" && path != Mod+"/ast" {
			continue
		}
		for _, cv := range byteToStringSites(fn) {
			n++
			r.Fail(siteKey(p, fn, cv.Pos(), "turns one byte of a string into a string"), p.Pos(cv.Pos()), "a byte indexed out of a string is converted to a string on its own: for a byte of a multi-byte character the result is another character (each byte of `é` becomes a Latin-1 letter), so the text that is put together here differs from the text of the script wherever that is not ASCII — a regexp literal `/(?:é)x/` no longer denotes its pattern")
		}
	}
	sp := buildExample(byteRuneExample)
	hit := 0
	if sp != nil {
		if f := sp.Func("flags"); f != nil {
			hit = len(byteToStringSites(f))
		}
	}
	if hit == 0 {
		r.Undecided("self-test", "-", "the matcher did not fire on its built-in positive example")
	} else {
		r.OkNT("strings rebuilt byte by byte in the translation pipeline", "-", fmt.Sprintf("%d found; matcher verified on a built-in positive example", n))
	}
}

// ---------------------------------------------------------------------------
// R-TYPENAME

func init() {
	register(&Rule{ID: "R-TYPENAME", Floor: 1, Run: ruleTypeName,
		Text: "type() names the type of every value: the text it returns is the lower-cased internal type name of its argument (strings.ToLower of Type()), or is looked up in a table that has an entry — the lower-cased name — for every type constant of the object package a script can hold (array, boolean, float, hash, integer, null, regexp, string)."})
	register(&Rule{ID: "R-FLOATINT", Floor: 1, Run: ruleFloatInt,
		Text: "No built-in turns a float into an integer without looking at its size: every conversion of a float to an integer type in the built-in functions is dominated by comparisons that bound the value from both sides (or bound its absolute value).  The conversion of a float beyond ±2^63, of an infinity or of NaN yields a machine-dependent number — int(1e19) must be null, not -9223372036854775808.  (Expected count on the unmodified tree: zero — the built-ins convert through strconv; the matcher is run on a built-in positive example on every run.)"})
}

func ruleTypeName(p *Program, r *Reporter) {
	fn := registeredBuiltins(p)["type"]
	if fn == nil {
		r.Undecided("type built-in", "-", "no function is registered under the name type")
		return
	}
	// the type constants of the object package
	want := map[string]string{}
	if pk := p.ByPath[Mod+"/object"]; pk != nil {
		sc := pk.Types.Scope()
		for _, n := range sc.Names() {
			c, ok := sc.Lookup(n).(*types.Const)
			if !ok || c.Val().Kind() != constant.String {
				continue
			}
			v := constant.StringVal(c.Val())
			// the type names: constants of type Type, or untyped ones spelt as
			// their own value (ARRAY = "ARRAY")
			if !isNamed(c.Type(), "object", "Type") && (v != n || strings.ToUpper(v) != v) {
				continue
			}
			if v == "VOID" {
				continue // not a value a script can hold
			}
			want[v] = strings.ToLower(v)
		}
	}
	if len(want) == 0 {
		r.Undecided("type built-in", "-", "cannot read the type constants of the object package")
		return
	}
	key := "type() names every type"
	// the strings the built-in returns
	var decided, bad string
	n := 0
	for _, b := range fn.Blocks {
		for _, ins := range b.Instrs {
			st, ok := ins.(*ssa.Store)
			if !ok {
				continue
			}
			fa, ok := st.Addr.(*ssa.FieldAddr)
			if !ok || objectStructName(fa.X.Type()) != "String" {
				continue
			}
			n++
			for _, o := range origins(st.Val) {
				switch x := o.(type) {
				case *ssa.Call:
					if cal := x.Call.StaticCallee(); cal != nil && cal.String() == "strings.ToLower" {
						// of the argument's Type()
						okArg := false
						for _, o2 := range origins(x.Call.Args[0]) {
							for {
								if cv, ok := o2.(*ssa.Convert); ok {
									o2 = cv.X
									continue
								}
								if ct, ok := o2.(*ssa.ChangeType); ok {
									o2 = ct.X
									continue
								}
								break
							}
							if c2, ok := o2.(*ssa.Call); ok && c2.Call.IsInvoke() && c2.Call.Method.Name() == "Type" {
								okArg = true
							}
						}
						if okArg {
							decided = "strings.ToLower of the argument's Type()"
						} else {
							bad = "the lower-cased text is not the argument's type name"
						}
						continue
					}
					bad = "the text returned is computed by " + strings.TrimPrefix(callKey(p, fn, x), "call ")
				case *ssa.Lookup:
					ld, ok := x.X.(*ssa.UnOp)
					if !ok {
						bad = "the name is looked up in a table this rule cannot read"
						continue
					}
					g, ok := ld.X.(*ssa.Global)
					if !ok || !globalNeverWritten(p, g) {
						bad = "the name is looked up in a table that is not a package-level literal, or is written at run time"
						continue
					}
					keys, vals, info, ok := globalMapLiteral(p, g)
					if !ok {
						bad = "the name is looked up in a table this rule cannot read"
						continue
					}
					have := map[string]string{}
					for i, k := range keys {
						if k.Kind() != constant.String {
							continue
						}
						if tv, has := info.Types[vals[i]]; has && tv.Value != nil && tv.Value.Kind() == constant.String {
							have[constant.StringVal(k)] = constant.StringVal(tv.Value)
						}
					}
					var missing []string
					for k, v := range want {
						if have[k] != v {
							missing = append(missing, strings.ToLower(k))
						}
					}
					sort.Strings(missing)
					if len(missing) > 0 {
						bad = "the table the name is looked up in has no (or a different) entry for " + strings.Join(missing, ", ") + ": type() of such a value is the empty string"
					} else {
						decided = fmt.Sprintf("a table with the lower-cased name of all %d types", len(want))
					}
				case *ssa.Const:
					bad = "a fixed text is returned whatever the argument is"
				default:
					bad = fmt.Sprintf("the text returned has an origin this rule does not know (%T)", o)
				}
			}
		}
	}
	switch {
	case bad != "":
		r.Fail(key, p.Pos(fn.Pos()), bad)
	case decided != "" && n > 0:
		r.OkNT(key, p.Pos(fn.Pos()), decided)
	default:
		r.Undecided(key, p.Pos(fn.Pos()), "cannot find the text type() returns")
	}
}

// ---------------------------------------------------------------------------
// R-FLOATINT

// unboundedFloatToInt: conversions of a float to an integer type in fn whose
// operand is not bounded from both sides by dominating comparisons.
func unboundedFloatToInt(fn *ssa.Function) []*ssa.Convert {
	var out []*ssa.Convert
	isFloat := func(t types.Type) bool {
		b, ok := t.Underlying().(*types.Basic)
		return ok && b.Info()&types.IsFloat != 0
	}
	for _, b := range fn.Blocks {
		for _, ins := range b.Instrs {
			cv, ok := ins.(*ssa.Convert)
			if !ok || !isFloat(cv.X.Type()) {
				continue
			}
			tb, ok := cv.Type().Underlying().(*types.Basic)
			if !ok || tb.Info()&types.IsInteger == 0 {
				continue
			}
			if _, isC := cv.X.(*ssa.Const); isC {
				continue
			}
			upper, lower := false, false
			for cur := b; cur.Idom() != nil; cur = cur.Idom() {
				d := cur.Idom()
				iff, ok := terminator(d).(*ssa.If)
				if !ok || len(d.Succs) != 2 {
					continue
				}
				onTrue := (d.Succs[0] == b || d.Succs[0].Dominates(b)) && len(d.Succs[0].Preds) == 1
				onFalse := (d.Succs[1] == b || d.Succs[1].Dominates(b)) && len(d.Succs[1].Preds) == 1
				if onTrue == onFalse {
					continue
				}
				bo, ok := iff.Cond.(*ssa.BinOp)
				if !ok {
					continue
				}
				op := bo.Op
				x, y := bo.X, bo.Y
				if _, isC := x.(*ssa.Const); isC {
					// C op v  ⇒  v op' C
					x, y = y, x
					switch op {
					case token.LSS:
						op = token.GTR
					case token.LEQ:
						op = token.GEQ
					case token.GTR:
						op = token.LSS
					case token.GEQ:
						op = token.LEQ
					}
				}
				if _, isC := y.(*ssa.Const); !isC {
					continue
				}
				if onFalse {
					switch op {
					case token.LSS:
						op = token.GEQ
					case token.LEQ:
						op = token.GTR
					case token.GTR:
						op = token.LEQ
					case token.GEQ:
						op = token.LSS
					default:
						continue
					}
				}
				abs := false
				if c, ok := x.(*ssa.Call); ok && c.Call.StaticCallee() != nil && c.Call.StaticCallee().String() == "math.Abs" && len(c.Call.Args) == 1 {
					x, abs = c.Call.Args[0], true
				}
				if x != cv.X {
					continue
				}
				switch op {
				case token.LSS, token.LEQ:
					upper = true
					if abs {
						lower = true
					}
				case token.GTR, token.GEQ:
					if !abs {
						lower = true
					}
				}
			}
			if !(upper && lower) {
				out = append(out, cv)
			}
		}
	}
	return out
}

const floatIntExample = `package t
import "math"
func toInt(v float64) int64 {
	if v == math.Trunc(v) {
		return int64(v)
	}
	return 0
}
func bounded(v float64) int64 {
	if v >= -9.2e18 && v <= 9.2e18 {
		return int64(v)
	}
	return 0
}
`

func ruleFloatInt(p *Program, r *Reporter) {
	n := 0
	for _, fn := range p.LibFns {
		if fnPkg(fn).Pkg.Path() != Mod+"/environment" {
			continue
		}
		for _, cv := range unboundedFloatToInt(fn) {
			n++
			r.Fail(siteKey(p, fn, cv.Pos(), "converts a float to an integer without a range check"), p.Pos(cv.Pos()), "a built-in converts a float to "+typeStr(cv.Type())+" and nothing on the way bounds the float from both sides: beyond ±2^63 (and for ±Inf and NaN) Go's conversion yields a machine-dependent number — int(10000000000000000000.0) becomes -9223372036854775808 instead of null")
		}
	}
	sp := buildExample(floatIntExample)
	hitBad, hitGood := 0, 0
	if sp != nil {
		if f := sp.Func("toInt"); f != nil {
			hitBad = len(unboundedFloatToInt(f))
		}
		if f := sp.Func("bounded"); f != nil {
			hitGood = len(unboundedFloatToInt(f))
		}
	}
	if hitBad != 1 || hitGood != 0 {
		r.Undecided("self-test", "-", fmt.Sprintf("the matcher gave %d/%d on its built-in examples (expected 1/0)", hitBad, hitGood))
	} else {
		r.OkNT("float-to-integer conversions in the built-ins", "-", fmt.Sprintf("%d unbounded found; matcher verified on built-in examples (one unbounded, one bounded)", n))
	}
}
