package main

// Rules written after round 7 of the seeding.

import (
	"fmt"
	"go/ast"
	"go/constant"
	"go/token"
	"go/types"
	"sort"
	"strings"

	"golang.org/x/tools/go/ssa"
)

func init() {
	register(&Rule{ID: "R-INFIXVIALOOP", Floor: 4, Run: ruleInfixViaLoop,
		Text: "Binary operators are applied by the precedence loop only: a parse function registered for an operator that takes a left operand (an infix parselet) is entered through the table, from the loop that compares precedences — never called directly by a parselet that has just read an operand —, the kinds of node such a parselet builds around its left operand are built nowhere else in the parser, and what it decides about its left operand it decides from the tree it was given, not from the token that happened to precede the operator (redundant parentheses leave no trace in the tree, but `)` is a different previous token).  An operator consumed outside the loop is never compared with the operator to its left: `a + b = 3` would mean `a + (b = 3)`."})
}

// infixParselets: the registered parse functions that take a left operand.
func infixParselets(p *Program) map[*ssa.Function]bool {
	out := map[*ssa.Function]bool{}
	for _, rg := range registrations(p) {
		if rg.method == nil {
			continue
		}
		ps := sigParams(rg.method)
		if len(ps) == 1 && isASTType(ps[0]) {
			out[rg.method] = true
		}
	}
	return out
}

func ruleInfixViaLoop(p *Program, r *Reporter) {
	infix := infixParselets(p)
	if len(infix) == 0 {
		r.Undecided("infix parselets", "-", "no registered parse function takes a left operand")
		return
	}
	var fns []*ssa.Function
	for f := range infix {
		fns = append(fns, f)
	}
	sort.Slice(fns, func(i, j int) bool { return p.FnName(fns[i]) < p.FnName(fns[j]) })

	// who an operand-taking parselet may be called by: another one, handing
	// on its own left operand; a function all of whose callers are such
	top := func(f *ssa.Function) *ssa.Function {
		for f.Parent() != nil {
			f = f.Parent()
		}
		return f
	}
	var infixOnly func(f *ssa.Function, depth int) bool
	infixOnly = func(f *ssa.Function, depth int) bool {
		f = top(f)
		if infix[f] {
			return true
		}
		if depth > 4 {
			return false
		}
		sites := staticCallSites(p, f)
		if len(sites) == 0 {
			return false
		}
		for _, s := range sites {
			if !infixOnly(s.Parent(), depth+1) {
				return false
			}
		}
		return true
	}
	for _, f := range fns {
		key := p.FnName(f) + "/entered through the operator table only"
		bad := ""
		var badPos token.Pos
		n := 0
		for _, s := range staticCallSites(p, f) {
			caller := s.Parent()
			if fnPkg(caller) == nil || !IsLibPath(fnPkg(caller).Pkg.Path()) {
				// the wrapper of a bound method value or method expression
				continue
			}
			n++
			if infixOnly(caller, 0) {
				continue
			}
			if bad == "" {
				bad = fmt.Sprintf("%s calls it directly: the operator it handles is consumed without being compared with the operator to the left of the operand, so it binds tighter than every operator there — `a + b = 3` groups as `a + (b = 3)` although the rules make it `(a + b) = 3`", p.FnName(caller))
				badPos = s.Pos()
			}
		}
		if bad != "" {
			r.Fail(key, p.Pos(badPos), bad)
			continue
		}
		r.OkNT(key, p.Pos(f.Pos()), fmt.Sprintf("%d direct call(s), each from a parselet that was itself entered with a left operand", n))
	}

	// the kinds of node built around a left operand
	built := map[*types.Named][]*ssa.Function{} // node type -> infix parselets that build it with their operand inside
	for _, f := range fns {
		if len(f.Params) < 2 {
			continue
		}
		left := f.Params[len(f.Params)-1]
		for _, b := range f.Blocks {
			for _, ins := range b.Instrs {
				st, ok := ins.(*ssa.Store)
				if !ok || !valueComesFrom(st.Val, left, 0) {
					continue
				}
				fa, ok := st.Addr.(*ssa.FieldAddr)
				if !ok {
					continue
				}
				al, ok := fa.X.(*ssa.Alloc)
				if !ok {
					continue
				}
				if nt, ok := types.Unalias(deref(al.Type())).(*types.Named); ok && isASTType(nt) {
					built[nt] = appendUniqueFn(built[nt], f)
				}
			}
		}
	}
	var nts []*types.Named
	for nt := range built {
		nts = append(nts, nt)
	}
	sort.Slice(nts, func(i, j int) bool { return nts[i].Obj().Name() < nts[j].Obj().Name() })
	for _, nt := range nts {
		key := "node " + nt.Obj().Name() + "/built around a left operand by operator parselets only"
		bad := ""
		var badPos token.Pos
		for _, fn := range parserFns(p) {
			if infixOnly(fn, 0) {
				continue
			}
			for _, b := range fn.Blocks {
				for _, ins := range b.Instrs {
					al, ok := ins.(*ssa.Alloc)
					if !ok {
						continue
					}
					if t, ok := types.Unalias(deref(al.Type())).(*types.Named); ok && t == nt && bad == "" {
						bad = fmt.Sprintf("%s builds a %s, the node the parselet(s) %s build around their left operand: an operator recognised here is applied without the precedence loop having compared it with its neighbours", p.FnName(fn), nt.Obj().Name(), fnNames(p, built[nt]))
						badPos = al.Pos()
					}
				}
			}
		}
		if bad != "" {
			r.Fail(key, p.Pos(badPos), bad)
			continue
		}
		r.OkNT(key, p.Pos(built[nt][0].Pos()), "built by "+fnNames(p, built[nt])+" only")
	}

	// the loop that applies the operators goes on or stops on what comes next —
	// the next token and the binding powers —, never on the token the operand
	// happened to end with
	if a, _ := p.Anchors(); a != nil && a.parseExpr != nil {
		pe := a.parseExpr
		readsCur := func(v ssa.Value) bool {
			seen := map[ssa.Value]bool{}
			var w func(v ssa.Value, d int) bool
			w = func(v ssa.Value, d int) bool {
				if v == nil || seen[v] || d > 6 {
					return false
				}
				seen[v] = true
				switch x := v.(type) {
				case *ssa.FieldAddr:
					if k := fieldKey(x); k == "parser.Parser.curToken" || k == "parser.Parser.prevToken" {
						return true
					}
					return w(x.X, d+1)
				case *ssa.UnOp:
					return w(x.X, d+1)
				case *ssa.BinOp:
					return w(x.X, d+1) || w(x.Y, d+1)
				case *ssa.Field:
					return w(x.X, d+1)
				case *ssa.Call:
					cal := x.Call.StaticCallee()
					if cal != nil && recvNamed(cal, "parser", "Parser") && len(sigResults(cal)) == 1 && isBoolType(sigResults(cal)[0]) {
						// what the helper's answer depends on: its branch conditions and
						// the values it returns (a token read for an error text does not
						// decide anything)
						for _, b := range cal.Blocks {
							switch t := terminator(b).(type) {
							case *ssa.If:
								if w(t.Cond, d+1) {
									return true
								}
							case *ssa.Return:
								if len(t.Results) == 1 && w(t.Results[0], d+1) {
									return true
								}
							}
						}
					}
				case *ssa.Phi:
					for _, e := range x.Edges {
						if w(e, d+1) {
							return true
						}
					}
				}
				return false
			}
			return w(v, 0)
		}
		bad := token.NoPos
		nLoops := 0
		for _, h := range pe.Blocks {
			var latches []*ssa.BasicBlock
			for _, pb := range h.Preds {
				if h.Dominates(pb) {
					latches = append(latches, pb)
				}
			}
			if len(latches) == 0 {
				continue
			}
			nLoops++
			body := map[*ssa.BasicBlock]bool{h: true}
			work := append([]*ssa.BasicBlock{}, latches...)
			for len(work) > 0 {
				x := work[len(work)-1]
				work = work[:len(work)-1]
				if body[x] {
					continue
				}
				body[x] = true
				work = append(work, x.Preds...)
			}
			for x := range body {
				iff, ok := terminator(x).(*ssa.If)
				if !ok {
					continue
				}
				leaves := false
				for _, sc := range x.Succs {
					if !body[sc] {
						leaves = true
					}
				}
				if leaves && readsCur(iff.Cond) && !bad.IsValid() {
					bad = posOr(iff.Cond.Pos(), firstPos(x))
				}
			}
		}
		if nLoops > 0 {
			r.Check(!bad.IsValid(), p.FnName(pe)+"/the operator loop stops on the next token and the binding powers only", p.Pos(posOr(bad, pe.Pos())), "no way out of the loop depends on the current or the previous token", "the loop that applies the operators is left on a condition that reads the current (or previous) token — the last token of the operand as it was written: with redundant parentheses round the operand that token is `)`, so `(len)(\"abc\")` is no longer the call that `len(\"abc\")` is")
		}
	}
	// the left operand is judged by the tree
	for _, f := range fns {
		key := p.FnName(f) + "/judges its left operand by the tree, not by the previous token"
		bad := ""
		var badPos token.Pos
		seen := map[*ssa.Function]bool{}
		var scan func(g *ssa.Function, depth int)
		scan = func(g *ssa.Function, depth int) {
			if seen[g] || depth > 2 || len(g.Blocks) == 0 {
				return
			}
			seen[g] = true
			for _, b := range g.Blocks {
				for _, ins := range b.Instrs {
					if fa, ok := ins.(*ssa.FieldAddr); ok && fieldKey(fa) == "parser.Parser.prevToken" && bad == "" && readsField(fa) {
						bad = fmt.Sprintf("%s reads the parser's previous token: that is the last token of the left operand as written — `)` when the operand stands in redundant parentheses, the name when it does not —, so `(f)(x)` and `f(x)` are told apart although they are the same tree", p.FnName(g))
						badPos = fa.Pos()
					}
					if c := callOf(ins); c != nil && c.StaticCallee() != nil && infixOnly(c.StaticCallee(), 0) && !infix[top(c.StaticCallee())] {
						scan(c.StaticCallee(), depth+1)
					}
				}
			}
			for _, an := range g.AnonFuncs {
				scan(an, depth)
			}
		}
		scan(f, 0)
		if bad != "" {
			r.Fail(key, p.Pos(badPos), bad)
			continue
		}
		r.OkNT(key, p.Pos(f.Pos()), "no read of the previous token")
	}
}

// readsField: the address is loaded from (not only stored to).
func readsField(fa *ssa.FieldAddr) bool {
	if fa.Referrers() == nil {
		return false
	}
	for _, ref := range *fa.Referrers() {
		switch x := ref.(type) {
		case *ssa.UnOp:
			if x.Op == token.MUL {
				return true
			}
		case *ssa.FieldAddr:
			if readsField(x) {
				return true
			}
		}
	}
	return false
}

// valueComesFrom: v is src, possibly behind conversions, interface
// constructions and φ-nodes.
func valueComesFrom(v ssa.Value, src ssa.Value, depth int) bool {
	if v == src {
		return true
	}
	if depth > 6 {
		return false
	}
	switch x := v.(type) {
	case *ssa.MakeInterface:
		return valueComesFrom(x.X, src, depth+1)
	case *ssa.ChangeInterface:
		return valueComesFrom(x.X, src, depth+1)
	case *ssa.ChangeType:
		return valueComesFrom(x.X, src, depth+1)
	case *ssa.TypeAssert:
		return valueComesFrom(x.X, src, depth+1)
	case *ssa.Extract:
		return valueComesFrom(x.Tuple, src, depth+1)
	case *ssa.Phi:
		for _, e := range x.Edges {
			if valueComesFrom(e, src, depth+1) {
				return true
			}
		}
	}
	return false
}

func appendUniqueFn(l []*ssa.Function, f *ssa.Function) []*ssa.Function {
	for _, x := range l {
		if x == f {
			return l
		}
	}
	return append(l, f)
}

func fnNames(p *Program, l []*ssa.Function) string {
	s := ""
	for i, f := range l {
		if i > 0 {
			s += ", "
		}
		s += p.FnName(f)
	}
	return s
}

// ---------------------------------------------------------------------------
// R-ALLMEMBERS

func init() {
	register(&Rule{ID: "R-ALLMEMBERS", Floor: 3, Run: ruleAllMembers,
		Text: "Every member of a host container reaches the script: in the machine's conversion of the host's object, each loop over the members of a reflected value (the fields of a struct, the keys of a map, the elements of a slice) stores or appends the converted member on every iteration, starts at the first member and ends after the last; an iteration is skipped, or the loop left early, only on a condition computed from the member itself (a key that cannot be a hash key), never on the machine's own state (which names the program mentions, how much has been converted).  A field that is left out reads as null although the object has it."})
}

func ruleAllMembers(p *Program, r *Reporter) {
	isReflectValue := func(t types.Type) bool { return isStdNamed(t, "reflect", "Value") }
	reflectCall := func(v ssa.Value, names ...string) bool {
		c, ok := v.(*ssa.Call)
		if !ok || c.Call.StaticCallee() == nil {
			return false
		}
		f := c.Call.StaticCallee()
		if f.Pkg == nil || f.Pkg.Pkg.Path() != "reflect" {
			return false
		}
		for _, n := range names {
			if f.Name() == n {
				return true
			}
		}
		return false
	}
	var fromReflectCount func(v ssa.Value, depth int) bool
	fromReflectCount = func(v ssa.Value, depth int) bool {
		if depth > 5 {
			return false
		}
		if reflectCall(v, "NumField", "Len") {
			return true
		}
		switch x := v.(type) {
		case *ssa.UnOp:
			if al, ok := x.X.(*ssa.Alloc); ok && x.Op == token.MUL && al.Referrers() != nil {
				n, okAll := 0, true
				for _, ref := range *al.Referrers() {
					if st, ok := ref.(*ssa.Store); ok && st.Addr == ssa.Value(al) {
						n++
						if !fromReflectCount(st.Val, depth+1) {
							okAll = false
						}
					}
				}
				return n > 0 && okAll
			}
		case *ssa.Call:
			// len(keys) of a range over []reflect.Value
			if bi, ok := x.Call.Value.(*ssa.Builtin); ok && bi.Name() == "len" && len(x.Call.Args) == 1 {
				if sl, ok := x.Call.Args[0].Type().Underlying().(*types.Slice); ok && isReflectValue(sl.Elem()) {
					return true
				}
			}
		}
		return false
	}
	n := 0
	for _, fn := range p.LibFns {
		if fnPkg(fn).Pkg.Path() != Mod+"/vm" || len(fn.Blocks) == 0 || fn.Signature.Recv() == nil || len(fn.Params) == 0 {
			continue
		}
		recv := fn.Params[0]
		dom := func(a, b *ssa.BasicBlock) bool { return a.Dominates(b) }
		loopNo := 0
		for _, h := range fn.Blocks {
			// natural loop headed by h
			var latches []*ssa.BasicBlock
			for _, pb := range h.Preds {
				if dom(h, pb) {
					latches = append(latches, pb)
				}
			}
			if len(latches) == 0 {
				continue
			}
			iff, ok := terminator(h).(*ssa.If)
			if !ok {
				continue
			}
			cmp, ok := iff.Cond.(*ssa.BinOp)
			if !ok || cmp.Op != token.LSS && cmp.Op != token.GTR && cmp.Op != token.LEQ && cmp.Op != token.NEQ && cmp.Op != token.GEQ {
				continue
			}
			if !fromReflectCount(cmp.Y, 0) && !fromReflectCount(cmp.X, 0) {
				continue
			}
			body := map[*ssa.BasicBlock]bool{h: true}
			work := append([]*ssa.BasicBlock{}, latches...)
			for len(work) > 0 {
				b := work[len(work)-1]
				work = work[:len(work)-1]
				if body[b] {
					continue
				}
				body[b] = true
				work = append(work, b.Preds...)
			}
			// the accumulating instructions
			acc := map[*ssa.BasicBlock]bool{}
			for b := range body {
				for _, ins := range b.Instrs {
					switch x := ins.(type) {
					case *ssa.MapUpdate:
						acc[b] = true
					case *ssa.Call:
						if bi, ok := x.Call.Value.(*ssa.Builtin); ok && bi.Name() == "append" {
							acc[b] = true
						}
					}
				}
			}
			if len(acc) == 0 {
				continue
			}
			loopNo++
			n++
			key := fmt.Sprintf("%s/loop %d over the members of a reflected value leaves none out", p.FnName(fn), loopNo)
			// counted from the first to the last
			if fromReflectCount(cmp.Y, 0) {
				why := ""
				if cmp.Op != token.LSS {
					why = "the loop does not run while index < count"
				} else if phi, ok := cmp.X.(*ssa.Phi); !ok || phi.Block() != h {
					// a range loop's index starts at -1 and is incremented before the test
					if bo, ok := cmp.X.(*ssa.BinOp); ok && bo.Op == token.ADD {
						if ph2, ok := bo.X.(*ssa.Phi); ok && ph2.Block() == h {
							if !phiStartsAt(ph2, h, -1) || !isIntConst(bo.Y, 1) {
								why = "the range index does not step through every position"
							}
						} else {
							why = "the loop index is not a counter of this loop"
						}
					} else {
						why = "the loop index is not a counter of this loop"
					}
				} else {
					if !phiStartsAt(phi, h, 0) {
						why = "the index does not start at 0: the first member is left out"
					}
					for i, e := range phi.Edges {
						if dom(h, h.Preds[i]) {
							bo, ok := e.(*ssa.BinOp)
							if !ok || bo.Op != token.ADD || bo.X != ssa.Value(phi) || !isIntConst(bo.Y, 1) {
								why = "the index is not advanced by one per iteration"
							}
						}
					}
				}
				if why != "" {
					r.Fail(key, p.Pos(posOr(cmp.Pos(), fn.Pos())), why+" — members of the host's container are left out of what the script sees")
					continue
				}
			}
			// canSkip: the latch (or the outside) can be reached without accumulating
			canSkip := map[*ssa.BasicBlock]bool{}
			for changed := true; changed; {
				changed = false
				for b := range body {
					if b == h || acc[b] || canSkip[b] {
						continue
					}
					for _, s := range b.Succs {
						if s == h || !body[s] || canSkip[s] {
							canSkip[b] = true
							changed = true
							break
						}
					}
				}
			}
			// reachable from the header without accumulating
			reach := map[*ssa.BasicBlock]bool{}
			var walk func(b *ssa.BasicBlock)
			walk = func(b *ssa.BasicBlock) {
				if reach[b] || !body[b] || b == h {
					return
				}
				reach[b] = true
				if acc[b] {
					return
				}
				for _, s := range b.Succs {
					walk(s)
				}
			}
			for _, s := range h.Succs {
				if body[s] {
					walk(s)
				}
			}
			bad := ""
			var badPos token.Pos
			uncond := false
			for b := range reach {
				if acc[b] || !canSkip[b] {
					continue
				}
				t, isIf := terminator(b).(*ssa.If)
				if !isIf {
					// falls to the latch without having accumulated: decided further up
					continue
				}
				differ := false
				var vals []bool
				for _, s := range b.Succs {
					vals = append(vals, s == h || !body[s] || canSkip[s])
				}
				differ = len(vals) == 2 && vals[0] != vals[1]
				if !differ {
					continue
				}
				if why := dependsOnMachine(t.Cond, recv, 0, map[ssa.Value]bool{}); why != "" && bad == "" {
					bad = "whether a member is left out (or the loop abandoned) depends on " + why
					badPos = t.Cond.Pos()
					if !badPos.IsValid() {
						badPos = firstPos(b)
					}
				}
			}
			for _, s := range h.Succs {
				if body[s] && canSkip[s] && !acc[s] {
					if _, isIf := terminator(s).(*ssa.If); !isIf && len(s.Succs) == 1 && s.Succs[0] == h {
						uncond = true
					}
				}
			}
			// early exits taken after accumulating
			for b := range body {
				if b == h || reach[b] && !acc[b] {
					continue
				}
				t, isIf := terminator(b).(*ssa.If)
				if !isIf {
					continue
				}
				out := false
				for _, s := range b.Succs {
					if !body[s] {
						out = true
					}
				}
				if out {
					if why := dependsOnMachine(t.Cond, recv, 0, map[ssa.Value]bool{}); why != "" && bad == "" {
						bad = "whether the loop is abandoned before the last member depends on " + why
						badPos = posOr(t.Cond.Pos(), firstPos(b))
					}
				}
			}
			switch {
			case uncond:
				r.Fail(key, p.Pos(firstPos(h)), "an iteration can end without the member having been stored")
			case bad != "":
				r.Fail(key, p.Pos(badPos), bad+": the script is shown a container without some of its members — a field nobody has mentioned *yet* (a name used only inside a function, or built at run time) reads as null although the object has it")
			default:
				r.OkNT(key, p.Pos(firstPos(h)), fmt.Sprintf("counted over the whole value; %d accumulating block(s); an iteration is skipped only on the member's own account", len(acc)))
			}
		}
	}
	if n == 0 {
		r.Undecided("member loops", "-", "no loop over the members of a reflected value found in the machine")
	}
}

func isIntConst(v ssa.Value, want int64) bool {
	k, ok := v.(*ssa.Const)
	if !ok || k.Value == nil {
		return false
	}
	i, ok := constantInt64(k)
	return ok && i == want
}

func constantInt64(k *ssa.Const) (int64, bool) {
	if k.Value == nil || k.Value.Kind() != constant.Int {
		return 0, false
	}
	return constant.Int64Val(k.Value)
}

// phiStartsAt: the edges that enter the loop from outside carry the constant.
func phiStartsAt(phi *ssa.Phi, h *ssa.BasicBlock, want int64) bool {
	n := 0
	for i, e := range phi.Edges {
		if h.Dominates(h.Preds[i]) {
			continue
		}
		n++
		if !isIntConst(e, want) {
			return false
		}
	}
	return n > 0
}

// dependsOnMachine: the value is computed from the state of the machine (a
// field of the receiver, a method of it other than a conversion of the member)
// — "" when it is computed from the reflected member alone.
func dependsOnMachine(v ssa.Value, recv *ssa.Parameter, depth int, seen map[ssa.Value]bool) string {
	if v == nil || seen[v] || depth > 10 {
		return ""
	}
	seen[v] = true
	switch x := v.(type) {
	case *ssa.Parameter:
		if x == recv {
			return "the machine itself"
		}
	case *ssa.FieldAddr:
		if x.X == ssa.Value(recv) {
			_, f, _ := fieldOf(x)
			return "the machine's field " + f
		}
		return dependsOnMachine(x.X, recv, depth+1, seen)
	case *ssa.UnOp:
		return dependsOnMachine(x.X, recv, depth+1, seen)
	case *ssa.BinOp:
		if why := dependsOnMachine(x.X, recv, depth+1, seen); why != "" {
			return why
		}
		return dependsOnMachine(x.Y, recv, depth+1, seen)
	case *ssa.Lookup:
		if why := dependsOnMachine(x.X, recv, depth+1, seen); why != "" {
			return why
		}
		return dependsOnMachine(x.Index, recv, depth+1, seen)
	case *ssa.IndexAddr:
		if why := dependsOnMachine(x.X, recv, depth+1, seen); why != "" {
			return why
		}
		return dependsOnMachine(x.Index, recv, depth+1, seen)
	case *ssa.Index:
		if why := dependsOnMachine(x.X, recv, depth+1, seen); why != "" {
			return why
		}
		return dependsOnMachine(x.Index, recv, depth+1, seen)
	case *ssa.Extract:
		return dependsOnMachine(x.Tuple, recv, depth+1, seen)
	case *ssa.TypeAssert:
		return dependsOnMachine(x.X, recv, depth+1, seen)
	case *ssa.MakeInterface:
		return dependsOnMachine(x.X, recv, depth+1, seen)
	case *ssa.ChangeInterface:
		return dependsOnMachine(x.X, recv, depth+1, seen)
	case *ssa.ChangeType:
		return dependsOnMachine(x.X, recv, depth+1, seen)
	case *ssa.Convert:
		return dependsOnMachine(x.X, recv, depth+1, seen)
	case *ssa.Phi:
		for _, e := range x.Edges {
			if why := dependsOnMachine(e, recv, depth+1, seen); why != "" {
				return why
			}
		}
	case *ssa.Call:
		cal := x.Call.StaticCallee()
		conv := false
		if cal != nil {
			rs := sigResults(cal)
			conv = len(rs) == 1 && isObjectIface(rs[0])
		}
		args := x.Call.Args
		if x.Call.IsInvoke() {
			if why := dependsOnMachine(x.Call.Value, recv, depth+1, seen); why != "" {
				return why
			}
		}
		for _, a := range args {
			if conv && a == ssa.Value(recv) {
				// the conversion of the member: its result stands for the member
				continue
			}
			if why := dependsOnMachine(a, recv, depth+1, seen); why != "" {
				if a == ssa.Value(recv) && cal != nil {
					return "the machine's state (through " + cal.Name() + ")"
				}
				return why
			}
		}
	}
	return ""
}

// ---------------------------------------------------------------------------
// R-NILBLOCK

func init() {
	register(&Rule{ID: "R-NILBLOCK", Floor: 2, Run: ruleNilBlock,
		Text: "A block that is not there does not crash the parser: the tree has fields of a concrete pointer type (the blocks of if / while / foreach / switch / function) which are nil when the construct has no such part or its parse failed, and a nil pointer of that type inside an interface is not a nil interface.  In everything that runs while a script is being parsed — the parser and the methods of the tree it calls — a value of such a type that was taken out of a field, out of an interface (a type-switch case, an assertion), received as a parameter or receiver, or returned by a parse function is dereferenced only where it has been compared with nil, or where every caller hands over a checked or freshly built one.  Prepare runs outside Execute's recover: a nil dereference there takes the host down."})
}

func ruleNilBlock(p *Program, r *Reporter) {
	// the nullable concrete node types
	nullable := map[*types.Named]bool{}
	astPkg := p.ByPath[Mod+"/ast"]
	if astPkg == nil {
		r.Undecided("ast package", "-", "package ast not loaded")
		return
	}
	sc := astPkg.Types.Scope()
	for _, nm := range sc.Names() {
		tn, ok := sc.Lookup(nm).(*types.TypeName)
		if !ok {
			continue
		}
		st, ok := tn.Type().Underlying().(*types.Struct)
		if !ok {
			continue
		}
		for i := 0; i < st.NumFields(); i++ {
			if pt, ok := st.Field(i).Type().(*types.Pointer); ok {
				if nt, ok := types.Unalias(pt.Elem()).(*types.Named); ok && nt.Obj().Pkg() == astPkg.Types {
					if _, isStruct := nt.Underlying().(*types.Struct); isStruct {
						nullable[nt] = true
					}
				}
			}
		}
	}
	if len(nullable) == 0 {
		r.Info("nullable node types", "-", "no field of the tree has a concrete pointer type")
		return
	}
	isNullablePtr := func(t types.Type) bool {
		pt, ok := t.(*types.Pointer)
		if !ok {
			return false
		}
		nt, ok := types.Unalias(pt.Elem()).(*types.Named)
		return ok && nullable[nt]
	}
	roots := parserFns(p)
	reach := p.Reachable(roots...)
	var scope []*ssa.Function
	for fn := range reach {
		if fnPkg(fn) == nil || len(fn.Blocks) == 0 {
			continue
		}
		pp := fnPkg(fn).Pkg.Path()
		if pp == Mod+"/parser" || pp == Mod+"/ast" {
			scope = append(scope, fn)
		}
	}
	sort.Slice(scope, func(i, j int) bool { return p.FnName(scope[i]) < p.FnName(scope[j]) })

	// checkedAt: v is known non-nil in block b
	checkedAt := func(v ssa.Value, b *ssa.BasicBlock) bool {
		fn := b.Parent()
		for _, x := range fn.Blocks {
			iff, ok := terminator(x).(*ssa.If)
			if !ok || len(x.Succs) != 2 {
				continue
			}
			bo, ok := iff.Cond.(*ssa.BinOp)
			if !ok || bo.Op != token.NEQ && bo.Op != token.EQL {
				continue
			}
			var other ssa.Value
			switch {
			case sameNilable(bo.X, v):
				other = bo.Y
			case sameNilable(bo.Y, v):
				other = bo.X
			default:
				continue
			}
			if k, ok := other.(*ssa.Const); !ok || !k.IsNil() {
				continue
			}
			good := x.Succs[0]
			if bo.Op == token.EQL {
				good = x.Succs[1]
			}
			if len(good.Preds) == 1 && good.Dominates(b) {
				return true
			}
		}
		return false
	}
	// derefs of v: field addresses through it (a method call with it as
	// receiver is judged in the method)
	derefs := func(v ssa.Value) []ssa.Instruction {
		var out []ssa.Instruction
		if v.Referrers() == nil {
			return nil
		}
		for _, ref := range *v.Referrers() {
			switch x := ref.(type) {
			case *ssa.FieldAddr:
				if x.X == v {
					out = append(out, x)
				}
			case *ssa.UnOp:
				if x.Op == token.MUL && x.X == v {
					out = append(out, x)
				}
			}
		}
		return out
	}
	fresh := func(v ssa.Value) bool {
		_, ok := v.(*ssa.Alloc)
		return ok
	}
	namedOfPtr := func(t types.Type) *types.Named {
		pt, ok := t.(*types.Pointer)
		if !ok {
			return nil
		}
		nt, _ := types.Unalias(pt.Elem()).(*types.Named)
		return nt
	}
	// the nullable types of which a possibly-nil pointer is put into an
	// interface somewhere in what runs while parsing
	nilInIface := map[*types.Named]token.Pos{}
	for _, fn := range scope {
		for _, b := range fn.Blocks {
			for _, ins := range b.Instrs {
				mi, ok := ins.(*ssa.MakeInterface)
				if !ok || !isNullablePtr(mi.X.Type()) || fresh(mi.X) || checkedAt(mi.X, b) {
					continue
				}
				if nt := namedOfPtr(mi.X.Type()); nt != nil {
					if _, seen := nilInIface[nt]; !seen {
						nilInIface[nt] = mi.Pos()
					}
				}
			}
		}
	}
	n := 0
	for _, fn := range scope {
		type src struct {
			v    ssa.Value
			what string
			par  int // parameter index, or -1
		}
		var srcs []src
		for i, prm := range fn.Params {
			if isNullablePtr(prm.Type()) {
				srcs = append(srcs, src{prm, "parameter " + prm.Name(), i})
			}
		}
		for _, b := range fn.Blocks {
			for _, ins := range b.Instrs {
				v, ok := ins.(ssa.Value)
				if !ok {
					continue
				}
				switch x := ins.(type) {
				case *ssa.TypeAssert:
					if !x.CommaOk && isNullablePtr(x.AssertedType) {
						if _, can := nilInIface[namedOfPtr(x.AssertedType)]; can {
							srcs = append(srcs, src{v, "a value taken out of an interface", -1})
						}
					}
				case *ssa.Extract:
					if ta, ok := x.Tuple.(*ssa.TypeAssert); ok && x.Index == 0 && isNullablePtr(ta.AssertedType) {
						if _, can := nilInIface[namedOfPtr(ta.AssertedType)]; can {
							srcs = append(srcs, src{v, "a value taken out of an interface", -1})
						}
					} else if _, isTA := x.Tuple.(*ssa.TypeAssert); !isTA && isNullablePtr(x.Type()) {
						srcs = append(srcs, src{v, "a result of a call", -1})
					}
				case *ssa.UnOp:
					if x.Op == token.MUL && isNullablePtr(x.Type()) {
						if _, isFA := x.X.(*ssa.FieldAddr); isFA {
							srcs = append(srcs, src{v, "a block field of the tree", -1})
						}
					}
				case *ssa.Call:
					if isNullablePtr(x.Type()) {
						srcs = append(srcs, src{v, "the result of " + calleeName(p, x), -1})
					}
				case *ssa.Phi:
					if isNullablePtr(x.Type()) {
						srcs = append(srcs, src{v, "a variable", -1})
					}
				}
			}
		}
		for _, s := range srcs {
			ds := derefs(s.v)
			if len(ds) == 0 {
				continue
			}
			n++
			var first ssa.Instruction
			for _, d := range ds {
				if !checkedAt(s.v, d.Block()) {
					first = d
					break
				}
			}
			key := fmt.Sprintf("%s/%s of a nullable node type is dereferenced only where it is not nil", p.FnName(fn), s.what)
			if first == nil {
				r.OkNT(key, p.Pos(ds[0].Pos()), fmt.Sprintf("%d dereference(s), each after a comparison with nil", len(ds)))
				continue
			}
			// a parameter: every caller may vouch for it
			if s.par >= 0 {
				sites := staticCallSites(p, fn)
				vouched := len(sites) > 0
				if invokedDynamically(p, fn) {
					// a method reached through an interface: its receiver is nil
					// there only if a possibly-nil pointer of the type is put
					// into an interface somewhere
					if _, can := nilInIface[namedOfPtr(s.v.Type())]; can || s.par != 0 || fn.Signature.Recv() == nil {
						vouched = false
					} else if len(sites) == 0 {
						r.OkNT(key, p.Pos(first.Pos()), "not compared with nil here; reached through an interface only, and no possibly-nil pointer of this type is put into an interface while parsing")
						continue
					}
				}
				for _, site := range sites {
					args := site.Common().Args
					if s.par >= len(args) {
						vouched = false
						break
					}
					a := args[s.par]
					if !(fresh(a) || checkedAt(a, site.Block())) {
						vouched = false
					}
				}
				if vouched {
					r.OkNT(key, p.Pos(first.Pos()), fmt.Sprintf("not compared with nil here; each of the %d caller(s) hands over a checked or freshly built one", len(sites)))
					continue
				}
			}
			r.Fail(key, p.Pos(posOr(first.Pos(), fn.Pos())), "dereferenced without a comparison with nil: the blocks of if (else), while, foreach, switch and function are nil pointers when the part is absent or its parse failed — `while (1) { return 1 } ? 2 : 3;` keeps the while node with a nil body — and a nil *BlockStatement inside an interface still selects the *BlockStatement case of a type switch; this runs during Prepare, outside the recover")
		}
	}
	if n == 0 {
		r.Undecided("nullable node uses", "-", "no dereference of a nullable node type found in the parser or the tree's methods")
	}
}

// sameNilable: a and b are the same value (or loads of the same field
// address in one block with no store between — kept simple: identical).
func sameNilable(a, b ssa.Value) bool { return a == b }

func calleeName(p *Program, c *ssa.Call) string {
	if f := c.Call.StaticCallee(); f != nil {
		return p.FnName(f)
	}
	if c.Call.IsInvoke() {
		return c.Call.Method.Name()
	}
	return "a function value"
}

// invokedDynamically: the function is (also) reached through an interface
// method call or a function value — its static call sites are not all its callers.
func invokedDynamically(p *Program, fn *ssa.Function) bool {
	nd := p.CallGraph().Nodes[fn]
	if nd == nil {
		return false
	}
	for _, e := range nd.In {
		if e.Site == nil {
			return true
		}
		if e.Site.Common().StaticCallee() != fn {
			return true
		}
	}
	return false
}

// ---------------------------------------------------------------------------
// R-NORELOCATE

func init() {
	register(&Rule{ID: "R-NORELOCATE", Floor: 3, Run: ruleNoRelocate,
		Text: "Translated code stays where it was emitted: jumps carry absolute offsets, computed from the length of the instruction buffer at the moment they are emitted or patched, so a sequence of instructions is only right at the offset it was emitted at.  The compiler's instruction buffer therefore grows through the emitter only; every other store into it is a fresh empty buffer or puts back, unchanged, a buffer that was saved from it before (the function-body and throw-away translations).  Instructions translated into a scratch buffer and appended elsewhere arrive with their jumps pointing into the wrong place."})
}

func ruleNoRelocate(p *Program, r *Reporter) {
	a := needAnchors(p, r)
	if a == nil {
		return
	}
	const field = "evalfilter.Eval.instructions"
	// a value that is a buffer taken out of the field earlier, unchanged
	var saved func(v ssa.Value, depth int, seen map[ssa.Value]bool) bool
	saved = func(v ssa.Value, depth int, seen map[ssa.Value]bool) bool {
		if v == nil || seen[v] || depth > 6 {
			return false
		}
		seen[v] = true
		switch x := v.(type) {
		case *ssa.UnOp:
			if x.Op != token.MUL {
				return false
			}
			if fieldKey(x.X) == field {
				return true
			}
			if al, ok := x.X.(*ssa.Alloc); ok && al.Referrers() != nil {
				n := 0
				for _, ref := range *al.Referrers() {
					if st, ok := ref.(*ssa.Store); ok && st.Addr == ssa.Value(al) {
						n++
						if !saved(st.Val, depth+1, seen) {
							return false
						}
					}
				}
				return n > 0
			}
			// a field of a saved-state struct: every store into that field is a saved buffer
			if fa, ok := x.X.(*ssa.FieldAddr); ok {
				owner, f, ok := fieldOf(fa)
				if !ok {
					return false
				}
				n := 0
				for _, fn := range p.LibFns {
					for _, b := range fn.Blocks {
						for _, ins := range b.Instrs {
							st, ok := ins.(*ssa.Store)
							if !ok {
								continue
							}
							o2, f2, ok := fieldOf(st.Addr)
							if !ok || o2 != owner || f2 != f {
								continue
							}
							n++
							if !saved(st.Val, depth+1, seen) {
								return false
							}
						}
					}
				}
				return n > 0
			}
		case *ssa.Phi:
			for _, e := range x.Edges {
				if !saved(e, depth+1, seen) {
					return false
				}
			}
			return len(x.Edges) > 0
		case *ssa.ChangeType:
			return saved(x.X, depth+1, seen)
		case *ssa.Parameter:
			// handed in: what every caller passes
			fn := x.Parent()
			k := -1
			for i, q := range fn.Params {
				if q == x {
					k = i
				}
			}
			sites := staticCallSites(p, fn)
			if k < 0 || len(sites) == 0 {
				return false
			}
			for _, s := range sites {
				if k >= len(s.Common().Args) || !saved(s.Common().Args[k], depth+1, seen) {
					return false
				}
			}
			return true
		}
		return false
	}
	emptyBuffer := func(v ssa.Value) bool {
		switch x := v.(type) {
		case *ssa.Const:
			return x.IsNil()
		case *ssa.MakeSlice:
			k, ok := x.Len.(*ssa.Const)
			return ok && isIntConst(k, 0)
		case *ssa.Slice:
			// a composite literal code.Instructions{}: a slice of a fresh zero-length array
			if al, ok := x.X.(*ssa.Alloc); ok {
				if at, ok := deref(al.Type()).Underlying().(*types.Array); ok && at.Len() == 0 {
					return true
				}
			}
		case *ssa.ChangeType:
			if k, ok := x.X.(*ssa.Const); ok {
				return k.IsNil()
			}
		}
		return false
	}
	n := 0
	nth := map[string]int{}
	for _, fn := range p.LibFns {
		if fnPkg(fn).Pkg.Path() != Mod {
			continue
		}
		for _, b := range fn.Blocks {
			for _, ins := range b.Instrs {
				st, ok := ins.(*ssa.Store)
				if !ok || fieldKey(st.Addr) != field {
					continue
				}
				n++
				nth[p.FnName(fn)]++
				key := fmt.Sprintf("%s/store %d into the instruction buffer keeps every instruction at the offset it was emitted at", p.FnName(fn), nth[p.FnName(fn)])
				isEmitter := false
				for _, part := range emitterParts(a) {
					if top(fn) == part {
						isEmitter = true
					}
				}
				switch {
				case isEmitter:
					r.OkNT(key, p.Pos(st.Pos()), "the emitter appends the instruction it encodes")
				case emptyBuffer(st.Val):
					r.OkNT(key, p.Pos(st.Pos()), "a fresh empty buffer")
				case saved(st.Val, 0, map[ssa.Value]bool{}):
					r.OkNT(key, p.Pos(st.Pos()), "puts back a buffer saved from the same field")
				default:
					r.Fail(key, p.Pos(st.Pos()), "the buffer is given a value that is neither empty nor a buffer saved from it, outside the emitter: instructions that were translated elsewhere (a scratch buffer, a cache of an earlier translation) are placed at another offset than the one their jumps were computed for — a ternary in a switch subject that is translated once and copied in front of every case jumps into the middle of other instructions")
				}
			}
		}
	}
	if n == 0 {
		r.Undecided("instruction buffer", "-", "no store into the compiler's instruction buffer found")
	}
}

func top(f *ssa.Function) *ssa.Function {
	for f.Parent() != nil {
		f = f.Parent()
	}
	return f
}

// ---------------------------------------------------------------------------
// R-TREEKEEP

func init() {
	register(&Rule{ID: "R-TREEKEEP", Floor: 1, Run: ruleTreeKeep,
		Text: "What the parser has parsed stays in the tree: inside a loop of a parse function, a sub-tree made in this iteration is not stored into a field of a node that is the same in every iteration unless the loop ends there or the field's previous content is part of the new one (append) — otherwise each turn overwrites what the turn before stored, and all but the last of the parsed parts are silently dropped (every `else if` hung on the first `if`: the middle arms are never tested).  (Expected count on the unmodified tree: zero stores of that kind; the obligations list the tree-building loops that were looked at, and the matcher is run on a built-in positive example.)"})
}

// overwritingStores: stores in a loop of fn that put an iteration's own
// sub-tree into a field of a loop-invariant node and go round again.
func overwritingStores(fn *ssa.Function, isTree func(types.Type) bool) (loops int, bad []*ssa.Store) {
	for _, h := range fn.Blocks {
		var latches []*ssa.BasicBlock
		for _, pb := range h.Preds {
			if h.Dominates(pb) {
				latches = append(latches, pb)
			}
		}
		if len(latches) == 0 {
			continue
		}
		body := map[*ssa.BasicBlock]bool{h: true}
		work := append([]*ssa.BasicBlock{}, latches...)
		for len(work) > 0 {
			b := work[len(work)-1]
			work = work[:len(work)-1]
			if body[b] {
				continue
			}
			body[b] = true
			work = append(work, b.Preds...)
		}
		inLoop := func(v ssa.Value) bool {
			ins, ok := v.(ssa.Instruction)
			return ok && ins.Block() != nil && body[ins.Block()]
		}
		counted := false
		for b := range body {
			for _, ins := range b.Instrs {
				st, ok := ins.(*ssa.Store)
				if !ok {
					continue
				}
				fa, ok := st.Addr.(*ssa.FieldAddr)
				if !ok || !isTree(deref(fa.Type())) || !isTree(fa.X.Type()) {
					continue
				}
				if !counted {
					counted = true
					loops++
				}
				if inLoop(fa.X) {
					continue // the node changes from turn to turn (a cursor along a chain)
				}
				if !inLoop(st.Val) {
					continue
				}
				// the previous content is part of the new one
				if dependsOnLoadOf(st.Val, fa, 0, map[ssa.Value]bool{}) {
					continue
				}
				// the loop goes round again after the store
				again := false
				seen := map[*ssa.BasicBlock]bool{}
				var walk func(x *ssa.BasicBlock)
				walk = func(x *ssa.BasicBlock) {
					if seen[x] || !body[x] {
						return
					}
					seen[x] = true
					for _, s := range x.Succs {
						if s == h {
							again = true
						}
						walk(s)
					}
				}
				walk(b)
				if again {
					bad = append(bad, st)
				}
			}
		}
	}
	return
}

// dependsOnLoadOf: v is computed from a load of the same field of the same node.
func dependsOnLoadOf(v ssa.Value, fa *ssa.FieldAddr, depth int, seen map[ssa.Value]bool) bool {
	if v == nil || seen[v] || depth > 6 {
		return false
	}
	seen[v] = true
	switch x := v.(type) {
	case *ssa.UnOp:
		if f2, ok := x.X.(*ssa.FieldAddr); ok && x.Op == token.MUL && f2.X == fa.X && f2.Field == fa.Field {
			return true
		}
		if al, ok := x.X.(*ssa.Alloc); ok && al.Referrers() != nil {
			for _, ref := range *al.Referrers() {
				if st, ok := ref.(*ssa.Store); ok && st.Addr == ssa.Value(al) && dependsOnLoadOf(st.Val, fa, depth+1, seen) {
					return true
				}
			}
		}
	case *ssa.Call:
		for _, a := range x.Call.Args {
			if dependsOnLoadOf(a, fa, depth+1, seen) {
				return true
			}
		}
	case *ssa.Phi:
		for _, e := range x.Edges {
			if dependsOnLoadOf(e, fa, depth+1, seen) {
				return true
			}
		}
	case *ssa.Slice:
		return dependsOnLoadOf(x.X, fa, depth+1, seen)
	case *ssa.ChangeType:
		return dependsOnLoadOf(x.X, fa, depth+1, seen)
	}
	return false
}

func ruleTreeKeep(p *Program, r *Reporter) {
	isTree := func(t types.Type) bool { return isASTType(t) }
	total := 0
	for _, fn := range parserFns(p) {
		if len(fn.Blocks) == 0 {
			continue
		}
		loops, bad := overwritingStores(fn, isTree)
		if loops == 0 {
			continue
		}
		total += loops
		key := p.FnName(fn) + "/no turn of a loop overwrites the sub-tree the turn before put into the tree"
		if len(bad) > 0 {
			st := bad[0]
			_, f, _ := fieldOf(st.Addr)
			r.Fail(key, p.Pos(st.Pos()), fmt.Sprintf("the field %s of a node that is the same in every turn of the loop is given a sub-tree made in this turn, and the loop goes on: the next turn overwrites it, so of the parts parsed by the loop only the last survives — `if (a) {…} else if (b) {…} else if (c) {…}` loses the arm for b, whose condition is then never tested", f))
			continue
		}
		r.OkNT(key, p.Pos(fn.Pos()), fmt.Sprintf("%d tree-building loop(s): each store is to the node of this turn, ends the loop, or extends what the field held", loops))
	}
	// the matcher must still match
	isTk := func(t types.Type) bool {
		n, ok := types.Unalias(deref(t)).(*types.Named)
		return ok && n.Obj().Name() == "tkNode"
	}
	hitBad, hitGood := -1, -1
	if sp := buildExample(treeKeepExample); sp != nil {
		if f := sp.Func("hungOnFirst"); f != nil {
			_, bad := overwritingStores(f, isTk)
			hitBad = len(bad)
		}
		if f := sp.Func("chained"); f != nil {
			_, bad := overwritingStores(f, isTk)
			hitGood = len(bad)
		}
	}
	if hitBad != 1 || hitGood != 0 {
		r.Undecided("self-test", "-", fmt.Sprintf("the matcher gave %d/%d on its built-in examples (expected 1/0)", hitBad, hitGood))
	} else {
		r.OkNT("self-test", "-", "matcher verified on built-in examples (a chain hung on its first node, a chain linked node to node)")
	}
	if total == 0 {
		r.Info("tree-building loops", "-", "no loop of a parse function stores a sub-tree into a node's field directly (lists are built in local variables)")
	}
}

const treeKeepExample = `package t
type tkNode struct {
	next *tkNode
	val  int
}
func more() bool
func hungOnFirst() *tkNode {
	first := &tkNode{}
	last := first
	for more() {
		n := &tkNode{val: 1}
		first.next = n
		last = n
	}
	_ = last
	return first
}
func chained() *tkNode {
	first := &tkNode{}
	last := first
	for more() {
		n := &tkNode{val: 1}
		last.next = n
		last = n
		if !more() {
			first.next = &tkNode{}
			break
		}
	}
	return first
}
`

// ---------------------------------------------------------------------------
// R-HOSTMETHODS

func init() {
	register(&Rule{ID: "R-HOSTMETHODS", Floor: 2, Run: ruleHostMethods,
		Text: "The library looks at the host's data, it does not run it: a value of the object a script is run against — a reflect.Value, or what Interface() takes out of one — is never handed to package fmt under a verb that calls the value's own String / Error / Format / GoString method (every verb but %T does, at any depth of an exported structure), and no method is called on it through an interface it was asserted to.  Those methods are code of the host that was never registered as a function; with only the built-ins registered, running a script must not execute it (it may write a file).  The obligations are the formatting calls and interface calls that receive such a value."})
}

// fmtFuncs: the formatting functions of package fmt and the index of their
// format string (-1: none; every operand is formatted with %v).
var fmtFuncs = map[string]int{
	"fmt.Sprintf": 0, "fmt.Printf": 0, "fmt.Errorf": 0, "fmt.Fprintf": 1, "fmt.Appendf": 1,
	"fmt.Sprint": -1, "fmt.Sprintln": -1, "fmt.Print": -1, "fmt.Println": -1, "fmt.Fprint": -1, "fmt.Fprintln": -1,
	"fmt.Append": -1, "fmt.Appendln": -1,
}

func ruleHostMethods(p *Program, r *Reporter) {
	isReflectValue := func(t types.Type) bool { return isStdNamed(t, "reflect", "Value") && !isPointer(t) }
	// hostValue: v is (or carries) a value of the host's object
	var hostValue func(v ssa.Value, depth int, seen map[ssa.Value]bool) bool
	hostValue = func(v ssa.Value, depth int, seen map[ssa.Value]bool) bool {
		if v == nil || seen[v] || depth > 8 {
			return false
		}
		seen[v] = true
		if isReflectValue(v.Type()) {
			return true
		}
		switch x := v.(type) {
		case *ssa.Call:
			if f := x.Call.StaticCallee(); f != nil && f.Pkg != nil && f.Pkg.Pkg.Path() == "reflect" && f.Name() == "Interface" {
				return true
			}
		case *ssa.MakeInterface:
			return hostValue(x.X, depth+1, seen)
		case *ssa.ChangeInterface:
			return hostValue(x.X, depth+1, seen)
		case *ssa.TypeAssert:
			// asserted to a concrete type of the standard library or a basic
			// type: its methods are not the host's
			if _, isIface := x.AssertedType.Underlying().(*types.Interface); !isIface {
				return false
			}
			return hostValue(x.X, depth+1, seen)
		case *ssa.Extract:
			return hostValue(x.Tuple, depth+1, seen)
		case *ssa.Phi:
			for _, e := range x.Edges {
				if hostValue(e, depth+1, seen) {
					return true
				}
			}
		case *ssa.UnOp:
			if al, ok := x.X.(*ssa.Alloc); ok && x.Op == token.MUL && al.Referrers() != nil {
				for _, ref := range *al.Referrers() {
					if st, ok := ref.(*ssa.Store); ok && st.Addr == ssa.Value(al) && hostValue(st.Val, depth+1, seen) {
						return true
					}
				}
			}
		}
		return false
	}
	n := 0
	for _, fn := range p.LibFns {
		nth := 0
		for _, b := range fn.Blocks {
			for _, ins := range b.Instrs {
				cc := callOf(ins)
				if cc == nil {
					continue
				}
				// a method called on the host's value through an interface
				if cc.IsInvoke() && hostValue(cc.Value, 0, map[ssa.Value]bool{}) && !isStdIface(cc.Value.Type()) {
					n++
					nth++
					r.Fail(fmt.Sprintf("%s/call %d of a method of the host's value", p.FnName(fn), nth), p.Pos(ins.Pos()), "the method "+cc.Method.Name()+" is called on a value taken out of the host's object: that is code of the host that was not registered as a function")
					continue
				}
				fidx, isFmt := fmtFuncs[calleeFullName(cc)]
				if !isFmt || len(cc.Args) == 0 {
					continue
				}
				vals, known := varargsOf(cc.Args[len(cc.Args)-1])
				var hostArgs []int
				if !known {
					continue // a slice built elsewhere: R-FMTCONST's business (the built-ins format script values)
				}
				for i, a := range vals {
					if a != nil && hostValue(a, 0, map[ssa.Value]bool{}) {
						hostArgs = append(hostArgs, i)
					}
				}
				if len(hostArgs) == 0 {
					continue
				}
				n++
				nth++
				key := fmt.Sprintf("%s/formatting call %d that is given a value of the host's object does not run the value's methods", p.FnName(fn), nth)
				verbs := []byte(nil)
				verbsKnown := false
				if fidx >= 0 && fidx < len(cc.Args) {
					if k, ok := cc.Args[fidx].(*ssa.Const); ok && k.Value != nil && k.Value.Kind() == constant.String {
						verbs, verbsKnown = formatVerbs(constant.StringVal(k.Value))
					}
				}
				bad := -1
				for _, i := range hostArgs {
					if !verbsKnown || i >= len(verbs) || verbs[i] != 'T' {
						bad = i
						break
					}
				}
				if bad < 0 {
					r.OkNT(key, p.Pos(ins.Pos()), fmt.Sprintf("operand(s) %v are printed with %%T only: the type's name, no method of the value", hostArgs))
					continue
				}
				verb := "%v"
				if verbsKnown && bad < len(verbs) {
					verb = "%" + string(verbs[bad])
				}
				r.Fail(key, p.Pos(ins.Pos()), fmt.Sprintf("operand %d is a value of the host's object and is formatted with %s: package fmt takes the concrete value out (also out of a reflect.Value) and calls its Format, Error or String method if it has one — a method of the host's *data*, which may do anything (write a file), runs because a script was executed, although no function was registered; only %%T looks at the type alone", bad+1, verb))
			}
		}
	}
	// the matcher must still match
	hit := -1
	if sp := buildExample(hostMethodsExample); sp != nil {
		if f := sp.Func("text"); f != nil {
			hit = 0
			for _, b := range f.Blocks {
				for _, ins := range b.Instrs {
					if cc := callOf(ins); cc != nil {
						if _, isFmt := fmtFuncs[calleeFullName(cc)]; isFmt {
							vals, _ := varargsOf(cc.Args[len(cc.Args)-1])
							for _, a := range vals {
								if a != nil && hostValue(a, 0, map[ssa.Value]bool{}) {
									hit++
								}
							}
						}
					}
				}
			}
		}
	}
	if hit != 2 {
		r.Undecided("self-test", "-", fmt.Sprintf("the matcher found %d host operands in the built-in example (expected 2)", hit))
	} else {
		r.OkNT("self-test", "-", fmt.Sprintf("%d formatting / interface call(s) receive a value of the host's object; matcher verified on a built-in example", n))
	}
}

// isStdIface: an interface type declared in the standard library whose
// implementations a reflect.Value-derived value cannot be (reflect.Type).
func isStdIface(t types.Type) bool {
	return isStdNamed(t, "reflect", "Type")
}

// formatVerbs: the verb letters of a format string, one per operand, in
// order; false when the string uses explicit argument indexes or `*`.
func formatVerbs(f string) ([]byte, bool) {
	var out []byte
	for i := 0; i < len(f); i++ {
		if f[i] != '%' {
			continue
		}
		i++
		for i < len(f) && (f[i] == '+' || f[i] == '-' || f[i] == '#' || f[i] == ' ' || f[i] == '0' || f[i] >= '1' && f[i] <= '9' || f[i] == '.') {
			i++
		}
		if i >= len(f) {
			break
		}
		if f[i] == '[' || f[i] == '*' {
			return nil, false
		}
		if f[i] == '%' {
			continue
		}
		out = append(out, f[i])
	}
	return out, true
}

const hostMethodsExample = `package t
import (
	"fmt"
	"reflect"
)
func text(v reflect.Value) string {
	return fmt.Sprintf("%v %T", v, v.Interface())
}
`

// ---------------------------------------------------------------------------
// R-KINDREACH

func init() {
	register(&Rule{ID: "R-KINDREACH", Floor: 10, Run: ruleKindReach,
		Text: "A host value of a kind the engine represents is converted whatever the value is: in the function that switches on the reflect.Kind of a host value, for every kind of the documented table (the signed integers, the small unsigned ones, the floats, string, bool, slice, map) no path that the kind admits ends in a freshly made null — a nil slice is a slice of no elements and becomes the empty array, a nil map the empty hash, a zero a zero.  (Path-sensitive walk of the function for each kind: comparisons of the kind are decided, the validity test is taken as passed, results of the module's own conversion functions are non-nil by R-NONNIL.)"})
}

func ruleKindReach(p *Program, r *Reporter) {
	// the parts of the kind switch: functions of the machine from a reflected
	// value to an object that compare the kind of their parameter
	parts := map[*ssa.Function]bool{}
	for _, fn := range p.LibFns {
		if fnPkg(fn).Pkg.Path() != Mod+"/vm" || fn.Parent() != nil || len(fn.Blocks) == 0 {
			continue
		}
		ps, rs := sigParams(fn), sigResults(fn)
		if len(ps) != 1 || !isStdNamed(ps[0], "reflect", "Value") || len(rs) != 1 || !isObjectIface(rs[0]) {
			continue
		}
		for _, b := range fn.Blocks {
			for _, ins := range b.Instrs {
				if bo, ok := ins.(*ssa.BinOp); ok && bo.Op == token.EQL && isStdNamed(bo.X.Type(), "reflect", "Kind") {
					parts[fn] = true
				}
			}
		}
	}
	// the entry: the part that functions which are not parts call
	var conv *ssa.Function
	total := 0
	for fn := range parts {
		n := 0
		for _, b := range fn.Blocks {
			for _, ins := range b.Instrs {
				if bo, ok := ins.(*ssa.BinOp); ok && bo.Op == token.EQL && isStdNamed(bo.X.Type(), "reflect", "Kind") {
					n++
				}
			}
		}
		total += n
		outside := false
		for _, s := range staticCallSites(p, fn) {
			if !parts[top(s.Parent())] {
				outside = true
			}
		}
		if outside && (conv == nil || p.FnName(fn) < p.FnName(conv)) {
			conv = fn
		}
	}
	if conv == nil || total < 6 {
		r.Undecided("kind switch", "-", "cannot find the function that switches on the kind of a host value")
		return
	}
	var reflectPkg *types.Package
	for _, imp := range fnPkg(conv).Pkg.Imports() {
		if imp.Path() == "reflect" {
			reflectPkg = imp
		}
	}
	if reflectPkg == nil {
		r.Undecided("kind switch", p.Pos(conv.Pos()), "package reflect is not imported where the kind switch is")
		return
	}
	kindVal := func(name string) (int64, bool) {
		c, ok := reflectPkg.Scope().Lookup(name).(*types.Const)
		if !ok {
			return 0, false
		}
		return constant.Int64Val(c.Val())
	}
	freshNull := func(v ssa.Value) bool {
		mi, ok := v.(*ssa.MakeInterface)
		if !ok {
			return false
		}
		al, ok := mi.X.(*ssa.Alloc)
		return ok && objectStructName(al.Type()) == "Null"
	}
	const (
		outConverted = 1 << iota
		outNil
		outNull
	)
	kinds := []string{"Int", "Int8", "Int16", "Int32", "Int64", "Uint8", "Uint16", "Uint32", "Float32", "Float64", "String", "Bool", "Slice", "Map"}
	for _, kn := range kinds {
		kv, ok := kindVal(kn)
		if !ok {
			continue
		}
		key := "host kind " + kn + "/no value of the kind ends as a freshly made null"
		steps := 0
		var badPos token.Pos
		// outcomes(fn): what fn can return for a valid value of this kind
		memo := map[*ssa.Function]int{}
		inProgress := map[*ssa.Function]bool{}
		var outcomes func(fn *ssa.Function) int
		outcomes = func(fn *ssa.Function) int {
			if o, ok := memo[fn]; ok {
				return o
			}
			if inProgress[fn] {
				return outConverted
			}
			inProgress[fn] = true
			defer func() { inProgress[fn] = false }()
			param := fn.Params[len(fn.Params)-1]
			isCallOn := func(v ssa.Value, name string) bool {
				c, ok := v.(*ssa.Call)
				if !ok || c.Call.StaticCallee() == nil {
					return false
				}
				f := c.Call.StaticCallee()
				return f.Pkg != nil && f.Pkg.Pkg.Path() == "reflect" && f.Name() == name && len(c.Call.Args) > 0 && c.Call.Args[0] == ssa.Value(param)
			}
			// a call of another part of the switch with the same value
			partCall := func(v ssa.Value) (*ssa.Function, bool) {
				c, ok := v.(*ssa.Call)
				if !ok || c.Call.StaticCallee() == nil || !parts[c.Call.StaticCallee()] {
					return nil, false
				}
				args := c.Call.Args
				if len(args) == 0 || args[len(args)-1] != ssa.Value(param) {
					return nil, false
				}
				return c.Call.StaticCallee(), true
			}
			resolve := func(v ssa.Value, env map[*ssa.Phi]ssa.Value) ssa.Value {
				for i := 0; i < 8; i++ {
					if x, ok := v.(*ssa.Phi); ok {
						if e, ok := env[x]; ok {
							v = e
							continue
						}
					}
					break
				}
				return v
			}
			var truth func(v ssa.Value, env map[*ssa.Phi]ssa.Value) int
			truth = func(v ssa.Value, env map[*ssa.Phi]ssa.Value) int {
				v = resolve(v, env)
				switch x := v.(type) {
				case *ssa.Const:
					if x.Value != nil && x.Value.Kind() == constant.Bool {
						if constant.BoolVal(x.Value) {
							return 1
						}
						return 0
					}
				case *ssa.UnOp:
					if x.Op == token.NOT {
						if t := truth(x.X, env); t >= 0 {
							return 1 - t
						}
					}
				case *ssa.Call:
					if isCallOn(x, "IsValid") {
						return 1
					}
				case *ssa.BinOp:
					if x.Op != token.EQL && x.Op != token.NEQ {
						return -1
					}
					res := -1
					l, rr := resolve(x.X, env), resolve(x.Y, env)
					if isCallOn(l, "Kind") {
						if k, ok := rr.(*ssa.Const); ok {
							if i, ok := constantInt64(k); ok {
								res = 0
								if i == kv {
									res = 1
								}
							}
						}
					} else if k, ok := rr.(*ssa.Const); ok && k.IsNil() {
						switch y := l.(type) {
						case *ssa.MakeInterface:
							res = 0
						case *ssa.Call:
							if g, ok := partCall(y); ok {
								switch o := outcomes(g); {
								case o&outNil == 0:
									res = 0
								case o == outNil:
									res = 1
								}
							} else if f := y.Call.StaticCallee(); f != nil && fnPkg(f) != nil && IsLibPath(fnPkg(f).Pkg.Path()) {
								if rs := sigResults(f); len(rs) == 1 && isObjectIface(rs[0]) {
									res = 0 // R-NONNIL: no conversion function of the module yields nil unannounced
								}
							}
						case *ssa.Const:
							if y.IsNil() {
								res = 1
							}
						}
					}
					if res >= 0 && x.Op == token.NEQ {
						res = 1 - res
					}
					return res
				}
				return -1
			}
			out := 0
			var walk func(b, from *ssa.BasicBlock, env map[*ssa.Phi]ssa.Value)
			walk = func(b, from *ssa.BasicBlock, env map[*ssa.Phi]ssa.Value) {
				steps++
				if steps > 20000 {
					return
				}
				local := env
				copied := false
				for _, ins := range b.Instrs {
					phi, ok := ins.(*ssa.Phi)
					if !ok {
						break
					}
					if from == nil {
						continue
					}
					for i, pb := range b.Preds {
						if pb == from {
							if !copied {
								local = map[*ssa.Phi]ssa.Value{}
								for k, v := range env {
									local[k] = v
								}
								copied = true
							}
							local[phi] = resolve(phi.Edges[i], env)
						}
					}
				}
				switch t := terminator(b).(type) {
				case *ssa.Return:
					if len(t.Results) == 1 {
						v := resolve(returnOperand(t, 0), local)
						switch {
						case freshNull(v):
							out |= outNull
							if fn == conv && !badPos.IsValid() {
								badPos = t.Pos()
							}
						default:
							if k, ok := v.(*ssa.Const); ok && k.IsNil() {
								out |= outNil
								if fn == conv && !badPos.IsValid() {
									badPos = t.Pos()
								}
							} else if c, ok := v.(*ssa.Call); ok {
								if g, ok := partCall(c); ok {
									out |= outcomes(g)
								} else {
									out |= outConverted
								}
							} else {
								out |= outConverted
							}
						}
					}
					return
				case *ssa.If:
					switch truth(t.Cond, local) {
					case 1:
						walk(b.Succs[0], b, local)
					case 0:
						walk(b.Succs[1], b, local)
					default:
						walk(b.Succs[0], b, local)
						walk(b.Succs[1], b, local)
					}
					return
				}
				for _, s := range b.Succs {
					walk(s, b, local)
				}
			}
			walk(fn.Blocks[0], nil, map[*ssa.Phi]ssa.Value{})
			memo[fn] = out
			return out
		}
		o := outcomes(conv)
		switch {
		case steps > 20000:
			r.Undecided(key, p.Pos(conv.Pos()), "too many paths to enumerate")
		case o&(outNull|outNil) != 0:
			r.Fail(key, p.Pos(posOr(badPos, conv.Pos())), "for a host value of kind "+kn+" there is a path through "+p.FnName(conv)+" that ends in a freshly made null (or in no object at all) although the kind is one the engine represents: the value decides whether the field is converted — a slice or map that was never allocated arrives as null, so len() of it is 4 (the length of the text \"null\") and foreach over it fails, where the empty array / hash was due")
		default:
			r.OkNT(key, p.Pos(conv.Pos()), fmt.Sprintf("%d step(s) of the path-sensitive walk over %d part(s) of the switch; every return is the converted value", steps, len(parts)))
		}
	}
}

// ---------------------------------------------------------------------------
// R-WHITESPACE

func init() {
	register(&Rule{ID: "R-WHITESPACE", Floor: 1, Run: ruleWhitespace,
		Text: "What the lexer skips between tokens is the language's white space and nothing else: a loop of the lexer that only advances (keeps no character) and that skips a space but not a letter or a digit — the white-space skipper, as opposed to the comment skipper — skips, of all characters, exactly space, tab, line feed and carriage return.  (Its continuation condition is evaluated symbolically for every code point up to U+3100 and a few beyond, the classes of package unicode included.)  A skipper that follows unicode.IsSpace silently drops form feed, vertical tab, NEL, the no-break space and the Unicode space separators, which are illegal characters of a script: Prepare must report them, not lose them."})
}

func ruleWhitespace(p *Program, r *Reporter) {
	adv := lexAdvance(p)
	if adv == nil {
		r.Undecided("lexer advance", "-", "cannot find the function that reads the next character")
		return
	}
	allowed := map[rune]bool{' ': true, '\t': true, '\n': true, '\r': true}
	var probes []rune
	for c := rune(1); c <= 0x3100; c++ {
		probes = append(probes, c)
	}
	probes = append(probes, 0xFEFF, 0xFFFD, 0x10000, 0x1F600, 0xE0020, 0x10FFFF)
	n := 0
	for _, lp := range charLoops(p, adv) {
		{
			fn, h, loopNo, skips := lp.fn, lp.h, lp.no, lp.skips
			if !lp.onlyAdvances {
				continue
			}
			sp, ok1 := skips(' ')
			le, ok2 := skips('a')
			di, ok3 := skips('7')
			if !ok1 || !ok2 || !ok3 {
				continue // not a loop whose condition is a function of the character alone
			}
			if !sp || le || di {
				continue // the comment skipper, a reader: not the white-space skipper
			}
			n++
			key := fmt.Sprintf("%s/loop %d skips white space and nothing else", p.FnName(fn), loopNo)
			bad, und := "", ""
			for c := range allowed {
				if v, ok := skips(c); ok && !v {
					bad = fmt.Sprintf("%q is not skipped", c)
				}
			}
			for _, c := range probes {
				if allowed[c] {
					continue
				}
				v, ok := skips(c)
				if !ok && und == "" {
					und = fmt.Sprintf("cannot evaluate the condition for U+%04X", c)
				}
				if ok && v && bad == "" {
					bad = fmt.Sprintf("U+%04X is skipped", c)
				}
			}
			switch {
			case bad != "":
				r.Fail(key, p.Pos(firstPos(h)), bad+": the white space of the language is space, tab, line feed and carriage return; any other character outside a literal is an illegal character that Prepare reports — a skipper that follows unicode.IsSpace drops form feed, vertical tab, U+0085, U+00A0 and the Unicode space separators silently, and the script is accepted with the character lost")
			case und != "":
				r.Undecided(key, p.Pos(firstPos(h)), und)
			default:
				r.OkNT(key, p.Pos(firstPos(h)), fmt.Sprintf("evaluated for %d code points: exactly space, tab, LF, CR are skipped", len(probes)))
			}
		}
	}
	if n == 0 {
		r.Undecided("white-space skipper", "-", "no loop of the lexer that only advances and skips a space but not a letter was found")
	}
}

// charLoop: a loop of the lexer that advances over characters, with its
// continuation condition as a function of the current character.
type charLoop struct {
	fn           *ssa.Function
	h            *ssa.BasicBlock
	no           int
	onlyAdvances bool // keeps nothing of what it passes
	skips        func(c rune) (goesRound bool, known bool)
}

func charLoops(p *Program, adv *ssa.Function) []charLoop {
	var out []charLoop
	for _, fn := range lexerFns(p) {
		if len(fn.Blocks) == 0 {
			continue
		}
		loopNo := 0
		for _, h := range fn.Blocks {
			h := h
			var latches []*ssa.BasicBlock
			for _, pb := range h.Preds {
				if h.Dominates(pb) {
					latches = append(latches, pb)
				}
			}
			if len(latches) == 0 {
				continue
			}
			body := map[*ssa.BasicBlock]bool{h: true}
			work := append([]*ssa.BasicBlock{}, latches...)
			for len(work) > 0 {
				b := work[len(work)-1]
				work = work[:len(work)-1]
				if body[b] {
					continue
				}
				body[b] = true
				work = append(work, b.Preds...)
			}
			advances, other := 0, false
			for b := range body {
				for _, ins := range b.Instrs {
					switch x := ins.(type) {
					case *ssa.Store, *ssa.MapUpdate, *ssa.Send, *ssa.Go, *ssa.Defer:
						other = true
					case *ssa.Call:
						cal := x.Call.StaticCallee()
						switch {
						case cal == adv:
							advances++
						case cal != nil && len(sigResults(cal)) == 1 && isBoolType(sigResults(cal)[0]) && len(x.Call.Args) == 1:
							// a predicate on the character
						case cal != nil && cal.Pkg != nil && cal.Pkg.Pkg.Path() == "unicode":
						default:
							other = true
						}
					case *ssa.BinOp:
						if x.Op == token.ADD {
							if b, ok := x.Type().Underlying().(*types.Basic); ok && b.Info()&types.IsString != 0 {
								other = true // the text read so far grows
							}
						}
					}
				}
			}
			if advances == 0 {
				continue
			}
			loopNo++
			skips := func(c rune) (bool, bool) {
				env := map[ssa.Value]constant.Value{}
				for b := range body {
					for _, ins := range b.Instrs {
						if ld, ok := ins.(*ssa.UnOp); ok && ld.Op == token.MUL && fieldKey(ld.X) == "lexer.Lexer.ch" {
							env[ld] = constant.MakeInt64(int64(c))
						}
					}
				}
				b := h
				for steps := 0; steps < 50; steps++ {
					for _, ins := range b.Instrs {
						if cl, ok := ins.(*ssa.Call); ok && cl.Call.StaticCallee() == adv {
							return true, true
						}
					}
					switch t := terminator(b).(type) {
					case *ssa.If:
						v, ok := evalVal(t.Cond, env, 0)
						if !ok && c != 0 {
							// a test of the position against the end of the input: a
							// current character other than the sentinel is not past the
							// end (R-EOFSENTINEL / R-LEXPROGRESS: past the end the
							// character is the sentinel)
							if endMeansTrue, isEnd := positionEndTest(t.Cond); isEnd {
								v, ok = constant.MakeBool(!endMeansTrue), true
							}
						}
						if !ok || v.Kind() != constant.Bool {
							return false, false
						}
						if constant.BoolVal(v) {
							b = b.Succs[0]
						} else {
							b = b.Succs[1]
						}
					case *ssa.Jump:
						b = b.Succs[0]
					default:
						return false, true
					}
					if !body[b] {
						return false, true
					}
				}
				return false, false
			}
			out = append(out, charLoop{fn: fn, h: h, no: loopNo, onlyAdvances: !other, skips: skips})
		}
	}
	return out
}

// ---------------------------------------------------------------------------
// R-IDENTSTART

func init() {
	register(&Rule{ID: "R-IDENTSTART", Floor: 0, Run: ruleIdentStart,
		Text: "Whatever may continue a name may begin one, the decimal digits aside: the loop that reads an identifier goes on over letters, digits, `_` and `$`; for every character it goes on over, other than 0–9, the lexer's NextToken can reach that reader when the character is the first of a token.  (Both are evaluated symbolically per code point: the loop's condition, and the dispatch of NextToken up to the call of the reader with conditions on the current character decided and everything else left open.)  A guard in front of the reader that is narrower than the loop turns `_id` — a key of half the JSON documents there are — into an illegal character.  When the dispatch is not a static call (a table of readers) the rule says so and decides nothing."})
}

func ruleIdentStart(p *Program, r *Reporter) {
	a := needAnchors(p, r)
	if a == nil || a.lexNext == nil {
		return
	}
	adv := lexAdvance(p)
	if adv == nil {
		r.Undecided("lexer advance", "-", "cannot find the function that reads the next character")
		return
	}
	// the reader of names: a loop that keeps what it passes and goes on over letters and digits
	var reader *charLoop
	for _, lp := range charLoops(p, adv) {
		lp := lp
		if lp.onlyAdvances {
			continue
		}
		l1, ok1 := lp.skips('a')
		d1, ok2 := lp.skips('7')
		s1, ok3 := lp.skips(' ')
		if ok1 && ok2 && ok3 && l1 && d1 && !s1 {
			if reader != nil {
				r.Info("identifier reader", "-", "more than one loop reads names; nothing decided")
				return
			}
			reader = &lp
		}
	}
	if reader == nil {
		r.Info("identifier reader", "-", "no loop of the lexer that keeps letters and digits found; nothing decided")
		return
	}
	// functions that advance (other than pure skippers of white space)
	advancing := map[*ssa.Function]bool{adv: true}
	skipper := map[*ssa.Function]bool{}
	for _, lp := range charLoops(p, adv) {
		if lp.onlyAdvances {
			if sp, ok := lp.skips(' '); ok && sp {
				if le, ok := lp.skips('a'); ok && !le {
					skipper[lp.fn] = true
				}
			}
		}
	}
	for changed := true; changed; {
		changed = false
		for _, fn := range lexerFns(p) {
			if advancing[fn] || skipper[fn] {
				continue
			}
			for _, b := range fn.Blocks {
				for _, ins := range b.Instrs {
					if cc := callOf(ins); cc != nil && cc.StaticCallee() != nil && advancing[cc.StaticCallee()] && !advancing[fn] {
						advancing[fn] = true
						changed = true
					}
				}
			}
		}
	}
	next := a.lexNext
	// is the reader called statically from NextToken (or from a function it calls before advancing)?
	var callsReader func(fn *ssa.Function, depth int) bool
	callsReader = func(fn *ssa.Function, depth int) bool {
		if depth > 2 {
			return false
		}
		for _, b := range fn.Blocks {
			for _, ins := range b.Instrs {
				if cc := callOf(ins); cc != nil && cc.StaticCallee() != nil {
					if cc.StaticCallee() == reader.fn {
						return true
					}
				}
			}
		}
		return false
	}
	if !callsReader(next, 0) {
		r.Info("dispatch to the identifier reader", p.Pos(next.Pos()), "the reader of names is not called directly by the function that dispatches on the first character (a table of readers?); nothing decided")
		return
	}
	// mayReach(c): NextToken can reach the call of the reader with current character c
	mayReach := func(c rune) bool {
		env := map[ssa.Value]constant.Value{}
		for _, b := range next.Blocks {
			for _, ins := range b.Instrs {
				if ld, ok := ins.(*ssa.UnOp); ok && ld.Op == token.MUL && fieldKey(ld.X) == "lexer.Lexer.ch" {
					env[ld] = constant.MakeInt64(int64(c))
				}
			}
		}
		type st struct {
			b   *ssa.BasicBlock
			adv bool
		}
		seen := map[st]bool{}
		found := false
		var walk func(b *ssa.BasicBlock, advanced bool)
		walk = func(b *ssa.BasicBlock, advanced bool) {
			if found || seen[st{b, advanced}] {
				return
			}
			seen[st{b, advanced}] = true
			for _, ins := range b.Instrs {
				if cc := callOf(ins); cc != nil && cc.StaticCallee() != nil {
					if cc.StaticCallee() == reader.fn {
						found = true
						return
					}
					if advancing[cc.StaticCallee()] {
						advanced = true
					}
				}
			}
			if t, ok := terminator(b).(*ssa.If); ok && !advanced {
				if v, ok := evalVal(t.Cond, env, 0); ok && v.Kind() == constant.Bool {
					if constant.BoolVal(v) {
						walk(b.Succs[0], advanced)
					} else {
						walk(b.Succs[1], advanced)
					}
					return
				}
			}
			for _, s := range b.Succs {
				walk(s, advanced)
			}
		}
		walk(next.Blocks[0], false)
		return found
	}
	var probes []rune
	for c := rune(1); c <= 0x3100; c++ {
		probes = append(probes, c)
	}
	probes = append(probes, 0x10000, 0x1D7CE, 0x1F600)
	cont, und, bad := 0, 0, ""
	for _, c := range probes {
		if c >= '0' && c <= '9' {
			continue
		}
		v, ok := reader.skips(c)
		if !ok {
			und++
			continue
		}
		if !v {
			continue
		}
		cont++
		if !mayReach(c) && bad == "" {
			bad = fmt.Sprintf("%q (U+%04X) may continue a name but cannot begin one", c, c)
		}
	}
	key := "every character that may continue a name, the digits 0-9 aside, may begin one"
	switch {
	case bad != "":
		r.Fail(key, p.Pos(reader.fn.Pos()), bad+": the dispatch on the first character of a token does not reach the reader of names for it, so a name that begins with it is an illegal character — a script can no longer name the keys `_id`, `_version` of the document it is run against")
	case und > 0:
		r.Undecided(key, p.Pos(reader.fn.Pos()), fmt.Sprintf("the loop condition of the reader could not be evaluated for %d code point(s)", und))
	case cont == 0:
		r.Undecided(key, p.Pos(reader.fn.Pos()), "the reader's loop goes on over no character at all")
	default:
		r.OkNT(key, p.Pos(reader.fn.Pos()), fmt.Sprintf("%d code point(s) continue a name; NextToken reaches the reader for each of them", cont))
	}
}

// ---------------------------------------------------------------------------
// R-OPTGATED

func init() {
	register(&Rule{ID: "R-OPTGATED", Floor: 1, Run: ruleOptGated,
		Text: "The optimizer runs only when it is switched on: every call that reaches a function of the machine which rewrites bytecode in place (stores into an element of the machine's bytecode) from a function that does not is made under the test of the optimizer switch — the presence of the variable that Prepare sets unless NoOptimize was given — or from a helper all of whose callers are.  NoOptimize means the main program *and* every function body run as they were compiled."})
}

func ruleOptGated(p *Program, r *Reporter) {
	a := needAnchors(p, r)
	if a == nil || a.vmNew == nil {
		return
	}
	// the rewriters: functions of the machine that store into an element of VM.bytecode
	rewriter := map[*ssa.Function]bool{}
	for _, fn := range p.LibFns {
		if fnPkg(fn).Pkg.Path() != Mod+"/vm" {
			continue
		}
		for _, b := range fn.Blocks {
			for _, ins := range b.Instrs {
				st, ok := ins.(*ssa.Store)
				if !ok {
					continue
				}
				ia, ok := st.Addr.(*ssa.IndexAddr)
				if !ok {
					continue
				}
				// the machine's bytecode, or a program kept in a field of an
				// optimizer object: an element of a code.Instructions that is not
				// a buffer the function has just made itself
				if !isNamed(ia.X.Type(), "code", "Instructions") {
					continue
				}
				if ld, ok := ia.X.(*ssa.UnOp); ok && ld.Op == token.MUL {
					if _, isField := ld.X.(*ssa.FieldAddr); isField {
						rewriter[top(fn)] = true
					}
				}
			}
		}
	}
	if len(rewriter) == 0 {
		r.Undecided("optimizer passes", "-", "no function of the machine stores into an element of its bytecode")
		return
	}
	// the switch: Get(<name>) on an Environment, second result
	isSwitchTest := func(v ssa.Value) bool {
		ex, ok := v.(*ssa.Extract)
		if !ok || ex.Index != 1 {
			return false
		}
		c, ok := ex.Tuple.(*ssa.Call)
		if !ok || c.Call.StaticCallee() == nil || !recvNamed(c.Call.StaticCallee(), "environment", "Environment") {
			return false
		}
		for _, arg := range c.Call.Args {
			if k, ok := arg.(*ssa.Const); ok && k.Value != nil && k.Value.Kind() == constant.String && constant.StringVal(k.Value) == optimizerSwitchName(p, a) {
				return true
			}
		}
		return false
	}
	var gatedAt func(ins ssa.Instruction, depth int) bool
	gatedAt = func(ins ssa.Instruction, depth int) bool {
		b := ins.Block()
		fn := b.Parent()
		for _, x := range fn.Blocks {
			iff, ok := terminator(x).(*ssa.If)
			if !ok || len(x.Succs) != 2 {
				continue
			}
			cond := iff.Cond
			// a parameter that carries the switch: what every caller passes
			if isSwitchTest(cond) || switchCarried(p, cond, isSwitchTest, 0) {
				if s := x.Succs[0]; len(s.Preds) == 1 && s.Dominates(b) {
					return true
				}
			}
		}
		if depth > 3 || fn == a.vmNew {
			return false
		}
		sites := staticCallSites(p, top(fn))
		if len(sites) == 0 {
			return false
		}
		for _, s := range sites {
			if !gatedAt(s, depth+1) {
				return false
			}
		}
		return true
	}
	n := 0
	for _, fn := range p.LibFns {
		if fnPkg(fn).Pkg.Path() != Mod+"/vm" && fnPkg(fn).Pkg.Path() != Mod {
			continue
		}
		if rewriter[top(fn)] {
			continue
		}
		nth := 0
		for _, b := range fn.Blocks {
			for _, ins := range b.Instrs {
				cc := callOf(ins)
				if cc == nil || cc.StaticCallee() == nil {
					continue
				}
				// an entry: a pass that rewrites, called by a function that does not
				if !rewriter[top(cc.StaticCallee())] {
					continue
				}
				n++
				nth++
				key := fmt.Sprintf("%s/call %d into the optimizer is made only when it is switched on", p.FnName(fn), nth)
				if gatedAt(ins, 0) {
					r.OkNT(key, p.Pos(ins.Pos()), "under the test of the optimizer switch (directly or in every caller)")
				} else {
					r.Fail(key, p.Pos(ins.Pos()), "the optimizer is entered on a path that does not depend on the optimizer switch: with NoOptimize the bytecode — of the main program or of a function body — is rewritten all the same, so `Prepare(NoOptimize)` and `-no-optimizer` do not give the program as it was compiled")
				}
			}
		}
	}
	if n == 0 {
		r.Undecided("optimizer entries", "-", "no call into the optimizer found outside the optimizer")
	}
}

// optimizerSwitchName: the name of the variable whose presence switches the
// optimizer on: the constant name that the machine's constructor asks the
// environment for and whose test guards a call (the one Prepare sets).
func optimizerSwitchName(p *Program, a *anchors) string {
	names := map[string]int{}
	if a.prepare != nil {
		seen := map[*ssa.Function]bool{}
		var scan func(f *ssa.Function, d int)
		scan = func(f *ssa.Function, d int) {
			if f == nil || seen[f] || d > 2 || len(f.Blocks) == 0 {
				return
			}
			seen[f] = true
			for _, b := range f.Blocks {
				for _, ins := range b.Instrs {
					cc := callOf(ins)
					if cc == nil || cc.StaticCallee() == nil {
						continue
					}
					cal := cc.StaticCallee()
					if recvNamed(cal, "environment", "Environment") && cal.Name() == "Set" {
						for _, arg := range cc.Args {
							if k, ok := arg.(*ssa.Const); ok && k.Value != nil && k.Value.Kind() == constant.String {
								names[constant.StringVal(k.Value)]++
							}
						}
					}
					if fnPkg(cal) != nil && fnPkg(cal).Pkg.Path() == Mod && cal != a.compile {
						scan(cal, d+1)
					}
				}
			}
		}
		scan(a.prepare, 0)
	}
	best := ""
	for nm := range names {
		if best == "" || nm < best {
			best = nm
		}
	}
	if len(names) == 1 {
		return best
	}
	// several: the one the constructor asks for
	if a.vmNew != nil {
		for _, b := range a.vmNew.Blocks {
			for _, ins := range b.Instrs {
				if cc := callOf(ins); cc != nil && cc.StaticCallee() != nil && recvNamed(cc.StaticCallee(), "environment", "Environment") {
					for _, arg := range cc.Args {
						if k, ok := arg.(*ssa.Const); ok && k.Value != nil && k.Value.Kind() == constant.String && names[constant.StringVal(k.Value)] > 0 {
							return constant.StringVal(k.Value)
						}
					}
				}
			}
		}
	}
	return best
}

// switchCarried: the condition is a parameter (or a conjunction with one)
// for which every caller passes the switch test.
func switchCarried(p *Program, v ssa.Value, isTest func(ssa.Value) bool, depth int) bool {
	if depth > 3 {
		return false
	}
	switch x := v.(type) {
	case *ssa.Parameter:
		fn := x.Parent()
		k := -1
		for i, q := range fn.Params {
			if q == x {
				k = i
			}
		}
		sites := staticCallSites(p, fn)
		if k < 0 || len(sites) == 0 {
			return false
		}
		for _, s := range sites {
			args := s.Common().Args
			if k >= len(args) || !(isTest(args[k]) || switchCarried(p, args[k], isTest, depth+1)) {
				return false
			}
		}
		return true
	case *ssa.Phi:
		// a && b: false on one edge, b on the other — true only if b is
		for _, e := range x.Edges {
			if k, ok := e.(*ssa.Const); ok && k.Value != nil && k.Value.Kind() == constant.Bool && !constant.BoolVal(k.Value) {
				continue
			}
			if !(isTest(e) || switchCarried(p, e, isTest, depth+1)) {
				return false
			}
		}
		return len(x.Edges) > 0
	case *ssa.UnOp:
		// a load of a field that is only ever stored the switch test
		if x.Op == token.MUL {
			if fa, ok := x.X.(*ssa.FieldAddr); ok {
				owner, f, ok := fieldOf(fa)
				if !ok {
					return false
				}
				n := 0
				for _, fn := range p.LibFns {
					for _, b := range fn.Blocks {
						for _, ins := range b.Instrs {
							if st, ok := ins.(*ssa.Store); ok {
								if o2, f2, ok := fieldOf(st.Addr); ok && o2 == owner && f2 == f {
									n++
									if !(isTest(st.Val) || switchCarried(p, st.Val, isTest, depth+1)) {
										return false
									}
								}
							}
						}
					}
				}
				return n > 0
			}
		}
	}
	return false
}

// ---------------------------------------------------------------------------
// R-RUNEINDEX

func init() {
	register(&Rule{ID: "R-RUNEINDEX", Floor: 1, Run: ruleRuneIndex,
		Text: "A position that counts characters is not used to count bytes: within a function, a number that is compared with the number of characters of a string (utf8.RuneCountInString, the length of its []rune form) or that indexes the []rune form is a character position of that string; the same number (give or take a constant) never indexes or slices the string itself, which goes by bytes.  After the first multi-byte character the two disagree: `foreach c in \"éab\"` would visit é, a, a.  (Expected count on the unmodified tree: zero; the matcher is run on a built-in positive example.)"})
}

// runeByteMixups: byte indexings of a string by a value that the function
// also uses as a character position of the same string.
func runeByteMixups(fn *ssa.Function) []ssa.Instruction {
	isString := func(t types.Type) bool {
		b, ok := t.Underlying().(*types.Basic)
		return ok && b.Info()&types.IsString != 0
	}
	isRuneSlice := func(t types.Type) bool {
		sl, ok := t.Underlying().(*types.Slice)
		if !ok {
			return false
		}
		b, ok := sl.Elem().Underlying().(*types.Basic)
		return ok && b.Kind() == types.Int32
	}
	// canonical name of a value: loads of one field of one object are the same thing
	var canon func(v ssa.Value, depth int) string
	canon = func(v ssa.Value, depth int) string {
		if v == nil || depth > 6 {
			return ""
		}
		switch x := v.(type) {
		case *ssa.UnOp:
			if x.Op == token.MUL {
				if fa, ok := x.X.(*ssa.FieldAddr); ok {
					return fmt.Sprintf("field %d of %s", fa.Field, canon(fa.X, depth+1))
				}
				if al, ok := x.X.(*ssa.Alloc); ok {
					return "local " + al.Name()
				}
			}
		case *ssa.BinOp:
			if x.Op == token.ADD || x.Op == token.SUB {
				if _, ok := x.Y.(*ssa.Const); ok {
					return canon(x.X, depth+1)
				}
				if _, ok := x.X.(*ssa.Const); ok && x.Op == token.ADD {
					return canon(x.Y, depth+1)
				}
			}
		case *ssa.Convert:
			if b, ok := x.Type().Underlying().(*types.Basic); ok && b.Info()&types.IsInteger != 0 {
				return canon(x.X, depth+1)
			}
		case *ssa.Phi:
			// a loop counter: itself
		}
		return v.Name() + "@" + fmt.Sprint(v.Pos())
	}
	// the string a []rune value was made from
	runesOf := func(v ssa.Value) (ssa.Value, bool) {
		for i := 0; i < 4; i++ {
			switch x := v.(type) {
			case *ssa.Convert:
				if isRuneSlice(x.Type()) && isString(x.X.Type()) {
					return x.X, true
				}
				return nil, false
			case *ssa.Slice:
				v = x.X
				continue
			case *ssa.UnOp:
				if al, ok := x.X.(*ssa.Alloc); ok && x.Op == token.MUL && al.Referrers() != nil {
					for _, ref := range *al.Referrers() {
						if st, ok := ref.(*ssa.Store); ok && st.Addr == ssa.Value(al) {
							v = st.Val
						}
					}
					continue
				}
			}
			break
		}
		return nil, false
	}
	charPos := map[string]bool{} // canon(string) + "|" + canon(index)
	mark := func(s, idx ssa.Value) {
		cs, ci := canon(s, 0), canon(idx, 0)
		if cs != "" && ci != "" {
			charPos[cs+"|"+ci] = true
		}
	}
	countOf := func(v ssa.Value) (ssa.Value, bool) {
		c, ok := v.(*ssa.Call)
		if !ok {
			return nil, false
		}
		if f := c.Call.StaticCallee(); f != nil && f.String() == "unicode/utf8.RuneCountInString" && len(c.Call.Args) == 1 {
			return c.Call.Args[0], true
		}
		if bi, ok := c.Call.Value.(*ssa.Builtin); ok && bi.Name() == "len" && len(c.Call.Args) == 1 {
			if s, ok := runesOf(c.Call.Args[0]); ok {
				return s, true
			}
		}
		return nil, false
	}
	for _, b := range fn.Blocks {
		for _, ins := range b.Instrs {
			switch x := ins.(type) {
			case *ssa.BinOp:
				switch x.Op {
				case token.LSS, token.LEQ, token.GTR, token.GEQ, token.EQL, token.NEQ:
					if s, ok := countOf(x.Y); ok {
						mark(s, x.X)
					}
					if s, ok := countOf(x.X); ok {
						mark(s, x.Y)
					}
				}
			case *ssa.IndexAddr:
				if s, ok := runesOf(x.X); ok {
					mark(s, x.Index)
				}
			case *ssa.Index:
				if s, ok := runesOf(x.X); ok {
					mark(s, x.Index)
				}
			}
		}
	}
	if len(charPos) == 0 {
		return nil
	}
	var out []ssa.Instruction
	for _, b := range fn.Blocks {
		for _, ins := range b.Instrs {
			switch x := ins.(type) {
			case *ssa.Index:
				if isString(x.X.Type()) && charPos[canon(x.X, 0)+"|"+canon(x.Index, 0)] {
					out = append(out, ins)
				}
			case *ssa.Lookup:
				if isString(x.X.Type()) && charPos[canon(x.X, 0)+"|"+canon(x.Index, 0)] {
					out = append(out, ins)
				}
			case *ssa.Slice:
				if isString(x.X.Type()) {
					for _, bd := range []ssa.Value{x.Low, x.High} {
						if bd != nil && charPos[canon(x.X, 0)+"|"+canon(bd, 0)] {
							out = append(out, ins)
							break
						}
					}
				}
			}
		}
	}
	return out
}

const runeIndexExample = `package t
import "unicode/utf8"
type str struct {
	val string
	off int
}
func (s *str) next() (string, bool) {
	if s.off < utf8.RuneCountInString(s.val) {
		s.off++
		if c := s.val[s.off-1]; c < utf8.RuneSelf {
			return string(rune(c)), true
		}
		return string([]rune(s.val)[s.off-1]), true
	}
	return "", false
}
func (s *str) fine() (string, bool) {
	if s.off < utf8.RuneCountInString(s.val) {
		s.off++
		return string([]rune(s.val)[s.off-1]), true
	}
	return "", false
}
`

func ruleRuneIndex(p *Program, r *Reporter) {
	n := 0
	for _, fn := range p.LibFns {
		for _, ins := range runeByteMixups(fn) {
			n++
			r.Fail(siteKey(p, fn, ins.Pos(), "uses a character position as a byte position"), p.Pos(ins.Pos()), "the string is indexed (by bytes) with a number that the same function treats as a position in characters — it compares it with the number of characters, or indexes the []rune form with it: after a multi-byte character the byte at that position belongs to another character, so `foreach c in \"éab\"` visits é, a, a and an index expression picks the wrong character")
		}
	}
	hitBad, hitGood := -1, -1
	if sp := buildExample(runeIndexExample); sp != nil {
		for _, m := range []string{"next", "fine"} {
			var f *ssa.Function
			for _, mem := range sp.Members {
				if tp, ok := mem.(*ssa.Type); ok {
					if mf := sp.Prog.LookupMethod(types.NewPointer(tp.Type()), sp.Pkg, m); mf != nil {
						f = mf
					}
				}
			}
			if f != nil {
				if m == "next" {
					hitBad = len(runeByteMixups(f))
				} else {
					hitGood = len(runeByteMixups(f))
				}
			}
		}
	}
	if hitBad != 1 || hitGood != 0 {
		r.Undecided("self-test", "-", fmt.Sprintf("the matcher gave %d/%d on its built-in examples (expected 1/0)", hitBad, hitGood))
	} else {
		r.OkNT("character positions used as byte positions", "-", fmt.Sprintf("%d found; matcher verified on built-in examples (a cursor used both ways, a cursor used on the []rune form only)", n))
	}
}

// ---------------------------------------------------------------------------
// R-FOLDSPAN

func init() {
	register(&Rule{ID: "R-FOLDSPAN", Floor: 1, Run: ruleFoldSpan,
		Text: "A fold overwrites what it consumed and nothing else: in the constant-folding pass (the walker callback that keeps a window of pending constants, and the functions of the machine it calls), every store into the bytecode is a single store at an offset named by an operand taken from the *end* of the window or by the current instruction — no loop of the pass writes over a range of offsets, and the window is never read from its front by a constant index.  With more constants pending than the operator consumes (`host(5, 1 == 1)`, `[1, 2 == 2]`) a range that starts at the first pending constant wipes pushes that are still needed."})
}

func ruleFoldSpan(p *Program, r *Reporter) {
	sw, window, info := foldCallback(p)
	if sw == nil {
		r.Undecided("folding pass", "-", "cannot find the constant-folding callback")
		return
	}
	vmPk := p.ByPath[Mod+"/vm"]
	nodes := []ast.Node{sw}
	seen := map[*ast.FuncDecl]bool{}
	ast.Inspect(sw, func(n ast.Node) bool {
		if ce, ok := n.(*ast.CallExpr); ok {
			if fo, ok := calleeObj(info, ce).(*types.Func); ok && fo.Pkg() != nil && fo.Pkg().Path() == Mod+"/vm" {
				if fd := funcDeclOf(p, fo); fd != nil && fd.Body != nil && !seen[fd] {
					seen[fd] = true
					nodes = append(nodes, fd.Body)
				}
			}
		}
		return true
	})
	isProgram := func(e ast.Expr) bool {
		tv, ok := info.Types[e]
		return ok && isNamed(tv.Type, "code", "Instructions")
	}
	_ = vmPk
	n := 0
	bad := ""
	var badPos token.Pos
	for _, nd := range nodes {
		var loops []ast.Node
		ast.Inspect(nd, func(x ast.Node) bool {
			switch y := x.(type) {
			case *ast.ForStmt, *ast.RangeStmt:
				loops = append(loops, y)
			}
			return true
		})
		inLoop := func(pos token.Pos) bool {
			for _, l := range loops {
				if l.Pos() <= pos && pos < l.End() {
					return true
				}
			}
			return false
		}
		ast.Inspect(nd, func(x ast.Node) bool {
			switch y := x.(type) {
			case *ast.AssignStmt:
				for _, l := range y.Lhs {
					ix, ok := ast.Unparen(l).(*ast.IndexExpr)
					if !ok || !isProgram(ix.X) {
						continue
					}
					n++
					if inLoop(y.Pos()) && bad == "" {
						bad, badPos = "a loop of the folding pass writes into the bytecode: it overwrites a range of offsets instead of the operands the fold consumed", y.Pos()
					}
				}
			case *ast.IndexExpr:
				// the window read from the front
				if id, ok := ast.Unparen(y.X).(*ast.Ident); ok && window != nil && info.Uses[id] == window {
					if tv, ok := info.Types[y.Index]; ok && tv.Value != nil && bad == "" {
						bad, badPos = "the window of pending constants is read at the constant position "+tv.Value.String()+" — from its front: the operands of an operator are the *last* constants pushed", y.Pos()
					}
				}
			}
			return true
		})
	}
	key := "folding pass/each store into the bytecode is at an operand from the end of the window or at the current instruction"
	switch {
	case n == 0:
		r.Undecided(key, p.Pos(sw.Pos()), "the folding pass makes no store into the bytecode")
	case bad != "":
		r.Fail(key, p.Pos(badPos), bad+": with more constants pending than the fold consumes — an argument list, an array literal, a hash literal — pushes that are still needed are wiped, and the optimized program underflows the stack where the unoptimized one works")
	default:
		r.OkNT(key, p.Pos(sw.Pos()), fmt.Sprintf("%d store(s) into the bytecode in the pass and its %d helper(s), none in a loop; the window is not read from the front", n, len(nodes)-1))
	}
}

// ---------------------------------------------------------------------------
// R-CONTINUATION

func init() {
	register(&Rule{ID: "R-CONTINUATION", Floor: 1, Run: ruleContinuation,
		Text: "A backslash at the end of a line continues the string and means nothing else: in the reader of string literals, the branch taken when a backslash is followed by a line feed goes back to the head of the reading loop without adding a character to the text and without going through the translation of escapes — so the first character of the next line is read like any other character, not as the character after a backslash (`\"one\\<newline>two\"` is `onetwo`, not `one<TAB>wo`)."})
}

func ruleContinuation(p *Program, r *Reporter) {
	isCh := func(v ssa.Value) bool {
		for {
			if cv, ok := v.(*ssa.Convert); ok {
				v = cv.X
				continue
			}
			break
		}
		ld, ok := v.(*ssa.UnOp)
		return ok && ld.Op == token.MUL && fieldKey(ld.X) == "lexer.Lexer.ch"
	}
	constRune := func(v ssa.Value) (rune, bool) {
		for {
			if cv, ok := v.(*ssa.Convert); ok {
				v = cv.X
				continue
			}
			break
		}
		k, ok := v.(*ssa.Const)
		if !ok || k.Value == nil || k.Value.Kind() != constant.Int {
			return 0, false
		}
		i, exact := constant.Int64Val(k.Value)
		return rune(i), exact
	}
	n := 0
	for _, fn := range lexerFns(p) {
		if len(fn.Blocks) == 0 {
			continue
		}
		for _, b := range fn.Blocks {
			// the comparison: the condition of a branch, or — in a helper that
			// answers "a continuation is ahead" — a value on its way to the result
			var bo *ssa.BinOp
			isCond := false
			if iff, ok := terminator(b).(*ssa.If); ok {
				if x, ok := iff.Cond.(*ssa.BinOp); ok && x.Op == token.EQL {
					bo, isCond = x, true
				}
			}
			if bo == nil {
				for _, ins := range b.Instrs {
					if x, ok := ins.(*ssa.BinOp); ok && x.Op == token.EQL {
						if _, isK := constRune(x.Y); isK {
							bo = x
						} else if _, isK := constRune(x.X); isK {
							bo = x
						}
					}
				}
			}
			if bo == nil {
				continue
			}
			// <something> == '\n' …
			var k rune
			var other ssa.Value
			if c, ok := constRune(bo.Y); ok {
				k, other = c, bo.X
			} else if c, ok := constRune(bo.X); ok {
				k, other = c, bo.Y
			} else {
				continue
			}
			if k != '\n' {
				continue
			}
			// … the current character or the one after it (a call that hands back a rune)
			if !isCh(other) {
				if c, ok := other.(*ssa.Call); !ok || c.Call.StaticCallee() == nil || fnPkg(c.Call.StaticCallee()) == nil || fnPkg(c.Call.StaticCallee()).Pkg.Path() != Mod+"/lexer" {
					continue
				}
			}
			// … under the branch of a backslash
			underBackslash := false
			for d := b; d.Idom() != nil; d = d.Idom() {
				pi, ok := terminator(d.Idom()).(*ssa.If)
				if !ok || d.Idom().Succs[0] != d {
					continue
				}
				if pb, ok := pi.Cond.(*ssa.BinOp); ok && pb.Op == token.EQL {
					if c, ok := constRune(pb.Y); ok && c == '\\' && isCh(pb.X) {
						underBackslash = true
					}
					if c, ok := constRune(pb.X); ok && c == '\\' && isCh(pb.Y) {
						underBackslash = true
					}
				}
			}
			if !underBackslash {
				continue
			}
			// the loop this is in
			var head *ssa.BasicBlock
			for h := b; h != nil && isCond; h = h.Idom() {
				for _, pd := range h.Preds {
					if h.Dominates(pd) && (pd == b || blockReaches(b, pd, nil)) {
						head = h
					}
				}
				if head != nil {
					break
				}
			}
			// judge: from the block entered when the continuation is seen, back
			// to the head of the loop
			judge := func(gfn *ssa.Function, from, head *ssa.BasicBlock) {
				n++
				key := p.FnName(gfn) + "/a backslash before a line feed only joins the lines"
				bad := ""
				var badPos token.Pos
				seen := map[*ssa.BasicBlock]bool{}
				var walk func(x *ssa.BasicBlock)
				walk = func(x *ssa.BasicBlock) {
					if seen[x] || x == head || bad != "" {
						return
					}
					seen[x] = true
					for _, ins := range x.Instrs {
						switch y := ins.(type) {
						case *ssa.Store:
							if fieldKey(y.Addr) == "lexer.Lexer.ch" {
								bad, badPos = "the current character is rewritten (the translation of escapes)", y.Pos()
							}
						case *ssa.BinOp:
							if bt, ok := y.Type().Underlying().(*types.Basic); ok && bt.Info()&types.IsString != 0 && y.Op == token.ADD {
								bad, badPos = "a character is added to the text", y.Pos()
							}
						}
					}
					for _, s := range x.Succs {
						walk(s)
					}
				}
				walk(from)
				if bad != "" {
					r.Fail(key, p.Pos(posOr(badPos, firstPos(from))), "after the line feed has been consumed, and before the loop starts over, "+bad+": the first character of the continued line is treated as the character after a backslash — `\"one\\<newline>two\"` becomes `one<TAB>wo`, a quote there no longer ends the string")
				} else {
					r.OkNT(key, p.Pos(firstPos(from)), "the branch returns to the head of the loop without touching the text or the current character")
				}
			}
			loopHeadOf := func(x *ssa.BasicBlock) *ssa.BasicBlock {
				for h := x; h != nil; h = h.Idom() {
					for _, pd := range h.Preds {
						if h.Dominates(pd) && (pd == x || blockReaches(x, pd, nil)) {
							return h
						}
					}
				}
				return nil
			}
			if head == nil {
				// the test kept in a helper that says "a continuation is ahead":
				// judged where the helper's answer is acted upon
				if rs := sigResults(fn); len(rs) == 1 && isBoolType(rs[0]) && fn.Parent() == nil {
					for _, g := range lexerFns(p) {
						for _, gb := range g.Blocks {
							gi, ok := terminator(gb).(*ssa.If)
							if !ok {
								continue
							}
							cond, neg := gi.Cond, false
							if u, ok := cond.(*ssa.UnOp); ok && u.Op == token.NOT {
								cond, neg = u.X, true
							}
							c, ok := cond.(*ssa.Call)
							if !ok || c.Call.StaticCallee() != fn {
								continue
							}
							from := gb.Succs[0]
							if neg {
								from = gb.Succs[1]
							}
							if h := loopHeadOf(gb); h != nil {
								judge(g, from, h)
							}
						}
					}
				}
				continue
			}
			judge(fn, b.Succs[0], head)
		}
	}
	if n == 0 {
		r.Undecided("line continuation", "-", "no test for a line feed under the branch of a backslash found in the lexer")
	}
}

// ---------------------------------------------------------------------------
// R-STDCONTRACT

func init() {
	register(&Rule{ID: "R-STDCONTRACT", Floor: 4, Run: ruleStdContract,
		Text: "Built-ins that are documented by what a library function does are done by that function: trim removes what strings.TrimSpace removes (all Unicode white space, not a hand-picked set), lower and upper are strings.ToLower / strings.ToUpper, split is strings.Split, and replace expands `$1`-style references in the replacement as (*regexp.Regexp).ReplaceAll / ReplaceAllString do.  A sibling of the same family — Trim with a cutset, ReplaceAllLiteral, SplitN — agrees with it on every input the tests use and differs on others."})
}

func ruleStdContract(p *Program, r *Reporter) {
	reg := registeredBuiltins(p)
	type contract struct {
		need   []string // one of these must be called
		family string   // prefix of the function family (in the same package / receiver)
		why    string
	}
	table := map[string]contract{
		"trim":    {[]string{"strings.TrimSpace"}, "strings.Trim", "leading and trailing white space of every kind is removed (\\v, \\f, U+0085, U+00A0, the Unicode spaces), not the four characters the lexer skips"},
		"lower":   {[]string{"strings.ToLower"}, "strings.To", "the lower-case form as package strings defines it"},
		"upper":   {[]string{"strings.ToUpper"}, "strings.To", "the upper-case form as package strings defines it"},
		"split":   {[]string{"strings.Split"}, "strings.Split", "every separator splits, nothing is kept of it, no limit"},
		"replace": {[]string{"(*regexp.Regexp).ReplaceAll", "(*regexp.Regexp).ReplaceAllString"}, "(*regexp.Regexp).Replace", "`$1`, `${name}` in the replacement stand for what the groups matched"},
	}
	var names []string
	for nm := range table {
		names = append(names, nm)
	}
	sort.Strings(names)
	for _, nm := range names {
		fn := reg[nm]
		if fn == nil {
			continue
		}
		ct := table[nm]
		called := map[string]token.Pos{}
		seen := map[*ssa.Function]bool{}
		var scan func(f *ssa.Function, depth int)
		scan = func(f *ssa.Function, depth int) {
			if f == nil || seen[f] || depth > 2 || len(f.Blocks) == 0 {
				return
			}
			seen[f] = true
			for _, b := range f.Blocks {
				for _, ins := range b.Instrs {
					// a library function handed on as a value (`convertText(args,
					// strings.ToLower)`) does the work where it is called
					for _, op := range ins.Operands(nil) {
						if op == nil || *op == nil {
							continue
						}
						if f, ok := (*op).(*ssa.Function); ok && f.Pkg != nil && !IsLibPath(f.Pkg.Pkg.Path()) && f.Object() != nil {
							if cc0 := callOf(ins); cc0 == nil || cc0.Value != ssa.Value(f) {
								if fo, ok := f.Object().(*types.Func); ok {
									called[fo.FullName()] = ins.Pos()
								}
							}
						}
					}
					cc := callOf(ins)
					if cc == nil || cc.StaticCallee() == nil {
						continue
					}
					cal := cc.StaticCallee()
					if fnPkg(cal) != nil && IsLibPath(fnPkg(cal).Pkg.Path()) {
						// helpers of the built-ins, not other built-ins
						if _, isBuiltin := builtinName(reg, cal); !isBuiltin {
							scan(cal, depth+1)
						}
						continue
					}
					called[calleeFullName(cc)] = ins.Pos()
				}
			}
			for _, an := range f.AnonFuncs {
				scan(an, depth)
			}
		}
		scan(fn, 0)
		key := "built-in " + nm + "/is done by the library function it is documented by"
		has := false
		for _, n := range ct.need {
			if _, ok := called[n]; ok {
				has = true
			}
		}
		var sibling string
		var sibPos token.Pos
		for c, ps := range called {
			if !strings.HasPrefix(c, ct.family) {
				continue
			}
			isNeed := false
			for _, n := range ct.need {
				if c == n {
					isNeed = true
				}
			}
			if !isNeed && (sibling == "" || c < sibling) {
				sibling, sibPos = c, ps
			}
		}
		switch {
		case sibling != "":
			r.Fail(key, p.Pos(sibPos), fmt.Sprintf("the built-in calls %s, a sibling of %s: %s — the two agree on the inputs the tests use and differ elsewhere", sibling, strings.Join(ct.need, " / "), ct.why))
		case !has:
			r.Undecided(key, p.Pos(fn.Pos()), fmt.Sprintf("the built-in does not call %s (nor a sibling of it): whether what it does instead has the documented effect is not decided", strings.Join(ct.need, " / ")))
		default:
			r.OkNT(key, p.Pos(fn.Pos()), "calls "+strings.Join(ct.need, " / ")+" and none of its siblings")
		}
	}
}

func builtinName(reg map[string]*ssa.Function, f *ssa.Function) (string, bool) {
	for n, g := range reg {
		if g == f {
			return n, true
		}
	}
	return "", false
}

// ---------------------------------------------------------------------------
// R-NUMARGS

func init() {
	register(&Rule{ID: "R-NUMARGS", Floor: 2, Run: ruleNumArgs,
		Text: "What a built-in compares as a number it has tested to be one: every argument that a registered built-in hands to the numeric comparison of the built-ins (the function of two objects that compares them by value) is, at the call, known to be a number — a numeric test of that very argument holds on every path to the call, or a loop over all the arguments has returned for any that is not a number.  A bound that is never tested is taken for 0 by the comparison: between(5, -5, \"10\") answers false where null is due."})
}

func ruleNumArgs(p *Program, r *Reporter) {
	less := numericLessFn(p)
	if less == nil {
		r.Undecided("numeric comparison", "-", "cannot find the function that compares two numbers by value")
		return
	}
	reg := registeredBuiltins(p)
	typeConst := objectTypeConsts(p)
	var names []string
	for nm := range reg {
		names = append(names, nm)
	}
	sort.Strings(names)
	n := 0
	for _, nm := range names {
		fn, _ := sharedImpl(reg[nm])
		if fn == nil || len(fn.Params) == 0 || len(fn.Blocks) == 0 {
			continue
		}
		args := ssa.Value(fn.Params[0])
		// a loop over all the arguments that returns for a non-number: its exit
		// dominates what follows
		allTested := func(at *ssa.BasicBlock) bool {
			for _, h := range fn.Blocks {
				var latches []*ssa.BasicBlock
				for _, pb := range h.Preds {
					if h.Dominates(pb) {
						latches = append(latches, pb)
					}
				}
				if len(latches) == 0 || !h.Dominates(at) {
					continue
				}
				iff, ok := terminator(h).(*ssa.If)
				if !ok {
					continue
				}
				bo, ok := iff.Cond.(*ssa.BinOp)
				if !ok || bo.Op != token.LSS {
					continue
				}
				lc, isLen := isBuiltinCall(bo.Y, "len")
				if !isLen || !isArgsVal(lc.Call.Args[0], args) {
					continue
				}
				// the body tests the element's type against both numeric types and returns otherwise
				body := map[*ssa.BasicBlock]bool{}
				work := append([]*ssa.BasicBlock{}, latches...)
				for len(work) > 0 {
					x := work[len(work)-1]
					work = work[:len(work)-1]
					if body[x] || x == h {
						continue
					}
					body[x] = true
					work = append(work, x.Preds...)
				}
				seenT := map[string]bool{}
				viaHelper := false
				for x := range body {
					for _, ins := range x.Instrs {
						if b2, ok := ins.(*ssa.BinOp); ok && (b2.Op == token.NEQ || b2.Op == token.EQL) {
							if c, ok := b2.Y.(*ssa.Const); ok && c.Value != nil && c.Value.Kind() == constant.String {
								seenT[typeConst[constant.StringVal(c.Value)]] = true
							}
						}
						if c, ok := ins.(*ssa.Call); ok && c.Call.StaticCallee() != nil && isNumericTest(c.Call.StaticCallee(), typeConst) {
							viaHelper = true
						}
					}
				}
				// the loop is left to "at" only through the header's exit
				exitsOnlyAtHeader := true
				for x := range body {
					for _, sc := range x.Succs {
						if !body[sc] && sc != h {
							if _, isRet := terminator(sc).(*ssa.Return); !isRet {
								exitsOnlyAtHeader = false
							}
						}
					}
				}
				if (seenT["Integer"] && seenT["Float"] || viaHelper) && exitsOnlyAtHeader && !body[at] {
					return true
				}
			}
			return false
		}
		// a numeric test of the same argument on every path
		testedAt := func(k int64, at *ssa.BasicBlock) bool {
			for _, b := range fn.Blocks {
				iff, ok := terminator(b).(*ssa.If)
				if !ok || len(b.Succs) != 2 {
					continue
				}
				cond, neg := iff.Cond, false
				if u, ok := cond.(*ssa.UnOp); ok && u.Op == token.NOT {
					cond, neg = u.X, true
				}
				c, ok := cond.(*ssa.Call)
				if !ok || c.Call.StaticCallee() == nil || !isNumericTest(c.Call.StaticCallee(), typeConst) || len(c.Call.Args) != 1 {
					continue
				}
				if kk, ok := argElem(c.Call.Args[0], args); !ok || kk != k {
					continue
				}
				good := b.Succs[0]
				if neg {
					good = b.Succs[1]
				}
				if len(good.Preds) == 1 && (good == at || good.Dominates(at)) {
					return true
				}
				// `if !isNumber(a) || !isNumber(b) { return }`: the bad side returns,
				// the other side (several predecessors) dominates
				bad := b.Succs[1]
				if neg {
					bad = b.Succs[0]
				}
				if allReturn(bad, 3) && b.Dominates(at) && !blockReachesBlock(bad, at) {
					return true
				}
			}
			return false
		}
		nth := 0
		for _, b := range fn.Blocks {
			for _, ins := range b.Instrs {
				c, ok := ins.(*ssa.Call)
				if !ok || c.Call.StaticCallee() != less {
					continue
				}
				for ai, a := range c.Call.Args {
					k, isArg := argElem(a, args)
					if !isArg {
						continue
					}
					n++
					nth++
					key := fmt.Sprintf("built-in %s/operand %d of numeric comparison %d is an argument known to be a number", nm, ai+1, (nth+1)/2)
					if allTested(b) || testedAt(k, b) {
						r.OkNT(key, p.Pos(c.Pos()), fmt.Sprintf("args[%d] is tested to be a number on every path to the comparison", k))
					} else {
						r.Fail(key, p.Pos(c.Pos()), fmt.Sprintf("args[%d] reaches the numeric comparison without a test that it is a number on every path: the comparison takes anything else for 0, so the built-in answers true or false where null is due — between(5, -5, \"10\") is false", k))
					}
				}
			}
		}
	}
	if n == 0 {
		r.Undecided("numeric comparisons", "-", "no registered built-in hands an argument to the numeric comparison")
	}
}

// allReturn: every path from b ends in a return within a few blocks.
func allReturn(b *ssa.BasicBlock, depth int) bool {
	if _, ok := terminator(b).(*ssa.Return); ok {
		return true
	}
	if depth == 0 || len(b.Succs) == 0 {
		return false
	}
	for _, s := range b.Succs {
		if !allReturn(s, depth-1) {
			return false
		}
	}
	return true
}

func blockReachesBlock(from, to *ssa.BasicBlock) bool {
	seen := map[*ssa.BasicBlock]bool{}
	var w func(x *ssa.BasicBlock) bool
	w = func(x *ssa.BasicBlock) bool {
		if x == to {
			return true
		}
		if seen[x] {
			return false
		}
		seen[x] = true
		for _, s := range x.Succs {
			if w(s) {
				return true
			}
		}
		return false
	}
	return w(from)
}
