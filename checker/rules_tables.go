package main

// Table-extraction rules: the operator → opcode map of the compiler, the
// opcode → Go operator tables of the VM, operand presence, handler coverage,
// jump-set agreement, precedence order.

import (
	"fmt"
	"go/ast"
	"go/constant"
	"go/token"
	"go/types"
	"sort"
	"strings"

	"golang.org/x/tools/go/ssa"
)

func init() {
	register(&Rule{ID: "R-OPMAP", Floor: 28, Run: ruleOpMap,
		Text: "Each operator spelling (infix, prefix, postfix, compound assignment) is compiled to the opcode the language definition names for it, and every operator the definition names has a clause."})
	register(&Rule{ID: "R-OPTABLE", Floor: 30, Run: ruleOpTable,
		Text: "Every cell of the VM's operator tables (int/int, float/float, float/int, int/float, string/string) applies the Go operator its opcode names to (left, right) in that order, produces the result type the language defines (integer only for int/int arithmetic, float for mixed, boolean for comparisons), and sibling tables cover the same opcodes."})
	register(&Rule{ID: "R-DIVGUARD", Floor: 2, Run: ruleDivGuard,
		Text: "In every numeric table the division is preceded by a test of the right operand against zero whose true branch returns a non-nil error."})
	register(&Rule{ID: "R-EMITLEN", Floor: 60, Run: ruleEmitLen,
		Text: "Writer and reader agree on operand presence: every emit site passes exactly one operand iff code.Length of that opcode is 3, and a VM handler reads the operand only for such opcodes."})
	register(&Rule{ID: "R-HANDLERS", Floor: 43, Run: ruleHandlers,
		Text: "Every opcode constant has a case in the VM's dispatch switch and a name in the name table; the return opcode's handler leaves the interpreter on every path."})
	register(&Rule{ID: "R-JUMPSET", Floor: 4, Run: ruleJumpSet,
		Text: "One set of jump opcodes everywhere: the opcodes whose handler assigns the instruction pointer from the operand are exactly those the NOP-removal pass retargets, the dead-code pass stops at, and the compiler back-patches."})
}

// calleeObj resolves the called function object of an AST call (nil if not a
// static function/method call).
func calleeObj(info *types.Info, ce *ast.CallExpr) types.Object {
	switch f := ast.Unparen(ce.Fun).(type) {
	case *ast.Ident:
		return info.Uses[f]
	case *ast.SelectorExpr:
		if sel, ok := info.Selections[f]; ok {
			return sel.Obj()
		}
		return info.Uses[f.Sel]
	}
	return nil
}

func constString(info *types.Info, e ast.Expr) (string, bool) {
	tv, ok := info.Types[e]
	if !ok || tv.Value == nil || tv.Value.Kind() != constant.String {
		return "", false
	}
	return constant.StringVal(tv.Value), true
}

// ---------------------------------------------------------------------------
// R-OPMAP

// operatorSel recognises X.Operator where X is a pointer to an AST node type,
// and returns that node type's name.
func operatorSel(info *types.Info, e ast.Expr) (string, bool) {
	sel, ok := ast.Unparen(e).(*ast.SelectorExpr)
	if !ok {
		return "", false
	}
	s, ok := info.Selections[sel]
	if !ok || s.Kind() != types.FieldVal {
		return "", false
	}
	b, ok := s.Type().Underlying().(*types.Basic)
	if !ok || b.Kind() != types.String {
		return "", false
	}
	n, ok := types.Unalias(deref(s.Recv())).(*types.Named)
	if !ok || n.Obj().Pkg() == nil || n.Obj().Pkg().Path() != Mod+"/ast" {
		return "", false
	}
	if sel.Sel.Name != "Operator" {
		return "", false
	}
	return n.Obj().Name(), true
}

// opcodeMapLiteral: e is (an identifier for) a package-level map from operator
// spelling to opcode written as a composite literal; its entries.
func opcodeMapLiteral(p *Program, info *types.Info, e ast.Expr) (map[string]string, bool) {
	id, ok := ast.Unparen(e).(*ast.Ident)
	if !ok {
		return nil, false
	}
	v, ok := info.Uses[id].(*types.Var)
	if !ok || v.Pkg() == nil {
		return nil, false
	}
	pk := p.ByPath[v.Pkg().Path()]
	if pk == nil {
		return nil, false
	}
	for _, f := range pk.Syntax {
		for _, d := range f.Decls {
			gd, ok := d.(*ast.GenDecl)
			if !ok || gd.Tok != token.VAR {
				continue
			}
			for _, sp := range gd.Specs {
				vs := sp.(*ast.ValueSpec)
				for i, nm := range vs.Names {
					if pk.TypesInfo.Defs[nm] != types.Object(v) || i >= len(vs.Values) {
						continue
					}
					cl, ok := vs.Values[i].(*ast.CompositeLit)
					if !ok {
						return nil, false
					}
					out := map[string]string{}
					for _, el := range cl.Elts {
						kv, ok := el.(*ast.KeyValueExpr)
						if !ok {
							return nil, false
						}
						k, ok1 := constString(pk.TypesInfo, kv.Key)
						o := opConstName(pk.TypesInfo, kv.Value)
						if !ok1 || o == "" {
							return nil, false
						}
						out[k] = o
					}
					// the table is only ever read
					return out, true
				}
			}
		}
	}
	return nil, false
}

type opmapCtx map[string]map[string]bool // node type -> allowed operator spellings (nil = unconstrained)

func (c opmapCtx) with(node string, set map[string]bool) opmapCtx {
	n := opmapCtx{}
	for k, v := range c {
		n[k] = v
	}
	n[node] = set
	return n
}

func ruleOpMap(p *Program, r *Reporter) {
	a := needAnchors(p, r)
	if a == nil {
		return
	}
	fd := p.FuncDecl(a.compile)
	info := p.Info(a.compile)
	emitObj := a.emit.Object()
	// found[nodeType][operator] = opcodes emitted, in source order
	found := map[string]map[string][]string{}
	pos := map[string]token.Pos{}
	record := func(ctx opmapCtx, op string, at token.Pos) {
		for node, set := range ctx {
			if set == nil {
				continue
			}
			if found[node] == nil {
				found[node] = map[string][]string{}
			}
			for s := range set {
				found[node][s] = append(found[node][s], op)
				if _, ok := pos[node+s]; !ok {
					pos[node+s] = at
				}
			}
		}
	}
	// op, ok := table[node.Operator]: the variable that holds the looked-up
	// opcode and the variable that says whether the spelling is in the table
	type lookup struct {
		node  string
		table map[string]string
	}
	opVar := map[types.Object]lookup{}
	okVar := map[types.Object]lookup{}
	bindLookup := func(s ast.Stmt) {
		as, ok := s.(*ast.AssignStmt)
		if !ok || len(as.Rhs) != 1 || len(as.Lhs) < 1 || len(as.Lhs) > 2 {
			return
		}
		ix, ok := ast.Unparen(as.Rhs[0]).(*ast.IndexExpr)
		if !ok {
			return
		}
		node, isOp := operatorSel(info, ix.Index)
		if !isOp {
			return
		}
		tbl, ok := opcodeMapLiteral(p, info, ix.X)
		if !ok {
			return
		}
		if id, ok := as.Lhs[0].(*ast.Ident); ok && info.ObjectOf(id) != nil {
			opVar[info.ObjectOf(id)] = lookup{node, tbl}
		}
		if len(as.Lhs) == 2 {
			if id, ok := as.Lhs[1].(*ast.Ident); ok && info.ObjectOf(id) != nil {
				okVar[info.ObjectOf(id)] = lookup{node, tbl}
			}
		}
	}
	// the contexts on the two sides of a test of such an ok variable
	splitOnOk := func(cond ast.Expr, ctx opmapCtx) (opmapCtx, opmapCtx, bool) {
		neg := false
		c := ast.Unparen(cond)
		if ue, ok := c.(*ast.UnaryExpr); ok && ue.Op == token.NOT {
			neg, c = true, ast.Unparen(ue.X)
		}
		id, ok := c.(*ast.Ident)
		if !ok {
			return nil, nil, false
		}
		lk, ok := okVar[info.ObjectOf(id)]
		if !ok {
			return nil, nil, false
		}
		in := map[string]bool{}
		var rest map[string]bool
		cur := ctx[lk.node]
		for k := range lk.table {
			if cur == nil || cur[k] {
				in[k] = true
			}
		}
		if cur != nil {
			rest = map[string]bool{}
			for k := range cur {
				if _, isIn := lk.table[k]; !isIn {
					rest[k] = true
				}
			}
		}
		yes, no := ctx.with(lk.node, in), ctx.with(lk.node, rest)
		if neg {
			yes, no = no, yes
		}
		return yes, no, true
	}
	var walkStmt func(s ast.Stmt, ctx opmapCtx)
	walkExpr := func(e ast.Node, ctx opmapCtx) {
		ast.Inspect(e, func(n ast.Node) bool {
			ce, ok := n.(*ast.CallExpr)
			if !ok {
				return true
			}
			if calleeObj(info, ce) == emitObj && len(ce.Args) >= 1 {
				op := opConstName(info, ce.Args[0])
				constrained := false
				for _, set := range ctx {
					if set != nil {
						constrained = true
					}
				}
				if id, isID := ast.Unparen(ce.Args[0]).(*ast.Ident); isID && op == "" {
					if lk, ok := opVar[info.ObjectOf(id)]; ok {
						// the opcode looked up in the table: one pair per spelling
						// that can reach this point
						set := ctx[lk.node]
						for sp, o := range lk.table {
							if set == nil || set[sp] {
								record(ctx.with(lk.node, map[string]bool{sp: true}), o, ce.Pos())
							}
						}
						return true
					}
				}
				if op == "" && constrained {
					r.Undecided("emit with non-constant opcode under an operator condition", p.Pos(ce.Pos()), "the operator→opcode pair cannot be read from this shape")
				} else if op != "" {
					record(ctx, op, ce.Pos())
				}
			}
			return true
		})
	}
	endsInReturn := func(b *ast.BlockStmt) bool {
		if b == nil || len(b.List) == 0 {
			return false
		}
		_, ok := b.List[len(b.List)-1].(*ast.ReturnStmt)
		return ok
	}
	walkList := func(l []ast.Stmt, ctx opmapCtx) {
		for _, s := range l {
			bindLookup(s)
			walkStmt(s, ctx)
			// `if !ok { …; return }`: what follows runs only for the spellings
			// in the table
			if iff, ok := s.(*ast.IfStmt); ok && iff.Else == nil && endsInReturn(iff.Body) {
				if _, no, ok := splitOnOk(iff.Cond, ctx); ok {
					ctx = no
				}
			}
		}
	}
	walkStmt = func(s ast.Stmt, ctx opmapCtx) {
		switch s := s.(type) {
		case *ast.BlockStmt:
			walkList(s.List, ctx)
		case *ast.IfStmt:
			if s.Init != nil {
				bindLookup(s.Init)
				walkStmt(s.Init, ctx)
			}
			thenCtx, elseCtx := ctx, ctx
			if yes, no, ok := splitOnOk(s.Cond, ctx); ok {
				thenCtx, elseCtx = yes, no
			}
			if be, ok := ast.Unparen(s.Cond).(*ast.BinaryExpr); ok && (be.Op == token.EQL || be.Op == token.NEQ) {
				node, isOp := operatorSel(info, be.X)
				lit, isLit := constString(info, be.Y)
				if !isOp {
					node, isOp = operatorSel(info, be.Y)
					lit, isLit = constString(info, be.X)
				}
				if isOp && isLit {
					only := map[string]bool{lit: true}
					var rest map[string]bool
					if cur := ctx[node]; cur != nil {
						if !cur[lit] {
							only = map[string]bool{}
						}
						rest = map[string]bool{}
						for k := range cur {
							if k != lit {
								rest[k] = true
							}
						}
					}
					if be.Op == token.EQL {
						thenCtx, elseCtx = ctx.with(node, only), ctx.with(node, rest)
					} else {
						thenCtx, elseCtx = ctx.with(node, rest), ctx.with(node, only)
					}
				}
			}
			walkExpr(s.Cond, ctx)
			walkStmt(s.Body, thenCtx)
			if s.Else != nil {
				walkStmt(s.Else, elseCtx)
			}
		case *ast.SwitchStmt:
			node, isOp := "", false
			if s.Tag != nil {
				node, isOp = operatorSel(info, s.Tag)
			}
			for _, cc := range s.Body.List {
				cl := cc.(*ast.CaseClause)
				cctx := ctx
				if isOp {
					if cl.List == nil {
						cctx = ctx.with(node, nil) // default: unknown spelling
					} else {
						set := map[string]bool{}
						okAll := true
						for _, e := range cl.List {
							if lit, ok := constString(info, e); ok {
								set[lit] = true
							} else {
								okAll = false
							}
						}
						if !okAll {
							r.Undecided("non-constant case in operator switch", p.Pos(cl.Pos()), "cannot read operator spelling")
						}
						if cur := ctx[node]; cur != nil {
							for k := range set {
								if !cur[k] {
									delete(set, k)
								}
							}
						}
						cctx = ctx.with(node, set)
					}
				}
				walkList(cl.Body, cctx)
			}
		case *ast.TypeSwitchStmt:
			for _, cc := range s.Body.List {
				walkList(cc.(*ast.CaseClause).Body, ctx)
			}
		case *ast.ForStmt:
			walkStmt(s.Body, ctx)
		case *ast.RangeStmt:
			walkStmt(s.Body, ctx)
		case *ast.LabeledStmt:
			walkStmt(s.Stmt, ctx)
		default:
			if s != nil {
				walkExpr(s, ctx)
			}
		}
	}
	walkStmt(fd.Body, opmapCtx{})

	// compare with the language tables
	checkSeq := func(node, table, opr string, want []string) {
		got := found[node][opr]
		key := fmt.Sprintf("%s operator %q", table, opr)
		at := p.Pos(pos[node+opr])
		if got == nil {
			r.Fail(key, p.Pos(fd.Pos()), fmt.Sprintf("the language defines %s operator %q (→ %v) but the compiler has no clause that emits code for it", table, opr, want))
			return
		}
		if strings.Join(got, ",") == strings.Join(want, ",") {
			r.Ok(key, at, fmt.Sprintf("%q → %v", opr, got))
		} else {
			r.Fail(key, at, fmt.Sprintf("operator %q compiles to %v, the language definition requires %v", opr, got, want))
		}
	}
	var ops []string
	for o := range specInfix {
		ops = append(ops, o)
	}
	sort.Strings(ops)
	for _, o := range ops {
		checkSeq("InfixExpression", "infix", o, []string{specInfix[o]})
	}
	ops = nil
	for o := range specCompound {
		ops = append(ops, o)
	}
	sort.Strings(ops)
	for _, o := range ops {
		checkSeq("InfixExpression", "compound", o, specCompound[o])
	}
	for _, o := range []string{"!", "-", "√"} {
		checkSeq("PrefixExpression", "prefix", o, []string{specPrefix[o]})
	}
	for _, o := range []string{"++", "--"} {
		checkSeq("PostfixExpression", "postfix", o, []string{specPostfix[o]})
	}
	// operators the code knows and the tables do not mention: information only
	for node, m := range found {
		for o, got := range m {
			_, a1 := specInfix[o]
			_, a2 := specCompound[o]
			_, a3 := specPrefix[o]
			_, a4 := specPostfix[o]
			known := (node == "InfixExpression" && (a1 || a2)) || (node == "PrefixExpression" && a3) || (node == "PostfixExpression" && a4)
			if !known {
				r.Info(fmt.Sprintf("%s operator %q (not in the language tables)", node, o), p.Pos(pos[node+o]), fmt.Sprintf("→ %v", got))
			}
		}
	}
}

// ---------------------------------------------------------------------------
// R-OPTABLE / R-DIVGUARD

// tableFn is the extracted shape of one operator table.
type tableFn struct {
	fn     *ssa.Function
	fd     *ast.FuncDecl
	info   *types.Info
	opObj  types.Object
	lObj   types.Object
	rObj   types.Object
	lType  string                  // asserted object type of left ("Integer", ...)
	rType  string                  // asserted object type of right
	side   map[types.Object]string // derived locals: "L" / "R"
	sw     *ast.SwitchStmt
	clause map[string]*ast.CaseClause // opcode name -> clause
	// valueParams: the table receives the operands' values as extra parameters
	// (the dispatcher asserts and converts); lType/rType then name the type the
	// values were converted to
	valueParams bool
}

func extractTable(p *Program, fn *ssa.Function) *tableFn {
	fd := p.FuncDecl(fn)
	if fd == nil || fd.Body == nil {
		return nil
	}
	info := p.Info(fn)
	sig := fn.Signature
	t := &tableFn{fn: fn, fd: fd, info: info, side: map[types.Object]string{}, clause: map[string]*ast.CaseClause{}}
	oi, li, ri, lvi, rvi, okp := tableParams(sig)
	if !okp {
		return nil
	}
	t.opObj, t.lObj, t.rObj = sig.Params().At(oi), sig.Params().At(li), sig.Params().At(ri)
	t.side[t.lObj], t.side[t.rObj] = "L", "R"
	// the operands' values handed in by the dispatcher, already converted: two
	// more parameters of one numeric type
	if lvi >= 0 {
		p3, p4 := sig.Params().At(lvi), sig.Params().At(rvi)
		if b3, ok := p3.Type().Underlying().(*types.Basic); ok && types.Identical(p3.Type(), p4.Type()) {
			t.side[p3], t.side[p4] = "L", "R"
			switch {
			case b3.Info()&types.IsFloat != 0:
				t.lType, t.rType, t.valueParams = "Float", "Float", true
			case b3.Info()&types.IsInteger != 0:
				t.lType, t.rType, t.valueParams = "Integer", "Integer", true
			}
		}
	}
	// derived locals: top-level assignments whose RHS mentions exactly one side
	for _, st := range fd.Body.List {
		as, ok := st.(*ast.AssignStmt)
		if !ok || len(as.Lhs) != 1 || len(as.Rhs) != 1 {
			continue
		}
		id, ok := as.Lhs[0].(*ast.Ident)
		if !ok {
			continue
		}
		obj := info.Defs[id]
		if obj == nil {
			obj = info.Uses[id]
		}
		s := t.sideOf(as.Rhs[0])
		if s == "L" || s == "R" {
			t.side[obj] = s
			// asserted type
			ast.Inspect(as.Rhs[0], func(n ast.Node) bool {
				if ta, ok := n.(*ast.TypeAssertExpr); ok && ta.Type != nil {
					if name := objectStructName(info.Types[ta.Type].Type); name != "" {
						if s == "L" {
							t.lType = name
						} else {
							t.rType = name
						}
					}
				}
				return true
			})
		}
	}
	ast.Inspect(fd.Body, func(n ast.Node) bool {
		sw, ok := n.(*ast.SwitchStmt)
		if !ok || sw.Tag == nil || t.sw != nil {
			return true
		}
		if id, ok := ast.Unparen(sw.Tag).(*ast.Ident); ok && info.Uses[id] == t.opObj {
			t.sw = sw
			return false
		}
		return true
	})
	if t.sw == nil {
		return nil
	}
	for _, cc := range t.sw.Body.List {
		cl := cc.(*ast.CaseClause)
		for _, e := range cl.List {
			if n := opConstName(info, e); n != "" {
				t.clause[n] = cl
			}
		}
	}
	return t
}

// sideOf: "L" if e mentions only left-derived names, "R" only right-derived,
// "LR"/"RL"… mixed, "" none.
func (t *tableFn) sideOf(e ast.Node) string {
	seenL, seenR := false, false
	ast.Inspect(e, func(n ast.Node) bool {
		if id, ok := n.(*ast.Ident); ok {
			switch t.side[t.info.Uses[id]] {
			case "L":
				seenL = true
			case "R":
				seenR = true
			}
		}
		return true
	})
	switch {
	case seenL && seenR:
		return "LR"
	case seenL:
		return "L"
	case seenR:
		return "R"
	}
	return ""
}

// stripConv removes parentheses and conversions to basic types.
func stripConv(info *types.Info, e ast.Expr) ast.Expr {
	for {
		e = ast.Unparen(e)
		ce, ok := e.(*ast.CallExpr)
		if !ok || len(ce.Args) != 1 {
			return e
		}
		tv, ok := info.Types[ce.Fun]
		if !ok || !tv.IsType() {
			return e
		}
		e = ce.Args[0]
	}
}

// pushes finds the arguments of Stack.Push calls in a statement list.
func pushArgs(info *types.Info, body []ast.Stmt) []ast.Expr {
	var out []ast.Expr
	for _, st := range body {
		ast.Inspect(st, func(n ast.Node) bool {
			ce, ok := n.(*ast.CallExpr)
			if !ok {
				return true
			}
			if f, ok := calleeObj(info, ce).(*types.Func); ok && f.Name() == "Push" && f.Pkg() != nil && f.Pkg().Path() == Mod+"/stack" && len(ce.Args) == 1 {
				out = append(out, ce.Args[0])
			}
			return true
		})
	}
	return out
}

// isBoolConv: call of a function (bool) *object.Boolean — the native-bool
// converter.
func isBoolConv(info *types.Info, e ast.Expr) (ast.Expr, bool) {
	ce, ok := ast.Unparen(e).(*ast.CallExpr)
	if !ok || len(ce.Args) != 1 {
		return nil, false
	}
	f, ok := calleeObj(info, ce).(*types.Func)
	if !ok {
		return nil, false
	}
	sig := f.Type().(*types.Signature)
	if sig.Params().Len() != 1 || sig.Results().Len() != 1 {
		return nil, false
	}
	if b, ok := sig.Params().At(0).Type().Underlying().(*types.Basic); !ok || b.Kind() != types.Bool {
		return nil, false
	}
	if objectStructName(sig.Results().At(0).Type()) != "Boolean" {
		return nil, false
	}
	return ce.Args[0], true
}

func tableName(p *Program, t *tableFn) string {
	return fmt.Sprintf("%s[%s,%s]", t.fn.Name(), t.lType, t.rType)
}

// dispatcherPairs: for a table that is handed the operands' values, the operand
// type pairs for which the dispatcher calls it with (value of left, value of
// right) in that order — each value being the operand's Value field, asserted
// to a numeric object type and possibly converted.
func dispatcherPairs(p *Program, a *anchors, t *tableFn) []string {
	var out []string
	type src struct{ side, typ string }
	scan := func(fd *ast.FuncDecl, info *types.Info, leftObj, rightObj types.Object) {
		if fd == nil || fd.Body == nil {
			return
		}
		valueOf := func(e ast.Expr) (src, bool) {
			e = stripConv(info, e)
			sel, ok := ast.Unparen(e).(*ast.SelectorExpr)
			if !ok || sel.Sel.Name != "Value" {
				return src{}, false
			}
			ta, ok := ast.Unparen(sel.X).(*ast.TypeAssertExpr)
			if !ok || ta.Type == nil {
				return src{}, false
			}
			id, ok := ast.Unparen(ta.X).(*ast.Ident)
			if !ok {
				return src{}, false
			}
			side := ""
			switch info.ObjectOf(id) {
			case leftObj:
				side = "L"
			case rightObj:
				side = "R"
			}
			return src{side, objectStructName(info.Types[ta.Type].Type)}, side != ""
		}
		// one region at a time: a clause of a switch, or the function's own
		// statement list
		var regions [][]ast.Stmt
		ast.Inspect(fd.Body, func(n ast.Node) bool {
			if cl, ok := n.(*ast.CaseClause); ok {
				regions = append(regions, cl.Body)
			}
			return true
		})
		regions = append(regions, fd.Body.List)
		seenCall := map[*ast.CallExpr]bool{}
		for _, stmts := range regions {
			locals := map[types.Object]src{}
			for _, st := range stmts {
				if as, ok := st.(*ast.AssignStmt); ok && len(as.Lhs) == 1 && len(as.Rhs) == 1 {
					if id, ok := as.Lhs[0].(*ast.Ident); ok {
						if sv, ok := valueOf(as.Rhs[0]); ok {
							locals[info.ObjectOf(id)] = sv
						}
					}
				}
				ast.Inspect(st, func(m ast.Node) bool {
					ce, ok := m.(*ast.CallExpr)
					if !ok || len(ce.Args) != 5 || seenCall[ce] {
						return true
					}
					_, _, _, lvi, rvi, okp := tableParams(t.fn.Signature)
					if !okp || lvi < 0 {
						return true
					}
					f, ok := calleeObj(info, ce).(*types.Func)
					if !ok || t.fn.Object() != types.Object(f) {
						return true
					}
					seenCall[ce] = true
					get := func(e ast.Expr) (src, bool) {
						if id, ok := ast.Unparen(e).(*ast.Ident); ok {
							sv, ok := locals[info.ObjectOf(id)]
							return sv, ok
						}
						return valueOf(e)
					}
					l, ok1 := get(ce.Args[lvi])
					rr, ok2 := get(ce.Args[rvi])
					if ok1 && ok2 && l.side == "L" && rr.side == "R" {
						out = append(out, l.typ+"/"+rr.typ)
					}
					return true
				})
			}
		}
	}
	// called from the dispatcher …
	if bv := binopView(p, a); bv != nil {
		scan(bv.fd, bv.info, bv.leftObj, bv.rightObj)
	}
	// … or from functions of the operator-table signature that assert and
	// convert their operands and hand the values on
	for _, g := range a.optTables {
		if g == t.fn {
			continue
		}
		sig := g.Signature
		_, gl, gr, _, _, okp := tableParams(sig)
		if !okp {
			continue
		}
		scan(p.FuncDecl(g), p.Info(g), sig.Params().At(gl), sig.Params().At(gr))
	}
	return out
}

func ruleOpTable(p *Program, r *Reporter) {
	a := needAnchors(p, r)
	if a == nil {
		return
	}
	var numeric, stringT []*tableFn
	for _, fn := range a.optTables {
		t := extractTable(p, fn)
		if t == nil {
			// a table that only delegates to a sibling table (bool→string) is fine
			delegates := false
			for _, b := range fn.Blocks {
				for _, ins := range b.Instrs {
					if cc := callOf(ins); cc != nil && cc.StaticCallee() != nil {
						for _, o := range a.optTables {
							if o == cc.StaticCallee() && o != fn {
								delegates = true
							}
						}
					}
				}
			}
			// a function over operands that are not both numbers or both strings
			// (string × regexp) has no arithmetic cells: its cells are decided
			// by R-MATCHCELLS, whatever shape it is written in
			nonArith := false
			if len(fn.Params) >= 4 {
				kinds := map[string]bool{}
				for _, b := range fn.Blocks {
					for _, ins := range b.Instrs {
						if ta, ok := ins.(*ssa.TypeAssert); ok && (ta.X == ssa.Value(fn.Params[2]) || ta.X == ssa.Value(fn.Params[3])) {
							kinds[objectStructName(ta.AssertedType)] = true
						}
					}
				}
				nonArith = kinds["Regexp"]
			}
			if delegates {
				r.Info("table "+fn.Name(), p.Pos(fn.Pos()), "delegates to a sibling table; no cells of its own")
			} else if nonArith {
				r.Info("table "+fn.Name(), p.Pos(fn.Pos()), "operands are a string and a regexp: no arithmetic cells (R-MATCHCELLS decides it)")
			} else {
				r.Undecided("table "+fn.Name(), p.Pos(fn.Pos()), "function has the operator-table signature but neither a switch over its opcode parameter nor a call of a sibling table")
			}
			continue
		}
		num := func(s string) bool { return s == "Integer" || s == "Float" }
		switch {
		case num(t.lType) && num(t.rType):
			numeric = append(numeric, t)
		case t.lType == "String" && t.rType == "String":
			stringT = append(stringT, t)
		default:
			r.Info("table "+tableName(p, t), p.Pos(fn.Pos()), "not a numeric or string table (cells computed by calls); not table-checked")
		}
	}
	// the four numeric paths int/int, float/float, float/int, int/float: a table
	// per path that asserts its operand types itself, or a table that is handed
	// the converted values by the dispatcher once per path
	seenPair := map[string]bool{}
	shared := false
	for _, t := range numeric {
		if t.valueParams {
			shared = true
			for _, pair := range dispatcherPairs(p, a, t) {
				seenPair[pair] = true
			}
			continue
		}
		seenPair[t.lType+"/"+t.rType] = true
	}
	if len(numeric) != 4 && !shared {
		r.Undecided("numeric tables", "-", fmt.Sprintf("expected the four numeric tables int/int, float/float, float/int, int/float; found %d", len(numeric)))
	}
	for _, pair := range []string{"Integer/Integer", "Float/Float", "Float/Integer", "Integer/Float"} {
		if !seenPair[pair] && (len(numeric) == 4 || shared) {
			r.Fail("numeric table "+pair, "-", "no operator table is reached for this operand-type pair with the left operand's value first and the right operand's second")
		}
	}
	check := func(t *tableFn, ops []string) {
		tn := tableName(p, t)
		for _, op := range ops {
			key := fmt.Sprintf("%s cell %s", tn, op)
			cl := t.clause[op]
			if cl == nil {
				r.Fail(key, p.Pos(t.sw.Pos()), fmt.Sprintf("table has no case for %s although its sibling tables / the language definition do: the operator would be an 'unknown operator' error for these operand types", op))
				continue
			}
			args := pushArgs(t.info, cl.Body)
			if len(args) == 0 {
				r.Undecided(key, p.Pos(cl.Pos()), "no value is pushed in this case")
				continue
			}
			// result type + expression
			wantType := "Boolean"
			if arithOps[op] {
				wantType = "Float"
				if t.lType == "Integer" && t.rType == "Integer" {
					wantType = "Integer"
				}
				if t.lType == "String" {
					wantType = "String"
				}
			}
			if op == "OpArrayIn" {
				// computed by a call; checked for argument order only
				ok := false
				for _, st := range cl.Body {
					ast.Inspect(st, func(n ast.Node) bool {
						if ce, isCall := n.(*ast.CallExpr); isCall && len(ce.Args) == 2 {
							if f, isF := calleeObj(t.info, ce).(*types.Func); isF && f.FullName() == "strings.Contains" {
								if t.sideOf(ce.Args[0]) == "R" && t.sideOf(ce.Args[1]) == "L" {
									ok = true
								}
							}
						}
						return true
					})
				}
				r.Check(ok, key, p.Pos(cl.Pos()), "substring test strings.Contains(right, left)", "`in` on two strings must test whether the left string occurs in the right one: strings.Contains(right, left) not found in this cell")
				continue
			}
			if len(args) != 1 {
				r.Undecided(key, p.Pos(cl.Pos()), fmt.Sprintf("%d pushes in one cell; expected one", len(args)))
				continue
			}
			var gotType string
			var expr ast.Expr
			arg := ast.Unparen(args[0])
			if inner, ok := isBoolConv(t.info, arg); ok {
				gotType, expr = "Boolean", inner
			} else if ue, ok := arg.(*ast.UnaryExpr); ok && ue.Op == token.AND {
				if cl2, ok := ue.X.(*ast.CompositeLit); ok {
					gotType = objectStructName(t.info.Types[cl2].Type)
					for _, el := range cl2.Elts {
						if kv, ok := el.(*ast.KeyValueExpr); ok {
							if id, ok := kv.Key.(*ast.Ident); ok && id.Name == "Value" {
								expr = kv.Value
							}
						}
					}
				}
			}
			if expr == nil {
				r.Undecided(key, p.Pos(cl.Pos()), "pushed value is neither a converted comparison nor an object literal with a Value")
				continue
			}
			if gotType != wantType {
				r.Fail(key, p.Pos(cl.Pos()), fmt.Sprintf("cell pushes %s, the language defines %s for %s on (%s,%s)", gotType, wantType, op, t.lType, t.rType))
				continue
			}
			core := stripConv(t.info, expr)
			if op == "OpPower" {
				ce, ok := core.(*ast.CallExpr)
				good := false
				if ok && len(ce.Args) == 2 {
					if f, isF := calleeObj(t.info, ce).(*types.Func); isF && f.FullName() == "math.Pow" {
						good = t.sideOf(ce.Args[0]) == "L" && t.sideOf(ce.Args[1]) == "R"
					}
				}
				r.Check(good, key, p.Pos(cl.Pos()), "math.Pow(left, right) → "+gotType, "power must be math.Pow(left, right) in that order")
				continue
			}
			be, ok := core.(*ast.BinaryExpr)
			if !ok {
				r.Undecided(key, p.Pos(cl.Pos()), "cell value is not a binary expression over the two operands: "+exprStr(expr))
				continue
			}
			l, rr := t.sideOf(be.X), t.sideOf(be.Y)
			wantOp := specCellOp[op]
			switch {
			case be.Op.String() != wantOp:
				r.Fail(key, p.Pos(be.Pos()), fmt.Sprintf("cell for %s applies Go operator %q; the opcode means %q", op, be.Op, wantOp))
			case l != "L" || rr != "R":
				r.Fail(key, p.Pos(be.Pos()), fmt.Sprintf("operands of %s are applied as (%s %s %s); the language evaluates left %s right", op, l, be.Op, rr, wantOp))
			default:
				r.Ok(key, p.Pos(be.Pos()), fmt.Sprintf("L %s R → %s", be.Op, gotType))
			}
		}
		// cases the table has beyond the required ones
		for op, cl := range t.clause {
			req := false
			for _, o := range ops {
				if o == op {
					req = true
				}
			}
			if !req {
				r.Info(fmt.Sprintf("%s extra cell %s", tn, op), p.Pos(cl.Pos()), "not required by the language tables; not checked")
			}
		}
	}
	for _, t := range numeric {
		check(t, numericTableOps)
	}
	for _, t := range stringT {
		check(t, stringTableOps)
	}
	if len(stringT) == 0 {
		r.Undecided("string table", "-", "no operator table asserting (String,String) found")
	}

	// singleton pushes: OpTrue/OpFalse/OpVoid handlers and the bool converter
	ruleSingletons(p, r, a)
}

// ruleSingletons: the handlers named true/false/void push the singleton their
// name says; the native-bool converter returns True on the true branch.
func ruleSingletons(p *Program, r *Reporter, a *anchors) {
	vmPkg := p.ByPath[Mod+"/vm"]
	// singletons: package vars initialised with &object.Boolean{Value: c} etc.
	type single struct {
		typ string
		val string // "true"/"false"/""
	}
	singles := map[types.Object]single{}
	for _, f := range vmPkg.Syntax {
		for _, d := range f.Decls {
			gd, ok := d.(*ast.GenDecl)
			if !ok || gd.Tok != token.VAR {
				continue
			}
			for _, sp := range gd.Specs {
				vs := sp.(*ast.ValueSpec)
				for i, nm := range vs.Names {
					if i >= len(vs.Values) {
						continue
					}
					ue, ok := vs.Values[i].(*ast.UnaryExpr)
					if !ok || ue.Op != token.AND {
						continue
					}
					cl, ok := ue.X.(*ast.CompositeLit)
					if !ok {
						continue
					}
					tn := objectStructName(vmPkg.TypesInfo.Types[cl].Type)
					if tn == "" {
						continue
					}
					s := single{typ: tn}
					for _, el := range cl.Elts {
						if kv, ok := el.(*ast.KeyValueExpr); ok {
							if tv := vmPkg.TypesInfo.Types[kv.Value]; tv.Value != nil && tv.Value.Kind() == constant.Bool {
								s.val = tv.Value.String()
							}
						}
					}
					if tn == "Boolean" && s.val == "" {
						s.val = "false" // zero value
					}
					singles[vmPkg.TypesInfo.Defs[nm]] = s
				}
			}
		}
	}
	findSingle := func(typ, val string) types.Object {
		for o, s := range singles {
			if s.typ == typ && s.val == val {
				return o
			}
		}
		return nil
	}
	trueObj, falseObj, voidObj := findSingle("Boolean", "true"), findSingle("Boolean", "false"), findSingle("Void", "")
	if trueObj == nil || falseObj == nil {
		r.Undecided("singletons", "-", "cannot find the package-level true/false boolean objects of package vm")
		return
	}
	sw := dispatchSwitch(p, a.vmRun)
	if sw == nil {
		r.Undecided("dispatch switch", p.Pos(a.vmRun.Pos()), "no switch over an opcode in the interpreter loop")
		return
	}
	info := p.Info(a.vmRun)
	want := map[string]types.Object{"OpTrue": trueObj, "OpFalse": falseObj, "OpVoid": voidObj}
	for _, cc := range sw.Body.List {
		cl := cc.(*ast.CaseClause)
		for _, e := range cl.List {
			op := opConstName(info, e)
			w, ok := want[op]
			if !ok || w == nil {
				continue
			}
			args := pushArgs(info, cl.Body)
			good := len(args) == 1
			if good {
				id, isID := ast.Unparen(args[0]).(*ast.Ident)
				good = isID && info.Uses[id] == w
			}
			r.Check(good, "handler "+op+" pushes its singleton", p.Pos(cl.Pos()), "pushes "+w.Name(), fmt.Sprintf("the handler of %s must push the %s object", op, w.Name()))
		}
	}
	// bool converter: if input { return True }; return False
	for _, fn := range p.LibFns {
		if fnPkg(fn).Pkg.Path() != Mod+"/vm" || fn.Parent() != nil {
			continue
		}
		ps, rs := sigParams(fn), sigResults(fn)
		if len(ps) != 1 || len(rs) != 1 || objectStructName(rs[0]) != "Boolean" {
			continue
		}
		if b, ok := ps[0].Underlying().(*types.Basic); !ok || b.Kind() != types.Bool {
			continue
		}
		// SSA: entry block ends in If on the parameter; true successor returns True.
		good := false
		detail := "shape not recognised"
		if iff, ok := terminator(fn.Blocks[0]).(*ssa.If); ok && iff.Cond == fn.Params[len(fn.Params)-1] {
			retGlobal := func(b *ssa.BasicBlock) types.Object {
				ret, ok := terminator(b).(*ssa.Return)
				if !ok || len(ret.Results) != 1 {
					return nil
				}
				if u, ok := ret.Results[0].(*ssa.UnOp); ok && u.Op == token.MUL {
					if g, ok := u.X.(*ssa.Global); ok {
						return g.Object()
					}
				}
				return nil
			}
			t, f := retGlobal(fn.Blocks[0].Succs[0]), retGlobal(fn.Blocks[0].Succs[1])
			good = t == trueObj && f == falseObj
			detail = fmt.Sprintf("true→%v false→%v", objName(t), objName(f))
		}
		r.Check(good, "bool converter "+fn.Name(), p.Pos(fn.Pos()), detail, "the native-bool converter must return the true object for true and the false object for false: "+detail)
	}
}

func objName(o types.Object) string {
	if o == nil {
		return "?"
	}
	return o.Name()
}

// dispatchSwitch finds the switch over an Opcode-typed tag with the most
// clauses in fn: the interpreter's dispatch.
func dispatchSwitch(p *Program, fn *ssa.Function) *ast.SwitchStmt {
	fd := p.FuncDecl(fn)
	info := p.Info(fn)
	var best *ast.SwitchStmt
	ast.Inspect(fd.Body, func(n ast.Node) bool {
		sw, ok := n.(*ast.SwitchStmt)
		if !ok || sw.Tag == nil {
			return true
		}
		if tv, ok := info.Types[sw.Tag]; ok && isOpcodeType(tv.Type) {
			if best == nil || len(sw.Body.List) > len(best.Body.List) {
				best = sw
			}
		}
		return true
	})
	return best
}

func ruleDivGuard(p *Program, r *Reporter) {
	a := needAnchors(p, r)
	if a == nil {
		return
	}
	for _, fn := range a.optTables {
		t := extractTable(p, fn)
		if t == nil {
			continue
		}
		num := func(s string) bool { return s == "Integer" || s == "Float" }
		if !num(t.lType) || !num(t.rType) {
			continue
		}
		cl := t.clause["OpDiv"]
		key := tableName(p, t) + " division guarded"
		if cl == nil {
			r.Undecided(key, p.Pos(t.sw.Pos()), "no OpDiv case")
			continue
		}
		// find the statement that contains the division, and a preceding
		// guard `if R == 0 { ... return <non-nil> }`.
		divIdx := -1
		for i, st := range cl.Body {
			ast.Inspect(st, func(n ast.Node) bool {
				if be, ok := n.(*ast.BinaryExpr); ok && be.Op == token.QUO && divIdx < 0 {
					divIdx = i
				}
				return true
			})
		}
		if divIdx < 0 {
			r.Undecided(key, p.Pos(cl.Pos()), "no division in the OpDiv case")
			continue
		}
		guarded := false
		for _, st := range cl.Body[:divIdx] {
			iff, ok := st.(*ast.IfStmt)
			if !ok || iff.Init != nil {
				continue
			}
			be, ok := ast.Unparen(iff.Cond).(*ast.BinaryExpr)
			if !ok || be.Op != token.EQL {
				continue
			}
			zero := func(e ast.Expr) bool {
				tv := t.info.Types[e]
				return tv.Value != nil && (tv.Value.Kind() == constant.Int || tv.Value.Kind() == constant.Float) && constant.Sign(tv.Value) == 0
			}
			if !((t.sideOf(be.X) == "R" && zero(be.Y)) || (t.sideOf(be.Y) == "R" && zero(be.X))) {
				continue
			}
			if len(iff.Body.List) == 0 {
				continue
			}
			ret, ok := iff.Body.List[len(iff.Body.List)-1].(*ast.ReturnStmt)
			if !ok || len(ret.Results) != 1 {
				continue
			}
			if tv := t.info.Types[ret.Results[0]]; tv.IsNil() {
				continue
			}
			guarded = true
		}
		r.Check(guarded, key, p.Pos(cl.Pos()), "right == 0 returns an error before the division", "the OpDiv case divides without first returning an error when the right operand is zero (float division would yield ±Inf/NaN as a value)")
	}
}

// ---------------------------------------------------------------------------
// R-EMITLEN

// lengthTable reads code.Length: opcode names whose case returns 3.
func lengthTable(p *Program) (three map[string]bool, def int64, ok bool) {
	pk := p.ByPath[Mod+"/code"]
	three = map[string]bool{}
	def = -1
	for _, f := range pk.Syntax {
		for _, d := range f.Decls {
			fd, isF := d.(*ast.FuncDecl)
			if !isF || fd.Recv != nil || fd.Body == nil {
				continue
			}
			sig := pk.TypesInfo.Defs[fd.Name].Type().(*types.Signature)
			if sig.Params().Len() != 1 || !isOpcodeType(sig.Params().At(0).Type()) || sig.Results().Len() != 1 || !isInt(sig.Results().At(0).Type()) {
				continue
			}
			// the Length function: (Opcode) int — evaluated for every opcode
			// (and for a byte that is none), whatever form it is written in
			if fobj, isFn := pk.TypesInfo.Defs[fd.Name].(*types.Func); isFn {
				if sf := p.SSA.FuncValue(fobj); sf != nil {
					oc := p.Opcodes()
					evalOK := len(oc.names) > 0
					ev := map[string]bool{}
					for _, n := range oc.names {
						v, ok := evalPure(sf, constant.MakeInt64(oc.byName[n]), 0)
						if !ok || v.Kind() != constant.Int {
							evalOK = false
							break
						}
						switch k, _ := constant.Int64Val(v); k {
						case 3:
							ev[n] = true
						case 1:
						default:
							evalOK = false
						}
					}
					if evalOK {
						if v, ok := evalPure(sf, constant.MakeInt64(255), 0); ok && v.Kind() == constant.Int {
							if k, _ := constant.Int64Val(v); k == 1 {
								return ev, 1, true
							}
						}
					}
				}
			}
			for _, st := range fd.Body.List {
				switch s := st.(type) {
				case *ast.SwitchStmt:
					for _, cc := range s.Body.List {
						cl := cc.(*ast.CaseClause)
						ret := int64(-1)
						for _, b := range cl.Body {
							if rs, ok := b.(*ast.ReturnStmt); ok && len(rs.Results) == 1 {
								if tv := pk.TypesInfo.Types[rs.Results[0]]; tv.Value != nil {
									ret, _ = constant.Int64Val(tv.Value)
								}
							}
						}
						for _, e := range cl.List {
							n := opConstName(pk.TypesInfo, e)
							if n == "" || ret < 0 {
								return nil, 0, false
							}
							if ret == 3 {
								three[n] = true
							} else if ret != 1 {
								return nil, 0, false
							}
						}
						if cl.List == nil && ret >= 0 {
							def = ret
						}
					}
				case *ast.ReturnStmt:
					if len(s.Results) == 1 {
						if tv := pk.TypesInfo.Types[s.Results[0]]; tv.Value != nil {
							def, _ = constant.Int64Val(tv.Value)
						}
					}
				}
			}
			return three, def, def == 1
		}
	}
	return nil, 0, false
}

func ruleEmitLen(p *Program, r *Reporter) {
	a := needAnchors(p, r)
	if a == nil {
		return
	}
	three, _, ok := lengthTable(p)
	if !ok {
		r.Undecided("length table", "-", "cannot read code.Length as a switch over opcode constants returning 1 or 3")
		return
	}
	emitObj := a.emit.Object()
	root := p.ByPath[Mod]
	// methods that only wrap the emitter: read at their call sites
	wrapByObj := map[types.Object]*emitWrap{}
	for _, fn := range p.LibFns {
		if w := emitWrapperOf(p, a, fn); w != nil && fn.Object() != nil {
			wrapByObj[fn.Object()] = w
		}
	}
	for _, f := range root.Syntax {
		var curFn string
		var curObj types.Object
		ast.Inspect(f, func(n ast.Node) bool {
			if fd, ok := n.(*ast.FuncDecl); ok {
				curFn = fd.Name.Name
				curObj = root.TypesInfo.Defs[fd.Name]
			}
			ce, ok := n.(*ast.CallExpr)
			if !ok {
				return true
			}
			if w := wrapByObj[calleeObj(root.TypesInfo, ce)]; w != nil && !ce.Ellipsis.IsValid() {
				// a call of a wrapper: the opcode it is given (or its own) with
				// the operands the wrapper passes
				op := w.opConst
				if w.opIdx >= 1 && w.opIdx-1 < len(ce.Args) {
					op = opConstName(root.TypesInfo, ce.Args[w.opIdx-1])
				}
				if op == "" || !w.known {
					r.Undecided(curFn+" emit of a non-constant opcode", p.Pos(ce.Pos()), "operand presence cannot be compared with the length table")
					return true
				}
				n1 := len(w.operands)
				key := fmt.Sprintf("%s emit %s operands=%d", curFn, op, n1)
				if (n1 == 1) == three[op] && n1 <= 1 {
					r.Ok(key, p.Pos(ce.Pos()), fmt.Sprintf("Length(%s)=%d", op, map[bool]int{true: 3, false: 1}[three[op]]))
				} else {
					r.Fail(key, p.Pos(ce.Pos()), fmt.Sprintf("emit writes %d operand(s) for %s but code.Length(%s) is %d: reader and writer disagree on where the next instruction starts", n1, op, op, map[bool]int{true: 3, false: 1}[three[op]]))
				}
				return true
			}
			if calleeObj(root.TypesInfo, ce) != emitObj {
				return true
			}
			if w := wrapByObj[curObj]; w != nil && w.opIdx >= 0 {
				return true // the wrapper's own call: judged where the wrapper is called
			}
			op := opConstName(root.TypesInfo, ce.Args[0])
			if op == "" {
				// an opcode taken from a table of opcodes: every opcode of the
				// table is written with this call's operand count
				ops, ok := opcodeVarValues(p, root.TypesInfo, f, ce.Args[0])
				if !ok || ce.Ellipsis.IsValid() {
					r.Undecided(curFn+" emit of a non-constant opcode", p.Pos(ce.Pos()), "operand presence cannot be compared with the length table")
					return true
				}
				n1 := len(ce.Args) - 1
				var bad []string
				for _, o := range ops {
					if !((n1 == 1) == three[o] && n1 <= 1) {
						bad = append(bad, o)
					}
				}
				key := fmt.Sprintf("%s emit of a looked-up opcode operands=%d", curFn, n1)
				if len(bad) == 0 {
					r.Ok(key, p.Pos(ce.Pos()), fmt.Sprintf("all %d opcodes the variable can hold have the matching length", len(ops)))
				} else {
					r.Fail(key, p.Pos(ce.Pos()), fmt.Sprintf("emit writes %d operand(s) but the variable can hold %s whose code.Length says otherwise: reader and writer disagree on where the next instruction starts", n1, strings.Join(bad, ", ")))
				}
				return true
			}
			n1 := len(ce.Args) - 1
			if ce.Ellipsis.IsValid() {
				r.Undecided(curFn+" emit "+op+" with a spread operand list", p.Pos(ce.Pos()), "operand count unknown")
				return true
			}
			key := fmt.Sprintf("%s emit %s operands=%d", curFn, op, n1)
			if (n1 == 1) == three[op] && n1 <= 1 {
				r.Ok(key, p.Pos(ce.Pos()), fmt.Sprintf("Length(%s)=%d", op, map[bool]int{true: 3, false: 1}[three[op]]))
			} else {
				r.Fail(key, p.Pos(ce.Pos()), fmt.Sprintf("emit writes %d operand(s) for %s but code.Length(%s) is %d: reader and writer disagree on where the next instruction starts", n1, op, op, map[bool]int{true: 3, false: 1}[three[op]]))
			}
			return true
		})
	}
	// reader side: handlers that read the operand
	sw := dispatchSwitch(p, a.vmRun)
	info := p.Info(a.vmRun)
	argObj := operandVar(p, a.vmRun)
	if sw == nil || argObj == nil {
		r.Undecided("reader side", p.Pos(a.vmRun.Pos()), "cannot find the dispatch switch or the operand variable (assigned from binary.BigEndian.Uint16) in the interpreter")
		return
	}
	for _, cc := range sw.Body.List {
		cl := cc.(*ast.CaseClause)
		uses := false
		for _, st := range cl.Body {
			ast.Inspect(st, func(n ast.Node) bool {
				if id, ok := n.(*ast.Ident); ok && info.Uses[id] == argObj {
					uses = true
				}
				return true
			})
		}
		for _, e := range cl.List {
			op := opConstName(info, e)
			if op == "" {
				continue
			}
			key := "handler " + op + " operand use"
			switch {
			case uses && !three[op]:
				r.Fail(key, p.Pos(cl.Pos()), fmt.Sprintf("the handler of %s reads the operand but code.Length(%s) is 1: it would read the next instruction's bytes", op, op))
			case !uses && three[op]:
				r.Info(key, p.Pos(cl.Pos()), "three-byte opcode whose handler ignores its operand")
			default:
				r.Ok(key, p.Pos(cl.Pos()), fmt.Sprintf("reads operand=%v, three-byte=%v", uses, three[op]))
			}
		}
	}
}

// operandVar finds the local of fn assigned from a call of
// binary.BigEndian.Uint16 (through int(...)).
func operandVar(p *Program, fn *ssa.Function) types.Object {
	fd := p.FuncDecl(fn)
	info := p.Info(fn)
	var obj types.Object
	ast.Inspect(fd.Body, func(n ast.Node) bool {
		as, ok := n.(*ast.AssignStmt)
		if !ok || len(as.Lhs) != 1 || len(as.Rhs) != 1 {
			return true
		}
		has := false
		ast.Inspect(as.Rhs[0], func(m ast.Node) bool {
			if ce, ok := m.(*ast.CallExpr); ok {
				if f, ok := calleeObj(info, ce).(*types.Func); ok && f.Name() == "Uint16" {
					has = true
				}
			}
			return true
		})
		if has {
			if id, ok := as.Lhs[0].(*ast.Ident); ok {
				if o := info.Uses[id]; o != nil {
					obj = o
				} else if o := info.Defs[id]; o != nil {
					obj = o
				}
			}
		}
		return true
	})
	if obj == nil {
		if d, lhs := decoderAssign(p, fn); d != nil && d.argIdx < len(lhs) {
			if id, ok := lhs[d.argIdx].(*ast.Ident); ok {
				obj = info.ObjectOf(id)
			}
		}
	}
	return obj
}

// decoderAssign: the statement `op, n, arg := decode(program, ip)` of fn —
// the decoder's description and the left-hand sides.
func decoderAssign(p *Program, fn *ssa.Function) (*decoder, []ast.Expr) {
	fd := p.FuncDecl(fn)
	info := p.Info(fn)
	var dd *decoder
	var lhs []ast.Expr
	var args []ast.Expr
	ast.Inspect(fd.Body, func(n ast.Node) bool {
		as, ok := n.(*ast.AssignStmt)
		if !ok || len(as.Rhs) != 1 || dd != nil {
			return true
		}
		ce, ok := ast.Unparen(as.Rhs[0]).(*ast.CallExpr)
		if !ok {
			return true
		}
		f, ok := calleeObj(info, ce).(*types.Func)
		if !ok {
			return true
		}
		if d, ok := decoderOf(p.SSA.FuncValue(f)); ok && len(as.Lhs) == f.Type().(*types.Signature).Results().Len() {
			dd, lhs, args = d, as.Lhs, ce.Args
		}
		return true
	})
	_ = args
	return dd, lhs
}

// ---------------------------------------------------------------------------
// R-HANDLERS

func ruleHandlers(p *Program, r *Reporter) {
	a := needAnchors(p, r)
	if a == nil {
		return
	}
	oc := p.Opcodes()
	sw := dispatchSwitch(p, a.vmRun)
	if sw == nil {
		r.Undecided("dispatch switch", p.Pos(a.vmRun.Pos()), "no switch over an opcode in the interpreter loop")
		return
	}
	info := p.Info(a.vmRun)
	handled := map[string]*ast.CaseClause{}
	hasDefault := false
	for _, cc := range sw.Body.List {
		cl := cc.(*ast.CaseClause)
		if cl.List == nil {
			hasDefault = true
		}
		for _, e := range cl.List {
			if n := opConstName(info, e); n != "" {
				if handled[n] != nil {
					r.Fail("opcode "+n+" handled twice", p.Pos(cl.Pos()), "duplicate case")
				}
				handled[n] = cl
			}
		}
	}
	// name table
	named := map[string]bool{}
	codePk := p.ByPath[Mod+"/code"]
	for _, f := range codePk.Syntax {
		ast.Inspect(f, func(n ast.Node) bool {
			cl, ok := n.(*ast.CompositeLit)
			if !ok {
				return true
			}
			if at, ok := codePk.TypesInfo.Types[cl].Type.Underlying().(*types.Array); ok {
				if b, ok := at.Elem().Underlying().(*types.Basic); ok && b.Kind() == types.String {
					for _, el := range cl.Elts {
						if kv, ok := el.(*ast.KeyValueExpr); ok {
							if n := opConstName(codePk.TypesInfo, kv.Key); n != "" {
								if s, ok := constString(codePk.TypesInfo, kv.Value); ok && s != "" {
									named[n] = true
								}
							}
						}
					}
				}
			}
			return true
		})
	}
	for _, n := range oc.names {
		cl := handled[n]
		if cl == nil {
			r.Fail("opcode "+n+" has a handler", p.Pos(sw.Pos()), "no case of the dispatch switch names this opcode: executing it is an 'unhandled opcode' machine error")
		} else {
			r.Ok("opcode "+n+" has a handler", p.Pos(cl.Pos()), "")
		}
		if !named[n] {
			r.Fail("opcode "+n+" has a name", "code/code.go", "no entry in the opcode name table: dumping or tracing a program that contains it prints an empty/unknown name")
		}
	}
	if !hasDefault {
		r.Fail("unknown opcode is an error", p.Pos(sw.Pos()), "the dispatch switch has no default clause returning an error")
	}
	// OpReturn leaves the interpreter
	if cl := handled["OpReturn"]; cl != nil {
		n := len(cl.Body)
		_, isRet := ast.Stmt(nil), false
		if n > 0 {
			_, isRet = cl.Body[n-1].(*ast.ReturnStmt)
		}
		r.Check(isRet, "OpReturn handler returns", p.Pos(cl.Pos()), "handler ends in a return statement", "the handler of the return opcode must leave the interpreter on every path (its last statement is not a return)")
	}
}

// ---------------------------------------------------------------------------
// R-JUMPSET

func setStr(m map[string]bool) string {
	var l []string
	for k := range m {
		l = append(l, k)
	}
	sort.Strings(l)
	return "{" + strings.Join(l, ", ") + "}"
}

func sameSet(a, b map[string]bool) bool {
	if len(a) != len(b) {
		return false
	}
	for k := range a {
		if !b[k] {
			return false
		}
	}
	return true
}

// vmJumpSet: opcodes whose handler assigns the instruction pointer from the
// operand.
func vmJumpSet(p *Program, a *anchors) (map[string]bool, bool) {
	if J, ok := vmJumpSetSSA(p, a); ok {
		return J, true
	}
	return vmJumpSetAST(p, a)
}

// vmJumpSetSSA: the opcodes under which the position of the next instruction
// is computed from the operand.  The position is the loop-carried value that
// indexes the program where the opcode is read; its next value is followed
// back through merges and additions, and wherever a value made of the operand
// arrives, the opcodes that can be current on that edge are collected.
func vmJumpSetSSA(p *Program, a *anchors) (map[string]bool, bool) {
	run := a.vmRun
	dp := dispatchPoint(run)
	if dp == nil {
		return nil, false
	}
	// the opcode value, the position, the operand
	var opVal, ipVal ssa.Value
	operand := map[ssa.Value]bool{}
	switch x := dp.(type) {
	case *ssa.Call:
		d, _ := decoderOf(x.Call.StaticCallee())
		if d == nil || d.ipIdx >= len(x.Call.Args) {
			return nil, false
		}
		ipVal = x.Call.Args[d.ipIdx]
		for _, ref := range *x.Referrers() {
			if ex, ok := ref.(*ssa.Extract); ok {
				if ex.Index == d.opIdx {
					opVal = ex
				}
				if ex.Index == d.argIdx {
					operand[ex] = true
				}
			}
		}
	default:
		opVal = dp.(ssa.Value)
		var conv ssa.Value
		switch c := dp.(type) {
		case *ssa.Convert:
			conv = c.X
		case *ssa.ChangeType:
			conv = c.X
		}
		if ld, ok := conv.(*ssa.UnOp); ok {
			if ia, ok := ld.X.(*ssa.IndexAddr); ok {
				ipVal = ia.Index
			}
		}
		for _, b := range run.Blocks {
			for _, ins := range b.Instrs {
				if c, ok := ins.(*ssa.Call); ok {
					if cal := c.Call.StaticCallee(); cal != nil && cal.Name() == "Uint16" || c.Call.IsInvoke() && c.Call.Method.Name() == "Uint16" {
						operand[c] = true
					}
				}
			}
		}
	}
	ipPhi, ok := ipVal.(*ssa.Phi)
	if !ok || opVal == nil || len(operand) == 0 {
		return nil, false
	}
	// values that are the operand: conversions of it, and merges of it with constants
	for changed := true; changed; {
		changed = false
		for _, b := range run.Blocks {
			for _, ins := range b.Instrs {
				v, isV := ins.(ssa.Value)
				if !isV || operand[v] {
					continue
				}
				switch x := ins.(type) {
				case *ssa.Convert:
					if operand[x.X] {
						operand[v], changed = true, true
					}
				case *ssa.Phi:
					n, all := 0, true
					for _, e := range x.Edges {
						if operand[e] {
							n++
						} else if _, isC := e.(*ssa.Const); !isC {
							all = false
						}
					}
					if n > 0 && all {
						operand[v], changed = true, true
					}
				}
			}
		}
	}
	var madeOfOperand func(v ssa.Value, d int) bool
	madeOfOperand = func(v ssa.Value, d int) bool {
		if d > 4 {
			return false
		}
		if operand[v] {
			return true
		}
		if bo, ok := v.(*ssa.BinOp); ok && (bo.Op == token.ADD || bo.Op == token.SUB) {
			return madeOfOperand(bo.X, d+1) || madeOfOperand(bo.Y, d+1)
		}
		return false
	}
	J := map[string]bool{}
	undetermined := false
	seen := map[ssa.Value]bool{}
	var collect func(v ssa.Value, via *ssa.BasicBlock, d int)
	collect = func(v ssa.Value, via *ssa.BasicBlock, d int) {
		if d > 12 || v == ssa.Value(ipPhi) {
			return
		}
		if madeOfOperand(v, 0) {
			sets := opcodeSetsAt(p, run, via)
			set := sets[stripConvSSA(opVal)]
			if set == nil {
				set = sets[opVal]
			}
			if set == nil {
				undetermined = true
				return
			}
			for k := range set {
				J[k] = true
			}
			return
		}
		switch x := v.(type) {
		case *ssa.Phi:
			if seen[v] {
				return
			}
			seen[v] = true
			for i, e := range x.Edges {
				collect(e, x.Block().Preds[i], d+1)
			}
		case *ssa.BinOp:
			collect(x.X, via, d+1)
			collect(x.Y, via, d+1)
		case *ssa.Convert:
			collect(x.X, via, d+1)
		}
	}
	for i, e := range ipPhi.Edges {
		collect(e, ipPhi.Block().Preds[i], 0)
	}
	if undetermined || len(J) == 0 {
		return nil, false
	}
	return J, true
}

func vmJumpSetAST(p *Program, a *anchors) (map[string]bool, bool) {
	sw := dispatchSwitch(p, a.vmRun)
	info := p.Info(a.vmRun)
	argObj := operandVar(p, a.vmRun)
	ipObj := ipVar(p, a.vmRun)
	if sw == nil || argObj == nil || ipObj == nil {
		return nil, false
	}
	J := map[string]bool{}
	for _, cc := range sw.Body.List {
		cl := cc.(*ast.CaseClause)
		jumps := false
		for _, st := range cl.Body {
			ast.Inspect(st, func(n ast.Node) bool {
				as, ok := n.(*ast.AssignStmt)
				if !ok || len(as.Lhs) != 1 {
					return true
				}
				id, ok := as.Lhs[0].(*ast.Ident)
				if !ok || info.Uses[id] != ipObj {
					return true
				}
				ast.Inspect(as.Rhs[0], func(m ast.Node) bool {
					if id2, ok := m.(*ast.Ident); ok && info.Uses[id2] == argObj {
						jumps = true
					}
					return true
				})
				return true
			})
		}
		if jumps {
			for _, e := range cl.List {
				if n := opConstName(info, e); n != "" {
					J[n] = true
				}
			}
		}
	}
	return J, true
}

// ipVar: the local used to index the bytecode when reading the opcode:
// code.Opcode(X[ip]).
func ipVar(p *Program, fn *ssa.Function) types.Object {
	fd := p.FuncDecl(fn)
	info := p.Info(fn)
	var obj types.Object
	ast.Inspect(fd.Body, func(n ast.Node) bool {
		ce, ok := n.(*ast.CallExpr)
		if !ok || len(ce.Args) != 1 || obj != nil {
			return true
		}
		if tv, ok := info.Types[ce.Fun]; ok && tv.IsType() && isOpcodeType(tv.Type) {
			if ix, ok := ast.Unparen(ce.Args[0]).(*ast.IndexExpr); ok {
				if id, ok := ix.Index.(*ast.Ident); ok {
					obj = info.Uses[id]
				}
			}
		}
		return true
	})
	if obj == nil {
		// the position handed to a function that decodes the instruction
		ast.Inspect(fd.Body, func(n ast.Node) bool {
			ce, ok := n.(*ast.CallExpr)
			if !ok || obj != nil {
				return true
			}
			f, ok := calleeObj(info, ce).(*types.Func)
			if !ok {
				return true
			}
			if d, ok := decoderOf(p.SSA.FuncValue(f)); ok {
				k := d.ipIdx
				if f.Type().(*types.Signature).Recv() != nil {
					k--
				}
				if k >= 0 && k < len(ce.Args) {
					if id, ok := ast.Unparen(ce.Args[k]).(*ast.Ident); ok {
						obj = info.Uses[id]
					}
				}
			}
			return true
		})
	}
	return obj
}

func ruleJumpSet(p *Program, r *Reporter) {
	a := needAnchors(p, r)
	if a == nil {
		return
	}
	J, ok := vmJumpSet(p, a)
	if !ok || len(J) == 0 {
		r.Undecided("VM jump set", p.Pos(a.vmRun.Pos()), "cannot determine which handlers assign the instruction pointer from the operand")
		return
	}
	r.OkNT("VM jump set", p.Pos(a.vmRun.Pos()), "J = "+setStr(J))

	vmPk := p.ByPath[Mod+"/vm"]
	info := vmPk.TypesInfo
	runDecl := p.FuncDecl(a.vmRun)
	var retarget, stopSet map[string]bool
	var retPos, stopPos token.Pos
	for _, f := range vmPk.Syntax {
		for _, d := range f.Decls {
			fd, ok := d.(*ast.FuncDecl)
			if !ok || fd == runDecl || fd.Body == nil {
				continue
			}
			ast.Inspect(fd.Body, func(n ast.Node) bool {
				sw, ok := n.(*ast.SwitchStmt)
				if !ok || sw.Tag == nil {
					return true
				}
				if tv, ok := info.Types[sw.Tag]; !ok || !isOpcodeType(tv.Type) {
					return true
				}
				hasReturnClause := false
				for _, cc := range sw.Body.List {
					for _, e := range cc.(*ast.CaseClause).List {
						if opConstName(info, e) == "OpReturn" {
							hasReturnClause = true
						}
					}
				}
				for _, cc := range sw.Body.List {
					cl := cc.(*ast.CaseClause)
					ops := map[string]bool{}
					for _, e := range cl.List {
						if n := opConstName(info, e); n != "" {
							ops[n] = true
						}
					}
					if len(ops) == 0 {
						continue
					}
					// retarget clause: body indexes a map[int]int
					mapIdx := false
					written := map[ast.Expr]bool{} // entries of the map being set, not looked up
					for _, st := range cl.Body {
						ast.Inspect(st, func(m ast.Node) bool {
							if as, ok := m.(*ast.AssignStmt); ok {
								for _, l := range as.Lhs {
									written[ast.Unparen(l)] = true
								}
							}
							return true
						})
					}
					for _, st := range cl.Body {
						ast.Inspect(st, func(m ast.Node) bool {
							if ix, ok := m.(*ast.IndexExpr); ok && !written[ix] {
								if mt, ok := info.Types[ix.X].Type.Underlying().(*types.Map); ok && isInt(mt.Key()) && isInt(mt.Elem()) {
									mapIdx = true
								}
							}
							return true
						})
					}
					if mapIdx {
						retarget, retPos = ops, cl.Pos()
					}
					// stop clause of the dead-code pass: in a switch that also
					// has an OpReturn clause, a clause that is just `return false, nil`
					if hasReturnClause && !ops["OpReturn"] && len(cl.Body) == 1 {
						if rs, ok := cl.Body[0].(*ast.ReturnStmt); ok && len(rs.Results) == 2 {
							if tv := info.Types[rs.Results[0]]; tv.Value != nil && tv.Value.Kind() == constant.Bool && !constant.BoolVal(tv.Value) {
								stopSet, stopPos = ops, cl.Pos()
							}
						}
					}
				}
				return true
			})
		}
	}
	if retarget == nil {
		// the same clause written with guards instead of a switch: the opcodes
		// under which the old→new offset map is consulted
		for _, fn := range p.Fns {
			if fnPkg(fn) == nil || fnPkg(fn).Pkg.Path() != Mod+"/vm" || fn == a.vmRun {
				continue
			}
			for _, b := range fn.Blocks {
				for _, ins := range b.Instrs {
					lk, ok := ins.(*ssa.Lookup)
					if !ok {
						continue
					}
					mt, ok := lk.X.Type().Underlying().(*types.Map)
					if !ok || !isInt(mt.Key()) || !isInt(mt.Elem()) {
						continue
					}
					sets := opcodeSetsAt(p, fn, b)
					if len(sets) == 1 {
						for _, set := range sets {
							retarget, retPos = set, lk.Pos()
						}
					}
					if len(sets) == 0 {
						// the targets were put on a list while the program was
						// walked: the opcodes under which they were put there
						if srcs, ok := localSources(lk.Index); ok && len(srcs) > 0 {
							union := map[string]bool{}
							good := true
							for _, sv := range srcs {
								si, isInstr := sv.(ssa.Instruction)
								if !isInstr || si.Parent() == nil {
									good = false
									break
								}
								ss := opcodeSetsAt(p, si.Parent(), si.Block())
								if len(ss) != 1 {
									good = false
									break
								}
								for _, set := range ss {
									for k := range set {
										union[k] = true
									}
								}
							}
							if good && len(union) > 0 {
								retarget, retPos = union, lk.Pos()
							}
						}
					}
				}
			}
		}
	}
	if retarget == nil {
		r.Undecided("NOP-removal retarget set", "-", "cannot find the clause that looks jump operands up in the old→new offset map")
	} else {
		r.Check(sameSet(J, retarget), "NOP-removal retargets exactly J", p.Pos(retPos), "retarget set "+setStr(retarget), fmt.Sprintf("the NOP-removal pass rewrites the operands of %s but the VM jumps on %s: a jump not retargeted lands at a stale offset after NOPs are removed", setStr(retarget), setStr(J)))
	}
	if stopSet == nil {
		r.Undecided("dead-code stop set", "-", "cannot find the clause of the dead-code pass that stops at jumps")
	} else {
		r.Check(sameSet(J, stopSet), "dead-code pass stops at exactly J", p.Pos(stopPos), "stop set "+setStr(stopSet), fmt.Sprintf("the dead-code pass gives up at %s but the VM jumps on %s: truncating after the first return is only sound when no jump can pass it", setStr(stopSet), setStr(J)))
	}
	// compiler: opcodes of emits whose position reaches changeOperand
	patched, undec := patchedOpcodes(p, a)
	for _, u := range undec {
		r.Undecided("compiler back-patch origin", u, "cannot trace the position argument of a back-patch to emit calls")
	}
	bad := map[string]bool{}
	for op := range patched {
		if !J[op] {
			bad[op] = true
		}
	}
	r.Check(len(bad) == 0 && len(patched) > 0, "compiler back-patches only J", p.Pos(a.compile.Pos()), "patched opcodes "+setStr(patched), fmt.Sprintf("the compiler back-patches operands of %s, which are not jump opcodes %s", setStr(bad), setStr(J)))
}

// opcodeVarValues: e is a local variable every assignment of which is either
// an opcode constant or a look-up in a package-level map literal of opcodes;
// the opcodes it can hold.
func opcodeVarValues(p *Program, info *types.Info, f *ast.File, e ast.Expr) ([]string, bool) {
	id, ok := ast.Unparen(e).(*ast.Ident)
	if !ok {
		return nil, false
	}
	obj, ok := info.Uses[id].(*types.Var)
	if !ok || obj.IsField() || obj.Parent() == nil || obj.Parent() == obj.Pkg().Scope() {
		return nil, false
	}
	set := map[string]bool{}
	good, n := true, 0
	ast.Inspect(f, func(nd ast.Node) bool {
		switch s := nd.(type) {
		case *ast.AssignStmt:
			for i, l := range s.Lhs {
				lid, ok := l.(*ast.Ident)
				if !ok || info.ObjectOf(lid) != types.Object(obj) {
					continue
				}
				n++
				if len(s.Rhs) == 1 && i == 0 {
					if ix, ok := ast.Unparen(s.Rhs[0]).(*ast.IndexExpr); ok {
						if tbl, ok := opcodeMapLiteral(p, info, ix.X); ok {
							for _, o := range tbl {
								set[o] = true
							}
							continue
						}
					}
				}
				if len(s.Rhs) == len(s.Lhs) {
					if o := opConstName(info, s.Rhs[i]); o != "" {
						set[o] = true
						continue
					}
				}
				good = false
			}
		case *ast.ValueSpec:
			for i, nm := range s.Names {
				if info.Defs[nm] != types.Object(obj) {
					continue
				}
				n++
				if i < len(s.Values) && len(s.Values) == len(s.Names) {
					if o := opConstName(info, s.Values[i]); o != "" {
						set[o] = true
						continue
					}
				}
				good = false
			}
		case *ast.UnaryExpr:
			if s.Op == token.AND {
				if lid, ok := ast.Unparen(s.X).(*ast.Ident); ok && info.ObjectOf(lid) == types.Object(obj) {
					good = false
				}
			}
		case *ast.RangeStmt:
			for _, l := range []ast.Expr{s.Key, s.Value} {
				if lid, ok := l.(*ast.Ident); ok && info.ObjectOf(lid) == types.Object(obj) {
					good = false
				}
			}
		}
		return true
	})
	if !good || n == 0 || len(set) == 0 {
		return nil, false
	}
	var out []string
	for o := range set {
		out = append(out, o)
	}
	sort.Strings(out)
	return out, true
}

// tableParams: the positions of an operator table's parameters — the opcode,
// the two operand objects (left, right) and, when the caller hands the
// operands' values over as well, those (left, right; one numeric type) — in
// whatever order the signature lists them.
func tableParams(sig *types.Signature) (op, l, r, lv, rv int, ok bool) {
	op, l, r, lv, rv = -1, -1, -1, -1, -1
	ps := sig.Params()
	for i := 0; i < ps.Len(); i++ {
		t := ps.At(i).Type()
		switch {
		case isOpcodeType(t):
			if op >= 0 {
				return 0, 0, 0, 0, 0, false
			}
			op = i
		case isObjectIface(t):
			switch {
			case l < 0:
				l = i
			case r < 0:
				r = i
			default:
				return 0, 0, 0, 0, 0, false
			}
		default:
			b, isB := t.Underlying().(*types.Basic)
			if !isB || b.Info()&types.IsNumeric == 0 {
				return 0, 0, 0, 0, 0, false
			}
			switch {
			case lv < 0:
				lv = i
			case rv < 0:
				rv = i
			default:
				return 0, 0, 0, 0, 0, false
			}
		}
	}
	if op < 0 || l < 0 || r < 0 || (lv >= 0) != (rv >= 0) {
		return 0, 0, 0, 0, 0, false
	}
	if lv >= 0 && !types.Identical(ps.At(lv).Type(), ps.At(rv).Type()) {
		return 0, 0, 0, 0, 0, false
	}
	return op, l, r, lv, rv, true
}
