package main

// R-PANICSITES: census of the instructions that can raise a run-time panic in
// code the API reaches outside Execute's recover (Prepare with lexer, parser,
// compiler, machine construction and optimizer; Dump; Run's own tail; the small
// API methods).  Every index, slice expression, unchecked type assertion,
// integer division, explicit panic and variable-length make must be discharged:
// proven safe from the dominating comparisons, recognised as one of a few
// named idioms, or it is reported.

import (
	"fmt"
	"go/ast"
	"go/constant"
	"go/token"
	"go/types"
	"sort"
	"strings"

	"golang.org/x/tools/go/ssa"
	"golang.org/x/tools/go/ssa/ssautil"
)

func init() {
	register(&Rule{ID: "R-PANICSITES", Floor: 100, Run: rulePanicSites,
		Text: "Outside Execute's recover — in Prepare (lexer, parser, compiler, machine construction, optimizer), Dump, Run's tail and the other API methods — every index and slice expression is within bounds by the comparisons that dominate it (difference constraints over len terms, loop-counter induction, loads of one field identified while nothing stores to it), every type assertion without ok is dominated by a test that fixes the dynamic type, every integer division has a non-zero divisor, and there is no explicit panic; the few sites that rest on another argument (indices handed out by package sort, offsets handed out by the bytecode walker over well-formed code) are recognised by their shape and say so."})
}

type pedge struct {
	from, to string
	w        int64
}

type panicProver struct {
	p        *Program
	fn       *ssa.Function
	repCache map[*ssa.UnOp]*ssa.UnOp
	reach    map[*ssa.BasicBlock]map[*ssa.BasicBlock]bool
}

func newPanicProver(p *Program, fn *ssa.Function) *panicProver {
	return &panicProver{p: p, fn: fn, repCache: map[*ssa.UnOp]*ssa.UnOp{}, reach: map[*ssa.BasicBlock]map[*ssa.BasicBlock]bool{}}
}

func (pp *panicProver) reachable(from *ssa.BasicBlock) map[*ssa.BasicBlock]bool {
	if m, ok := pp.reach[from]; ok {
		return m
	}
	m := map[*ssa.BasicBlock]bool{}
	var w func(b *ssa.BasicBlock)
	w = func(b *ssa.BasicBlock) {
		for _, s := range b.Succs {
			if !m[s] {
				m[s] = true
				w(s)
			}
		}
	}
	w(from)
	pp.reach[from] = m
	return m
}

// kills: ins may change the field (struct type T, index f).
func fieldKill(ins ssa.Instruction, addr ssa.Value) bool {
	fa, isField := addr.(*ssa.FieldAddr)
	switch x := ins.(type) {
	case *ssa.Store:
		if !isField {
			return x.Addr == addr
		}
		if fa2, ok := x.Addr.(*ssa.FieldAddr); ok && fa2.Field == fa.Field && types.Identical(deref(fa2.X.Type()), deref(fa.X.Type())) {
			return true
		}
	case *ssa.Call:
		if _, isBuiltin := x.Call.Value.(*ssa.Builtin); isBuiltin {
			return false // len, append, copy … do not assign struct fields
		}
		cal := x.Call.StaticCallee()
		if cal == nil {
			return true
		}
		if fnPkg(cal) == nil || !strings.HasPrefix(fnPkg(cal).Pkg.Path(), Mod) {
			return false // the standard library does not know our structs
		}
		if !isField {
			// a captured variable can only be assigned by a closure of the same
			// function (called directly or through a function value); a local that
			// does not escape by nobody else; a package variable by anyone
			switch a := addr.(type) {
			case *ssa.Alloc:
				if !allocEscapes(a) {
					return false
				}
				return mayRunClosure(cal)
			case *ssa.FreeVar:
				return mayRunClosure(cal)
			}
			return true
		}
		return calleeMayStoreField(cal, fa, map[*ssa.Function]bool{})
	case *ssa.Defer, *ssa.Go:
		return true
	}
	return false
}

// mayRunClosure: the callee is an anonymous function or takes a function value.
func mayRunClosure(cal *ssa.Function) bool {
	if cal.Parent() != nil {
		return true
	}
	ps := cal.Signature.Params()
	for i := 0; i < ps.Len(); i++ {
		switch ps.At(i).Type().Underlying().(type) {
		case *types.Signature, *types.Interface:
			return true
		}
	}
	return false
}

// allocEscapes: the local's address is used for anything but loads and stores.
func allocEscapes(al *ssa.Alloc) bool {
	for _, ref := range *al.Referrers() {
		switch x := ref.(type) {
		case *ssa.UnOp:
		case *ssa.Store:
			if x.Val == ssa.Value(al) {
				return true
			}
		case *ssa.DebugRef:
		default:
			return true
		}
	}
	return false
}

func calleeMayStoreField(fn *ssa.Function, fa *ssa.FieldAddr, seen map[*ssa.Function]bool) bool {
	if seen[fn] || len(seen) > 60 {
		return len(seen) > 60
	}
	seen[fn] = true
	for _, b := range fn.Blocks {
		for _, ins := range b.Instrs {
			switch x := ins.(type) {
			case *ssa.Store:
				if fa2, ok := x.Addr.(*ssa.FieldAddr); ok && fa2.Field == fa.Field && types.Identical(deref(fa2.X.Type()), deref(fa.X.Type())) {
					return true
				}
			case *ssa.Call:
				if _, isBuiltin := x.Call.Value.(*ssa.Builtin); isBuiltin {
					continue
				}
				cal := x.Call.StaticCallee()
				if cal == nil {
					return true
				}
				if fnPkg(cal) != nil && strings.HasPrefix(fnPkg(cal).Pkg.Path(), Mod) && calleeMayStoreField(cal, fa, seen) {
					return true
				}
			}
		}
	}
	return false
}

// representative: the earliest load of the same address (a field of the same
// base, a captured variable, a local, a package variable) that dominates ld with
// nothing in between that may store to it.
func (pp *panicProver) representative(ld *ssa.UnOp) *ssa.UnOp {
	if r, ok := pp.repCache[ld]; ok {
		return r
	}
	best := ld
	for _, b := range pp.fn.Blocks {
		for _, ins := range b.Instrs {
			c, ok := ins.(*ssa.UnOp)
			if !ok || c == ld || c.Op != token.MUL || !sameAddr(c.X, ld.X) {
				continue
			}
			if !dominatesInstr(c, ld) || !pp.noKill(c, ld, ld.X) {
				continue
			}
			if best == ld || dominatesInstr(c, best) {
				best = c
			}
		}
	}
	pp.repCache[ld] = best
	return best
}

func sameAddr(a, b ssa.Value) bool {
	if a == b {
		switch a.(type) {
		case *ssa.FreeVar, *ssa.Alloc, *ssa.Global, *ssa.Parameter, *ssa.FieldAddr:
			return true
		}
		return false
	}
	fa, ok1 := a.(*ssa.FieldAddr)
	fb, ok2 := b.(*ssa.FieldAddr)
	return ok1 && ok2 && fa.Field == fb.Field && sameBase(fa.X, fb.X)
}

func sameBase(a, b ssa.Value) bool {
	if a == b {
		return true
	}
	// two loads of the same local pointer variable / two FieldAddrs of the same base
	fa, ok1 := a.(*ssa.FieldAddr)
	fb, ok2 := b.(*ssa.FieldAddr)
	if ok1 && ok2 && fa.Field == fb.Field {
		return sameBase(fa.X, fb.X)
	}
	return false
}

func (pp *panicProver) noKill(c *ssa.UnOp, ld ssa.Instruction, fa ssa.Value) bool {
	cb, lb := c.Block(), ld.Block()
	if cb == lb && !pp.reachable(lb)[lb] {
		for i := instrIndex(c) + 1; i < instrIndex(ld); i++ {
			if fieldKill(lb.Instrs[i], fa) {
				return false
			}
		}
		return true
	}
	cyc := pp.reachable(lb)[cb] // a cycle contains both
	fromC := pp.reachable(cb)
	for _, b := range pp.fn.Blocks {
		in := (b == cb || fromC[b]) && (b == lb || pp.reachable(b)[lb])
		if !in {
			continue
		}
		lo, hi := 0, len(b.Instrs)
		if !cyc {
			if b == cb {
				lo = instrIndex(c) + 1
			}
			if b == lb && !pp.reachable(lb)[lb] {
				hi = instrIndex(ld)
			}
		}
		for i := lo; i < hi; i++ {
			if fieldKill(b.Instrs[i], fa) {
				return false
			}
		}
	}
	return true
}

func (pp *panicProver) canon(v ssa.Value) lin {
	switch v := v.(type) {
	case *ssa.Const:
		if k, ok := constInt(v); ok {
			return lin{"", k}
		}
	case *ssa.Convert:
		if b, ok := v.Type().Underlying().(*types.Basic); ok && b.Info()&types.IsInteger != 0 {
			if sb, ok := v.X.Type().Underlying().(*types.Basic); ok && sb.Info()&types.IsInteger != 0 {
				return pp.canon(v.X)
			}
		}
		if s, ok := v.Type().Underlying().(*types.Slice); ok && types.Identical(s.Elem(), types.Typ[types.Rune]) {
			return lin{"runes(" + pp.canon(v.X).term + ")", 0}
		}
	case *ssa.ChangeType:
		return pp.canon(v.X)
	case *ssa.BinOp:
		l, r := pp.canon(v.X), pp.canon(v.Y)
		if r.term == "" {
			if v.Op == token.SUB {
				return lin{l.term, l.off - r.off}
			}
			if v.Op == token.ADD {
				return lin{l.term, l.off + r.off}
			}
		}
		if l.term == "" && v.Op == token.ADD {
			return lin{r.term, l.off + r.off}
		}
	case *ssa.Call:
		if _, ok := isBuiltinCall(v, "len"); ok {
			a := v.Call.Args[0]
			if at, ok := deref(a.Type()).Underlying().(*types.Array); ok {
				return lin{"", at.Len()}
			}
			// the same answer as lenOf gives for the value that is indexed (a
			// slice of a fresh array with constant bounds has a constant length)
			return pp.lenOf(a)
		}
		if c := v.Call.StaticCallee(); c != nil && c.String() == "unicode/utf8.RuneCountInString" {
			return lin{"len(runes(" + pp.canon(v.Call.Args[0]).term + "))", 0}
		}
		// a getter: the call is a load of the receiver's field
		if c := v.Call.StaticCallee(); c != nil && len(v.Call.Args) == 1 {
			if field, ok := getterField(c); ok {
				for _, b := range pp.fn.Blocks {
					for _, ins := range b.Instrs {
						l, ok := ins.(*ssa.UnOp)
						if !ok || l.Op != token.MUL {
							continue
						}
						fa, ok := l.X.(*ssa.FieldAddr)
						if !ok || fa.Field != field || !sameBase(fa.X, v.Call.Args[0]) {
							continue
						}
						if dominatesInstr(l, v) && pp.noKill(l, v, fa) {
							return pp.canon(l)
						}
					}
				}
			}
		}
	case *ssa.UnOp:
		if v.Op == token.MUL {
			switch a := v.X.(type) {
			case *ssa.FieldAddr:
				rep := pp.representative(v)
				return lin{fmt.Sprintf("fld(%s.%d)@%s", baseName(a.X), a.Field, rep.Name()), 0}
			case *ssa.FreeVar, *ssa.Alloc, *ssa.Global:
				rep := pp.representative(v)
				return lin{fmt.Sprintf("var(%s)@%s", a.Name(), rep.Name()), 0}
			}
		}
	case *ssa.Field:
		return lin{fmt.Sprintf("%s.%d", pp.canon(v.X).term, v.Field), 0}
	case *ssa.Slice:
		// x[:] / x[0:] keep the length only for the full slice
		if v.Low == nil && v.High == nil {
			return pp.canon(v.X)
		}
	}
	return lin{v.Name(), 0}
}

// getterField: the function does nothing but return one field of its receiver.
func getterField(fn *ssa.Function) (int, bool) {
	if len(fn.Blocks) != 1 || len(fn.Params) != 1 {
		return 0, false
	}
	ret, ok := terminator(fn.Blocks[0]).(*ssa.Return)
	if !ok || len(ret.Results) != 1 {
		return 0, false
	}
	ld, ok := ret.Results[0].(*ssa.UnOp)
	if !ok || ld.Op != token.MUL {
		return 0, false
	}
	fa, ok := ld.X.(*ssa.FieldAddr)
	if !ok || fa.X != ssa.Value(fn.Params[0]) {
		return 0, false
	}
	for _, ins := range fn.Blocks[0].Instrs {
		switch ins.(type) {
		case *ssa.Store, *ssa.Call, *ssa.MapUpdate:
			return 0, false
		}
	}
	return fa.Field, true
}

func baseName(v ssa.Value) string {
	if fa, ok := v.(*ssa.FieldAddr); ok {
		return fmt.Sprintf("%s.%d", baseName(fa.X), fa.Field)
	}
	return v.Name()
}

// facts gathers the linear facts that hold at the start of block b.
func (pp *panicProver) facts(b *ssa.BasicBlock) []pedge {
	var out []pedge
	addLE := func(a, c lin, strict bool) {
		w := c.off - a.off
		if strict {
			w--
		}
		out = append(out, pedge{a.term, c.term, w})
	}
	for cur := b; cur.Idom() != nil; cur = cur.Idom() {
		d := cur.Idom()
		iff, ok := terminator(d).(*ssa.If)
		if !ok || d.Succs[0] == d.Succs[1] {
			continue
		}
		t, f := d.Succs[0], d.Succs[1]
		domT := (t == b || t.Dominates(b)) && len(t.Preds) == 1
		domF := (f == b || f.Dominates(b)) && len(f.Preds) == 1
		var branch bool
		switch {
		case domT && !domF:
			branch = true
		case domF && !domT:
			branch = false
		default:
			continue
		}
		bo, ok := iff.Cond.(*ssa.BinOp)
		if !ok || !isInt(bo.X.Type()) {
			continue
		}
		x, y := pp.canon(bo.X), pp.canon(bo.Y)
		// operands that are never negative (the base of the running function's
		// scopes, a counter field, …) bound whatever is compared with them
		if x.term != "" && pp.nonNegValue(bo.X, 0) {
			addLE(lin{"", 0}, lin{x.term, 0}, false)
		}
		if y.term != "" && pp.nonNegValue(bo.Y, 0) {
			addLE(lin{"", 0}, lin{y.term, 0}, false)
		}
		op := bo.Op
		if !branch {
			switch op {
			case token.LSS:
				op = token.GEQ
			case token.LEQ:
				op = token.GTR
			case token.GTR:
				op = token.LEQ
			case token.GEQ:
				op = token.LSS
			case token.EQL:
				op = token.NEQ
			case token.NEQ:
				op = token.EQL
			}
		}
		switch op {
		case token.LSS:
			addLE(x, y, true)
		case token.LEQ:
			addLE(x, y, false)
		case token.GTR:
			addLE(y, x, true)
		case token.GEQ:
			addLE(y, x, false)
		case token.EQL:
			addLE(x, y, false)
			addLE(y, x, false)
		case token.NEQ:
			// len(x) != 0 with len >= 0 gives len >= 1
			if y.term == "" && y.off == 0 && strings.HasPrefix(x.term, "len(") {
				addLE(lin{"", 1}, x, false)
			}
		}
	}
	// positions handed out by package strings: r := strings.Index(s, sub) with a
	// non-empty constant sub (or IndexByte / IndexRune) is -1 or a position at
	// which sub starts, so r+1 <= len(s) either way
	for _, blk := range pp.fn.Blocks {
		for _, ins := range blk.Instrs {
			c, ok := ins.(*ssa.Call)
			if !ok || c.Call.StaticCallee() == nil || len(c.Call.Args) != 2 {
				continue
			}
			switch c.Call.StaticCallee().String() {
			case "strings.Index", "strings.LastIndex", "strings.IndexAny", "strings.LastIndexAny":
				k, isC := c.Call.Args[1].(*ssa.Const)
				if !isC || k.Value == nil || k.Value.Kind() != constant.String || constant.StringVal(k.Value) == "" {
					continue
				}
			case "strings.IndexByte", "strings.IndexRune", "strings.LastIndexByte":
			default:
				continue
			}
			addLE(lin{pp.canon(c).term, pp.canon(c).off + 1}, pp.lenOf(c.Call.Args[0]), false)
		}
	}
	// loop counters: φ(c, φ+k)
	for _, blk := range pp.fn.Blocks {
		for _, ins := range blk.Instrs {
			ph, ok := ins.(*ssa.Phi)
			if !ok {
				break
			}
			if !isInt(ph.Type()) {
				continue
			}
			var others []lin
			minSelf, maxSelf := int64(0), int64(0)
			for _, e := range ph.Edges {
				l := pp.canon(e)
				// φ + (something that is never negative): counts as a non-negative step
				if bo, ok := e.(*ssa.BinOp); ok && bo.Op == token.ADD && l.term != ph.Name() {
					if (bo.X == ssa.Value(ph) && pp.nonNegValue(bo.Y, 0)) || (bo.Y == ssa.Value(ph) && pp.nonNegValue(bo.X, 0)) {
						if maxSelf < 1 {
							maxSelf = 1
						}
						continue
					}
				}
				if l.term == ph.Name() {
					if l.off < minSelf {
						minSelf = l.off
					}
					if l.off > maxSelf {
						maxSelf = l.off
					}
					continue
				}
				others = append(others, l)
			}
			if len(others) == 0 {
				continue
			}
			same := true
			for _, o := range others[1:] {
				if o.term != others[0].term {
					same = false
				}
			}
			if !same {
				continue
			}
			lo, hi := others[0].off, others[0].off
			for _, o := range others {
				if o.off < lo {
					lo = o.off
				}
				if o.off > hi {
					hi = o.off
				}
			}
			me := lin{ph.Name(), 0}
			if minSelf >= 0 { // never decreases
				addLE(lin{others[0].term, lo}, me, false)
			}
			if maxSelf <= 0 { // never increases
				addLE(me, lin{others[0].term, hi}, false)
			}
		}
	}
	return out
}

// nonNegValue: v is never negative — a non-negative constant, a length, an
// unsigned value, a call of a function that only returns positive constants, a
// load of a counter field, or a sum of such.
func (pp *panicProver) nonNegValue(v ssa.Value, depth int) bool {
	if depth > 6 {
		return false
	}
	if b, ok := v.Type().Underlying().(*types.Basic); ok && b.Info()&types.IsUnsigned != 0 {
		return true
	}
	switch x := v.(type) {
	case *ssa.Const:
		k, ok := constInt(x)
		return ok && k >= 0
	case *ssa.Convert:
		return pp.nonNegValue(x.X, depth+1)
	case *ssa.BinOp:
		if x.Op == token.ADD || x.Op == token.MUL {
			return pp.nonNegValue(x.X, depth+1) && pp.nonNegValue(x.Y, depth+1)
		}
	case *ssa.Phi:
		for _, e := range x.Edges {
			if e == ssa.Value(x) {
				continue
			}
			if bo, ok := e.(*ssa.BinOp); ok && bo.Op == token.ADD && (bo.X == ssa.Value(x) && pp.nonNegValue(bo.Y, depth+1) || bo.Y == ssa.Value(x) && pp.nonNegValue(bo.X, depth+1)) {
				continue
			}
			if !pp.nonNegValue(e, depth+1) {
				return false
			}
		}
		return true
	case *ssa.Extract:
		// one of several results of a library function: every return gives a
		// non-negative value there
		if cl, ok := x.Tuple.(*ssa.Call); ok {
			if cal := cl.Call.StaticCallee(); cal != nil && len(cal.Blocks) > 0 && fnPkg(cal) != nil && IsLibPath(fnPkg(cal).Pkg.Path()) {
				cp := newPanicProver(pp.p, cal)
				n := 0
				for _, b := range cal.Blocks {
					if ret, ok := terminator(b).(*ssa.Return); ok && x.Index < len(ret.Results) {
						n++
						if !cp.nonNegValue(returnOperand(ret, x.Index), depth+1) {
							return false
						}
					}
				}
				return n > 0
			}
		}
	case *ssa.Call:
		if _, ok := isBuiltinCall(x, "len"); ok {
			return true
		}
		if _, ok := isBuiltinCall(x, "cap"); ok {
			return true
		}
		if cal := x.Call.StaticCallee(); cal != nil && len(cal.Blocks) > 0 {
			all := true
			n := 0
			cp := newPanicProver(pp.p, cal)
			for _, b := range cal.Blocks {
				if ret, ok := terminator(b).(*ssa.Return); ok && len(ret.Results) == 1 {
					n++
					if !cp.nonNegValue(ret.Results[0], depth+1) {
						all = false
					}
				}
			}
			return all && n > 0
		}
	case *ssa.UnOp:
		if x.Op == token.MUL {
			if fa, ok := x.X.(*ssa.FieldAddr); ok {
				return counterField(pp.p, fa)
			}
			// an element of a package-level table of non-negative constants
			// that is never written
			if ia, ok := x.X.(*ssa.IndexAddr); ok {
				var g *ssa.Global
				switch b := ia.X.(type) {
				case *ssa.Global:
					g = b
				case *ssa.UnOp:
					g, _ = b.X.(*ssa.Global)
				}
				if g != nil && globalTableNonNeg(pp.p, g) {
					return true
				}
			}
			// an element of a slice field that only ever receives non-negative values
			if ia, ok := x.X.(*ssa.IndexAddr); ok {
				if ld, ok := ia.X.(*ssa.UnOp); ok && ld.Op == token.MUL {
					if fa, ok := ld.X.(*ssa.FieldAddr); ok {
						return nonNegSliceField(pp.p, fa)
					}
				}
			}
		}
	}
	return false
}

// nonNegSliceField: every store into the slice field is an append of
// non-negative values, a re-slice of itself, or empty.
func nonNegSliceField(p *Program, fa *ssa.FieldAddr) bool {
	key := fmt.Sprintf("slice:%s#%d", deref(fa.X.Type()).String(), fa.Field)
	if v, ok := counterCache[key]; ok {
		return v
	}
	counterCache[key] = true
	good := true
	for _, fn := range p.LibFns {
		for _, b := range fn.Blocks {
			for _, ins := range b.Instrs {
				st, ok := ins.(*ssa.Store)
				if !ok {
					continue
				}
				fa2, ok := st.Addr.(*ssa.FieldAddr)
				if !ok || fa2.Field != fa.Field || !types.Identical(deref(fa2.X.Type()), deref(fa.X.Type())) {
					continue
				}
				switch v := st.Val.(type) {
				case *ssa.Slice:
				case *ssa.Const:
				case *ssa.Call:
					if ap, ok := isBuiltinCall(v, "append"); ok {
						vals, known := varargsOf(ap.Call.Args[1])
						if !known {
							good = false
						}
						pp := newPanicProver(p, fn)
						for _, e := range vals {
							if !pp.nonNegValue(e, 0) {
								good = false
							}
						}
					} else {
						good = false
					}
				default:
					if !isFreshEmpty(st.Val) {
						good = false
					}
				}
			}
		}
	}
	counterCache[key] = good
	return good
}

var counterCache = map[string]bool{}

// counterField: an int field that the library only ever assigns non-negative
// constants, copies of other counter fields, or itself plus a non-negative amount.
func counterField(p *Program, fa *ssa.FieldAddr) bool {
	st, ok := deref(fa.X.Type()).Underlying().(*types.Struct)
	if !ok {
		return false
	}
	key := fmt.Sprintf("%s#%d", deref(fa.X.Type()).String(), fa.Field)
	if v, ok := counterCache[key]; ok {
		return v
	}
	counterCache[key] = true // assume while checking (self-reference)
	_ = st
	good := true
	for _, fn := range p.LibFns {
		for _, b := range fn.Blocks {
			for _, ins := range b.Instrs {
				sto, ok := ins.(*ssa.Store)
				if !ok {
					continue
				}
				fa2, ok := sto.Addr.(*ssa.FieldAddr)
				if !ok || fa2.Field != fa.Field || !types.Identical(deref(fa2.X.Type()), deref(fa.X.Type())) {
					continue
				}
				pp := newPanicProver(p, fn)
				if !pp.nonNegValue(sto.Val, 0) {
					good = false
				}
			}
		}
	}
	counterCache[key] = good
	return good
}

func relaxEdges(facts []pedge, src string) map[string]int64 {
	dist := map[string]int64{src: 0}
	for i := 0; i < len(facts)+2; i++ {
		changed := false
		for _, e := range facts {
			if d, ok := dist[e.from]; ok {
				if nd, ok2 := dist[e.to]; !ok2 || d+e.w < nd {
					dist[e.to] = d + e.w
					changed = true
				}
			}
		}
		if !changed {
			break
		}
	}
	return dist
}

// le: a <= c follows from the facts (plus len(..) >= 0).
func proveLE(facts []pedge, a, c lin) bool {
	if a.term == c.term {
		return a.off <= c.off
	}
	fs := facts
	for _, t := range []string{a.term, c.term} {
		if strings.HasPrefix(t, "len(") {
			fs = append(fs, pedge{"", t, 0})
		}
	}
	// every len term mentioned in the facts is non-negative too
	for _, e := range facts {
		for _, t := range []string{e.from, e.to} {
			if strings.HasPrefix(t, "len(") {
				fs = append(fs, pedge{"", t, 0})
			}
		}
	}
	d, ok := relaxEdges(fs, a.term)[c.term]
	// a.term <= c.term + d  ⇒  a.term + a.off <= c.term + c.off  when a.off + d <= c.off
	return ok && a.off+d <= c.off
}

// lenOf: the length term of an indexable value.
func (pp *panicProver) lenOf(base ssa.Value) lin {
	if at, ok := deref(base.Type()).Underlying().(*types.Array); ok {
		return lin{"", at.Len()}
	}
	if at, ok := base.Type().Underlying().(*types.Array); ok {
		return lin{"", at.Len()}
	}
	// a slice taken from a fresh array with constant bounds
	if sl, ok := base.(*ssa.Slice); ok {
		if at, ok := deref(sl.X.Type()).Underlying().(*types.Array); ok {
			lo, hi := int64(0), at.Len()
			okc := true
			if sl.Low != nil {
				lo, okc = constInt(sl.Low)
			}
			if sl.High != nil && okc {
				hi, okc = constInt(sl.High)
			}
			if okc {
				return lin{"", hi - lo}
			}
		}
	}
	if ms, ok := base.(*ssa.MakeSlice); ok {
		return pp.canon(ms.Len)
	}
	return lin{"len(" + pp.canon(base).term + ")", 0}
}

type panicSite struct {
	fn   *ssa.Function
	ins  ssa.Instruction
	kind string
	what string
}

func rulePanicSites(p *Program, r *Reporter) {
	a := needAnchors(p, r)
	if a == nil {
		return
	}
	roots := []*ssa.Function{a.prepare, a.dump, a.evalNew, a.run}
	for _, fn := range p.LibFns {
		if fn.Parent() == nil && recvNamed(fn, "", "Eval") && fn != a.execute && fn.Object() != nil && fn.Object().Exported() {
			roots = append(roots, fn)
		}
	}
	var fns []*ssa.Function
	for f := range reachAvoiding(p, roots, a.execute) {
		if fnPkg(f) != nil && IsLibPath(fnPkg(f).Pkg.Path()) {
			fns = append(fns, f)
		}
	}
	sort.Slice(fns, func(i, j int) bool { return p.FnName(fns[i]) < p.FnName(fns[j]) })
	outsideRecover = map[*ssa.Function]bool{}
	for _, f := range fns {
		outsideRecover[f] = true
	}
	three, _, okLen := lengthTable(p)
	oc := p.Opcodes()
	counts := map[string]int{}
	proven, shaped := 0, 0
	for _, fn := range fns {
		pp := newPanicProver(p, fn)
		sortIdx := sortSuppliedIndices(fn)
		walkerCb := isWalkerCallback(fn)
		nth := map[string]int{}
		for _, b := range fn.Blocks {
			var facts []pedge
			gotFacts := false
			getFacts := func() []pedge {
				if !gotFacts {
					facts, gotFacts = pp.facts(b), true
				}
				return facts
			}
			for _, ins := range b.Instrs {
				kind, verdict, why := "", "", ""
				switch x := ins.(type) {
				case *ssa.IndexAddr:
					if k, ok := constInt(x.Index); ok {
						if at, isArr := deref(x.X.Type()).Underlying().(*types.Array); isArr && k >= 0 && k < at.Len() {
							continue
						}
					}
					kind = "index"
					verdict, why = pp.proveIndex(getFacts(), x.Index, x.X, sortIdx, walkerCb)
				case *ssa.Index:
					kind = "index"
					verdict, why = pp.proveIndex(getFacts(), x.Index, x.X, sortIdx, walkerCb)
				case *ssa.Lookup:
					if !isStringType(x.X.Type()) {
						continue
					}
					kind = "index"
					verdict, why = pp.proveIndex(getFacts(), x.Index, x.X, sortIdx, walkerCb)
				case *ssa.Slice:
					if x.Low == nil && x.High == nil && x.Max == nil {
						continue
					}
					kind = "slice"
					verdict, why = pp.proveSlice(getFacts(), x, walkerCb)
				case *ssa.TypeAssert:
					if x.CommaOk {
						continue
					}
					kind = "assert"
					verdict, why = proveAssert(p, fn, x, three, okLen, oc)
				case *ssa.BinOp:
					if (x.Op != token.QUO && x.Op != token.REM) || !isInt(x.X.Type()) {
						continue
					}
					if k, ok := constInt(x.Y); ok && k != 0 {
						continue
					}
					kind = "divide"
					verdict, why = pp.proveNonZero(x)
				case *ssa.Panic:
					kind = "panic"
					verdict, why = "fail", "an explicit panic outside the recover reaches the caller"
				case *ssa.MakeSlice:
					if _, ok := constInt(x.Len); ok {
						continue
					}
					kind = "make"
					if proveLE(getFacts(), lin{"", 0}, pp.canon(x.Len)) {
						verdict, why = "proven", "length is non-negative"
					} else {
						verdict, why = "fail", "make with a length that is not known to be non-negative"
					}
				default:
					continue
				}
				counts[kind]++
				nth[kind]++
				key := fmt.Sprintf("%s/%s %d cannot panic outside the recover", p.FnName(fn), kind, nth[kind])
				switch verdict {
				case "proven":
					proven++
					r.Ok(key, p.Pos(ins.Pos()), why)
				case "shape":
					shaped++
					r.OkNT(key, p.Pos(ins.Pos()), why)
				default:
					if kind == "panic" {
						r.Fail(key, p.Pos(ins.Pos()), why)
					} else {
						r.Undecided(key, p.Pos(ins.Pos()), why+" — this code runs outside Execute's recover (Prepare, Dump, Run's tail or an API method): if the operation can fail, the panic reaches the host")
					}
				}
			}
		}
	}
	r.Info(fmt.Sprintf("census: %v in %d functions reachable outside the recover; %d proven from dominating comparisons, %d recognised by shape", counts, len(fns), proven, shaped), "-", "")
}

// reachAvoiding: functions reachable from the roots without passing through avoid.
func reachAvoiding(p *Program, roots []*ssa.Function, avoid *ssa.Function) map[*ssa.Function]bool {
	cg := p.CallGraph()
	seen := map[*ssa.Function]bool{}
	var stack []*ssa.Function
	for _, r := range roots {
		if r != nil && r != avoid && !seen[r] {
			seen[r] = true
			stack = append(stack, r)
		}
	}
	for len(stack) > 0 {
		x := stack[len(stack)-1]
		stack = stack[:len(stack)-1]
		for _, an := range x.AnonFuncs {
			if !seen[an] {
				seen[an] = true
				stack = append(stack, an)
			}
		}
		n := cg.Nodes[x]
		if n == nil {
			continue
		}
		for _, e := range n.Out {
			c := e.Callee.Func
			if c != avoid && !seen[c] {
				seen[c] = true
				stack = append(stack, c)
			}
		}
	}
	return seen
}

// sortSuppliedIndices: parameters that package sort supplies as valid indices:
// the (i, j) of a closure passed to sort.Slice / sort.SliceStable, and of
// Less / Swap methods of a type that also has Len.
func sortSuppliedIndices(fn *ssa.Function) map[ssa.Value]bool {
	out := map[ssa.Value]bool{}
	mark := func() {
		for _, pr := range fn.Params {
			if isInt(pr.Type()) {
				out[pr] = true
			}
		}
	}
	if fn.Parent() != nil {
		for _, b := range fn.Parent().Blocks {
			for _, ins := range b.Instrs {
				c, ok := ins.(*ssa.Call)
				if !ok || c.Call.StaticCallee() == nil {
					continue
				}
				full := calleeFullName(&c.Call)
				if full != "sort.Slice" && full != "sort.SliceStable" {
					continue
				}
				if mc, ok := c.Call.Args[1].(*ssa.MakeClosure); ok && mc.Fn == fn {
					mark()
				}
			}
		}
	}
	if recv := fn.Signature.Recv(); recv != nil && (fn.Name() == "Less" || fn.Name() == "Swap") {
		ms := types.NewMethodSet(recv.Type())
		if ms.Lookup(nil, "Len") != nil || ms.Lookup(fn.Pkg.Pkg, "Len") != nil {
			mark()
		}
	}
	return out
}

// isWalkerCallback: an anonymous function or method with the bytecode
// visitor's signature (offset int, opcode, operand interface{}) (bool, error).
func isWalkerCallback(fn *ssa.Function) bool {
	ps := fn.Signature.Params()
	n := ps.Len()
	if n < 3 || !isInt(ps.At(n-3).Type()) || !isOpcodeType(ps.At(n-2).Type()) {
		return false
	}
	if _, isIface := ps.At(n - 1).Type().Underlying().(*types.Interface); !isIface {
		return false
	}
	if n == 3 {
		return true
	}
	// a function that a walker callback hands its three arguments on to (with
	// something of its own in front): it sees what the callback sees
	return handedWalkerArgs(fn)
}

// handedWalkerArgs: every static call of fn sits in a walker callback and
// passes that callback's offset, opcode and operand as fn's last three
// arguments.
func handedWalkerArgs(fn *ssa.Function) bool {
	if fn.Prog == nil {
		return false
	}
	sites := 0
	np := len(fn.Params)
	for g := range ssautil.AllFunctions(fn.Prog) {
		if g.Pkg == nil || g.Pkg != fn.Pkg && (g.Parent() == nil || g.Parent().Pkg != fn.Pkg) {
			continue
		}
		for _, b := range g.Blocks {
			for _, ins := range b.Instrs {
				c, ok := staticCalleeIs(ins, fn)
				if !ok {
					continue
				}
				sites++
				gp := g.Signature.Params()
				if gp.Len() != 3 || !isInt(gp.At(0).Type()) || !isOpcodeType(gp.At(1).Type()) || len(g.Params) < 3 || len(c.Call.Args) != np {
					return false
				}
				gl := len(g.Params)
				for k := 1; k <= 3; k++ {
					if c.Call.Args[np-k] != ssa.Value(g.Params[gl-k]) {
						return false
					}
				}
			}
		}
	}
	return sites > 0
}

func (pp *panicProver) walkerOffset(v ssa.Value) (ssa.Value, int64, bool) {
	// the offset parameter (possibly captured, possibly +k)
	l := pp.canon(v)
	for _, pr := range pp.fn.Params {
		if isInt(pr.Type()) && pr == pp.fn.Params[firstIntParam(pp.fn)] && l.term == pr.Name() {
			return pr, l.off, true
		}
	}
	return nil, 0, false
}

func firstIntParam(fn *ssa.Function) int {
	for i, pr := range fn.Params {
		if isInt(pr.Type()) {
			return i
		}
	}
	return 0
}

func (pp *panicProver) proveIndex(facts []pedge, index, base ssa.Value, sortIdx map[ssa.Value]bool, walkerCb bool) (string, string) {
	idx := pp.canon(index)
	ln := pp.lenOf(base)
	lower := proveLE(facts, lin{"", 0}, idx) || pp.nonNegValue(index, 0)
	if b, ok := index.Type().Underlying().(*types.Basic); ok && b.Info()&types.IsUnsigned != 0 {
		lower = true
	}
	upper := proveLE(facts, idx, lin{ln.term, ln.off - 1})
	if lower && upper {
		return "proven", fmt.Sprintf("0 <= %s < %s from %d fact(s)", linStr(idx), linStr(ln), len(facts))
	}
	if sortIdx[index] {
		return "shape", "the index is the i or j that package sort hands to a Less/Swap function: within [0, Len())"
	}
	if why := pp.bytecodeShape(facts, index, base, walkerCb); why != "" {
		return "shape", why
	}
	if why := pp.positionParam(index, base); why != "" {
		return "shape", why
	}
	if why := pp.constRefShape(index, base); why != "" {
		return "shape", why
	}
	if why := pp.reportedIndex(index, base); why != "" {
		return "shape", why
	}
	if v, why := pp.atCallSites(idx, idx, base, "index"); v != "" {
		return v, why
	}
	return "fail", fmt.Sprintf("index %s into a value of length %s is not proven within bounds (lower %v, upper %v; %d fact(s))", linStr(idx), linStr(ln), lower, upper, len(facts))
}

func linStr(l lin) string {
	switch {
	case l.term == "":
		return fmt.Sprint(l.off)
	case l.off == 0:
		return l.term
	}
	return fmt.Sprintf("%s%+d", l.term, l.off)
}

func (pp *panicProver) proveSlice(facts []pedge, x *ssa.Slice, walkerCb bool) (string, string) {
	ln := pp.lenOf(x.X)
	lo, hi := lin{"", 0}, ln
	if x.Low != nil {
		lo = pp.canon(x.Low)
	}
	if x.High != nil {
		hi = pp.canon(x.High)
	}
	// a slice may be extended up to its capacity: x[:n] with n <= cap is legal.
	// Only the length is tracked, so that is what must be respected.
	ok1 := proveLE(facts, lin{"", 0}, lo)
	ok2 := proveLE(facts, lo, hi)
	ok3 := proveLE(facts, hi, ln)
	if ok1 && ok2 && ok3 {
		return "proven", fmt.Sprintf("0 <= %s <= %s <= %s", linStr(lo), linStr(hi), linStr(ln))
	}
	// operand bytes [pos+1 : pos+3] of an instruction at a valid position
	if isByteSlice(x.X.Type()) && lo.term == hi.term && lo.term != "" && lo.off == 1 && hi.off == 3 {
		pos := lin{lo.term, 0}
		if proveLE(facts, lin{"", 0}, pos) && proveLE(facts, pos, lin{ln.term, ln.off - 1}) {
			return "shape", "the two operand bytes after an opcode byte that is proven to lie inside the code: present for well-formed programs (the compiler emits whole instructions; operand presence per opcode is R-EMITLEN's subject)"
		}
	}
	if isByteSlice(x.X.Type()) && lo.term == hi.term && lo.term != "" && lo.off == 1 && hi.off == 3 && x.Low != nil && instructionOffset(pp.p, pp.fn, stripAddConst(x.Low)) {
		return "shape", "the two operand bytes after the start of an instruction handed out by the bytecode walker (directly, recorded, or handed in by every caller): present for well-formed programs (R-EMITLEN)"
	}
	if v, why := pp.atCallSites(lo, hi, x.X, "slice"); v != "" {
		return v, why
	}
	return "fail", fmt.Sprintf("slice bounds [%s:%s] of a value of length %s are not proven (0<=low %v, low<=high %v, high<=len %v)", linStr(lo), linStr(hi), linStr(ln), ok1, ok2, ok3)
}

// proveAssert: x.(T) without ok is safe when a dominating test fixes the type.
func proveAssert(p *Program, fn *ssa.Function, ta *ssa.TypeAssert, three map[string]bool, okLen bool, oc *opcodes) (string, string) {
	// (1) the operand of a bytecode visitor: non-nil exactly for 3-byte opcodes
	if isWalkerCallback(fn) && len(fn.Params) >= 3 && ta.X == ssa.Value(fn.Params[len(fn.Params)-1]) {
		operand := fn.Params[len(fn.Params)-1]
		opc := fn.Params[len(fn.Params)-2]
		if b, ok := ta.AssertedType.Underlying().(*types.Basic); !ok || b.Kind() != types.Int {
			return "fail", "the walker's operand is asserted to a type other than int"
		}
		for cur := ta.Block(); cur.Idom() != nil; cur = cur.Idom() {
			d := cur.Idom()
			iff, ok := terminator(d).(*ssa.If)
			if !ok {
				continue
			}
			onTrue := (d.Succs[0] == ta.Block() || d.Succs[0].Dominates(ta.Block())) && len(d.Succs[0].Preds) == 1
			onFalse := (d.Succs[1] == ta.Block() || d.Succs[1].Dominates(ta.Block())) && len(d.Succs[1].Preds) == 1
			// the opcode found in a table all of whose keys are opcodes with an
			// operand (a map literal that is never written)
			if ex, isEx := iff.Cond.(*ssa.Extract); isEx && ex.Index == 1 && onTrue && okLen {
				if lk, isLk := ex.Tuple.(*ssa.Lookup); isLk && stripConvSSA(lk.Index) == ssa.Value(opc) {
					if ld, isLd := lk.X.(*ssa.UnOp); isLd {
						if g, isG := ld.X.(*ssa.Global); isG {
							if keys, _, _, ok := globalMapLiteral(p, g); ok && len(keys) > 0 {
								all := true
								for _, k := range keys {
									kv, exact := constant.Int64Val(k)
									if k.Kind() != constant.Int || !exact || !three[oc.byVal[kv]] {
										all = false
									}
								}
								if all {
									return "shape", "dominated by a successful look-up of the opcode in " + g.Name() + ", a table that is never written and whose keys are all opcodes with an operand: the walker passes an int for those (code.Length agrees, R-EMITLEN)"
								}
							}
						}
					}
				}
			}
			bo, ok := iff.Cond.(*ssa.BinOp)
			if !ok {
				continue
			}
			// operand != nil
			if (bo.X == ssa.Value(operand) && isNilConst(bo.Y)) || (bo.Y == ssa.Value(operand) && isNilConst(bo.X)) {
				if (bo.Op == token.NEQ && onTrue) || (bo.Op == token.EQL && onFalse) {
					return "proven", "dominated by operand != nil"
				}
			}
			// opcode == a 3-byte opcode
			var other ssa.Value
			if stripConvSSA(bo.X) == ssa.Value(opc) {
				other = bo.Y
			} else if stripConvSSA(bo.Y) == ssa.Value(opc) {
				other = bo.X
			}
			if other != nil && okLen {
				name := oc.ssaName(other)
				if name != "" && three[name] && ((bo.Op == token.EQL && onTrue) || (bo.Op == token.NEQ && onFalse)) {
					return "shape", "dominated by opcode == " + name + ", an opcode with an operand: the walker passes an int for those (code.Length agrees, R-EMITLEN)"
				}
			}
		}
		// the same tests spread over several branches (`if op != A && op != B
		// { return }`): on every edge into the block, or into a block all of
		// whose paths lead here, one of the tests has succeeded
		if okLen && operandKnownAt(fn, ta.Block(), opc, operand, three, oc) {
			return "shape", "every path to the assertion passes a test that leaves only opcodes with an operand (or operand != nil): the walker passes an int for those (code.Length agrees, R-EMITLEN)"
		}
		return "fail", "the walker's operand is nil for one-byte opcodes and this assertion is not dominated by a test for an opcode with an operand or by operand != nil"
	}
	// (2) dominated by a successful comma-ok assertion or type switch of the same value to the same type
	for cur := ta.Block(); cur != nil; cur = cur.Idom() {
		for _, ins := range cur.Instrs {
			t2, ok := ins.(*ssa.TypeAssert)
			if !ok || t2 == ta || t2.X != ta.X || !types.Identical(t2.AssertedType, ta.AssertedType) || !dominatesInstr(t2, ta) {
				continue
			}
			if !t2.CommaOk {
				return "proven", "the same assertion already succeeded on every path here"
			}
		}
	}
	return "fail", "type assertion without ok to " + typeStr(ta.AssertedType) + " is not dominated by a test that fixes the dynamic type"
}

func stripConvSSA(v ssa.Value) ssa.Value {
	for {
		switch x := v.(type) {
		case *ssa.Convert:
			v = x.X
		case *ssa.ChangeType:
			v = x.X
		default:
			return v
		}
	}
}

// proveNonZero: the divisor is compared with zero and the division is on the non-zero side.
func (pp *panicProver) proveNonZero(bo *ssa.BinOp) (string, string) {
	div := bo.Y
	same := func(v ssa.Value) bool { return v == div || pp.canon(v) == pp.canon(div) && pp.canon(v).term != "" }
	for cur := bo.Block(); cur.Idom() != nil; cur = cur.Idom() {
		d := cur.Idom()
		iff, ok := terminator(d).(*ssa.If)
		if !ok {
			continue
		}
		c, ok := iff.Cond.(*ssa.BinOp)
		if !ok {
			continue
		}
		var k int64
		var kok bool
		if same(c.X) {
			k, kok = constInt(c.Y)
		} else if same(c.Y) {
			k, kok = constInt(c.X)
		}
		if !kok || k != 0 {
			continue
		}
		onTrue := (d.Succs[0] == bo.Block() || d.Succs[0].Dominates(bo.Block())) && len(d.Succs[0].Preds) == 1
		onFalse := (d.Succs[1] == bo.Block() || d.Succs[1].Dominates(bo.Block())) && len(d.Succs[1].Preds) == 1
		if (c.Op == token.EQL && onFalse) || (c.Op == token.NEQ && onTrue) {
			return "proven", "divisor compared with zero on the dominating path"
		}
	}
	return "fail", "integer division whose divisor is not known to be non-zero"
}

func isByteSlice(t types.Type) bool {
	if sl, ok := t.Underlying().(*types.Slice); ok {
		return isByteType(sl.Elem())
	}
	return false
}

// bytecodeShape recognises indexes into a byte slice that are bytecode
// positions: they are in bounds for well-formed code, which is the subject of
// the C18 rules, not of a local comparison.
func (pp *panicProver) bytecodeShape(facts []pedge, index, base ssa.Value, walkerCb bool) string {
	if !isByteSlice(base.Type()) {
		return ""
	}
	idx := pp.canon(index)
	ln := pp.lenOf(base)
	// (a) operand byte 1 or 2 after an opcode byte proven inside the code
	if idx.term != "" && (idx.off == 1 || idx.off == 2) {
		pos := lin{idx.term, 0}
		if proveLE(facts, lin{"", 0}, pos) && proveLE(facts, pos, lin{ln.term, ln.off - 1}) {
			return fmt.Sprintf("operand byte %d after an opcode byte that is proven to lie inside the code: present for well-formed programs (whole instructions are emitted; R-EMITLEN)", idx.off)
		}
	}
	// (e) a helper that is handed the offset of an instruction: at every one of
	// its call sites the argument is the walker's offset or a recorded offset
	if idx.term != "" && idx.off >= 0 && idx.off <= 2 {
		for i, prm := range pp.fn.Params {
			if prm.Name() != idx.term || !isInt(prm.Type()) {
				continue
			}
			sites, all := 0, true
			for _, g := range pp.p.LibFns {
				for _, b := range g.Blocks {
					for _, ins := range b.Instrs {
						c, ok := staticCalleeIs(ins, pp.fn)
						if !ok || i >= len(c.Call.Args) {
							continue
						}
						sites++
						if !instructionOffset(pp.p, g, c.Call.Args[i]) {
							all = false
						}
					}
				}
			}
			if sites > 0 && all {
				return fmt.Sprintf("parameter+%d, where the parameter is, at each of the %d call sites, the start of an instruction handed out by the bytecode walker (directly or recorded): within the code for well-formed programs (R-EMITLEN)", idx.off, sites)
			}
		}
	}
	// (c') a recorded or handed-in offset read outside a visitor
	if !walkerCb && idx.off >= 0 && idx.off <= 2 && instructionOffset(pp.p, pp.fn, stripAddConst(index)) {
		return fmt.Sprintf("offset+%d, where the offset is the start of an instruction handed out by the bytecode walker (recorded in a field that is only ever assigned such offsets, or handed in by every caller): within the code for well-formed programs (R-EMITLEN)", idx.off)
	}
	if !walkerCb {
		return ""
	}
	// (b) the walker's offset, the byte before it, or its operand bytes
	if pr := pp.walkerOffsetParam(); pr != nil {
		if idx.term == pr.Name() && idx.off >= -1 && idx.off <= 2 {
			if idx.off == -1 {
				return "offset-1, the one-byte instruction before the instruction the bytecode walker is visiting (the callback has seen a previous opcode on this path)"
			}
			return fmt.Sprintf("offset+%d, where offset is the start of an instruction handed out by the bytecode walker: within the code for well-formed programs (R-EMITLEN)", idx.off)
		}
		// (c) a recorded offset: a field that is only ever assigned the walker's offset
		if ld, ok := stripAddConst(index).(*ssa.UnOp); ok && ld.Op == token.MUL && idx.off >= 0 && idx.off <= 2 {
			if fa, ok := ld.X.(*ssa.FieldAddr); ok && positionField(pp.p, fa) {
				return fmt.Sprintf("recorded offset+%d: the field is only ever assigned the offset of an instruction handed out by the bytecode walker", idx.off)
			}
		}
		if f, ok := stripAddConst(index).(*ssa.Field); ok && idx.off >= 0 && idx.off <= 2 && positionFieldOf(pp.p, f.X.Type(), f.Field) {
			return fmt.Sprintf("recorded offset+%d: the field is only ever assigned the offset of an instruction handed out by the bytecode walker", idx.off)
		}
		// (d) a counter running from offset-1 up to the jump operand
		if ph, ok := index.(*ssa.Phi); ok {
			startOK, stepOK := false, true
			for _, e := range ph.Edges {
				l := pp.canon(e)
				switch {
				case l.term == pr.Name() && l.off >= -1:
					startOK = true
				case l.term == ph.Name() && l.off == 1:
				default:
					stepOK = false
				}
			}
			if startOK && stepOK && pp.guardedByOperand(ph, index) {
				return "a counter running from the visited instruction up to the target of its jump operand: inside the code when jumps land inside the body (R-PATCHALL, R-JUMPSET)"
			}
		}
	}
	return ""
}

// reportedIndex: the index is a result of a function of the same receiver that
// searched the same field and reports where it found something — on every
// return of that function whose last (boolean) result can be true the reported
// index is proven, there, to lie inside the field; and here the index is used
// only where that boolean was true, with no store to the field in between.
func (pp *panicProver) reportedIndex(index, base ssa.Value) string {
	ex, ok := index.(*ssa.Extract)
	if !ok {
		return ""
	}
	call, ok := ex.Tuple.(*ssa.Call)
	if !ok {
		return ""
	}
	g := call.Call.StaticCallee()
	if g == nil || len(g.Blocks) == 0 || g.Signature.Recv() == nil || pp.fn.Signature.Recv() == nil || len(call.Call.Args) == 0 || call.Call.Args[0] != ssa.Value(pp.fn.Params[0]) {
		return ""
	}
	rs := g.Signature.Results()
	if rs.Len() < 2 || !isBoolType(rs.At(rs.Len()-1).Type()) {
		return ""
	}
	// the field indexed here
	ld, ok := base.(*ssa.UnOp)
	if !ok || ld.Op != token.MUL {
		return ""
	}
	fa, ok := ld.X.(*ssa.FieldAddr)
	if !ok || fa.X != ssa.Value(pp.fn.Params[0]) {
		return ""
	}
	// used only where the boolean result was true
	var okv *ssa.Extract
	for _, ref := range *call.Referrers() {
		if e2, isEx := ref.(*ssa.Extract); isEx && e2.Index == rs.Len()-1 {
			okv = e2
		}
	}
	if okv == nil {
		return ""
	}
	guarded := false
	var useBlock *ssa.BasicBlock
	for _, ref := range *ex.Referrers() {
		if in, ok := ref.(ssa.Instruction); ok {
			useBlock = in.Block()
		}
	}
	for _, ref := range *okv.Referrers() {
		if iff, isIf := ref.(*ssa.If); isIf && useBlock != nil {
			t := iff.Block().Succs[0]
			if len(t.Preds) == 1 && (t == useBlock || t.Dominates(useBlock)) {
				guarded = true
			}
		}
	}
	if !guarded {
		return ""
	}
	// no store to the field in this function (the length is what the callee saw)
	for _, b := range pp.fn.Blocks {
		for _, ins := range b.Instrs {
			if st, ok := ins.(*ssa.Store); ok {
				if fa2, ok := st.Addr.(*ssa.FieldAddr); ok && fa2.Field == fa.Field && fa2.X == fa.X {
					return ""
				}
			}
		}
	}
	// in the callee: every return that can report success has the index in range
	gp := newPanicProver(pp.p, g)
	n := 0
	for _, b := range g.Blocks {
		ret, ok := terminator(b).(*ssa.Return)
		if !ok || len(ret.Results) != rs.Len() {
			continue
		}
		last := ret.Results[rs.Len()-1]
		if c, ok := last.(*ssa.Const); ok && c.Value != nil && c.Value.Kind() == constant.Bool && !constant.BoolVal(c.Value) {
			continue
		}
		n++
		// the callee's own view of the field
		var gbase ssa.Value
		for _, b2 := range g.Blocks {
			for _, ins := range b2.Instrs {
				if l2, ok := ins.(*ssa.UnOp); ok && l2.Op == token.MUL {
					if f2, ok := l2.X.(*ssa.FieldAddr); ok && f2.Field == fa.Field && f2.X == ssa.Value(g.Params[0]) && (l2.Block() == b || l2.Block().Dominates(b)) {
						gbase = l2
					}
				}
			}
		}
		if gbase == nil {
			return ""
		}
		if v, _ := gp.proveIndex(gp.facts(b), ret.Results[ex.Index], gbase, nil, false); v != "proven" {
			return ""
		}
	}
	if n == 0 {
		return ""
	}
	return fmt.Sprintf("the index %s reports for a successful search of the same field: proven inside it at each of its %d reporting return(s), and used here only where the search succeeded", g.Name(), n)
}

// instructionOffset: v (a value of fn) is the offset of an instruction as the
// bytecode walker hands it out: the offset parameter of a walker callback, or
// a field that is only ever assigned such an offset.
func instructionOffset(p *Program, fn *ssa.Function, v ssa.Value) bool {
	return instructionOffsetD(p, fn, v, 0)
}

func instructionOffsetD(p *Program, fn *ssa.Function, v ssa.Value, depth int) bool {
	if prm, ok := v.(*ssa.Parameter); ok && isWalkerCallback(fn) && isInt(prm.Type()) {
		for _, q := range fn.Params {
			if isInt(q.Type()) {
				return q == prm // the first int parameter is the offset
			}
		}
	}
	// handed in by the callers (direct calls only): such an offset at every one
	if prm, ok := v.(*ssa.Parameter); ok && isInt(prm.Type()) && depth < 3 && fn.Parent() == nil && !functionUsedAsValue(p, fn) {
		k := -1
		for i, q := range fn.Params {
			if q == prm {
				k = i
			}
		}
		sites := staticCallSites(p, fn)
		if k < 0 || len(sites) == 0 {
			return false
		}
		for _, site := range sites {
			args := site.Common().Args
			if k >= len(args) || site.Parent() == nil || !instructionOffsetD(p, site.Parent(), args[k], depth+1) {
				return false
			}
		}
		return true
	}
	if ld, ok := v.(*ssa.UnOp); ok && ld.Op == token.MUL {
		if fa, ok := ld.X.(*ssa.FieldAddr); ok && positionField(p, fa) {
			return true
		}
	}
	if f, ok := v.(*ssa.Field); ok && positionFieldOf(p, f.X.Type(), f.Field) {
		return true
	}
	return false
}

func stripAddConst(v ssa.Value) ssa.Value {
	for {
		switch x := v.(type) {
		case *ssa.BinOp:
			if _, ok := constInt(x.Y); ok && (x.Op == token.ADD || x.Op == token.SUB) {
				v = x.X
				continue
			}
			if _, ok := constInt(x.X); ok && x.Op == token.ADD {
				v = x.Y
				continue
			}
		case *ssa.Convert:
			v = x.X
			continue
		}
		return v
	}
}

func (pp *panicProver) walkerOffsetParam() *ssa.Parameter {
	if !isWalkerCallback(pp.fn) {
		return nil
	}
	for _, pr := range pp.fn.Params {
		if isInt(pr.Type()) {
			return pr
		}
	}
	return nil
}

// guardedByOperand: the phi is compared (<) with the walker's operand on the
// loop's continuation edge.
func (pp *panicProver) guardedByOperand(ph *ssa.Phi, index ssa.Value) bool {
	operand := pp.fn.Params[len(pp.fn.Params)-1]
	for _, ref := range *ph.Referrers() {
		bo, ok := ref.(*ssa.BinOp)
		if !ok || bo.Op != token.LSS || bo.X != ssa.Value(ph) {
			continue
		}
		if ta, ok := bo.Y.(*ssa.TypeAssert); ok && ta.X == ssa.Value(operand) {
			return true
		}
	}
	return false
}

// positionField: every store into the field assigns a bytecode walker's offset parameter.
func positionField(p *Program, fa *ssa.FieldAddr) bool {
	return positionFieldOf(p, fa.X.Type(), fa.Field)
}

func positionFieldOf(p *Program, t types.Type, field int) bool {
	n := 0
	for _, fn := range p.LibFns {
		for _, b := range fn.Blocks {
			for _, ins := range b.Instrs {
				st, ok := ins.(*ssa.Store)
				if !ok {
					continue
				}
				fa2, ok := st.Addr.(*ssa.FieldAddr)
				if !ok || fa2.Field != field || !types.Identical(deref(fa2.X.Type()), deref(t)) {
					continue
				}
				n++
				pr, ok := st.Val.(*ssa.Parameter)
				if !ok || !isWalkerCallback(fn) || !isInt(pr.Type()) || pr != firstIntParamOf(fn) {
					return false
				}
			}
		}
	}
	return n > 0
}

func firstIntParamOf(fn *ssa.Function) *ssa.Parameter {
	for _, pr := range fn.Params {
		if isInt(pr.Type()) {
			return pr
		}
	}
	return nil
}

// positionParam: the index is parameter+k (k = 1, 2) of a function every one of
// whose call sites passes the position returned by the emitter for an opcode
// with an operand (the back-patcher).
func (pp *panicProver) positionParam(index, base ssa.Value) string {
	if !isByteSlice(base.Type()) {
		return ""
	}
	idx := pp.canon(index)
	var prm *ssa.Parameter
	for _, pr := range pp.fn.Params {
		if pr.Name() == idx.term && isInt(pr.Type()) {
			prm = pr
		}
	}
	if prm == nil || idx.off < 0 || idx.off > 2 {
		return ""
	}
	a, _ := pp.p.Anchors()
	if a == nil || a.emit == nil {
		return ""
	}
	three, _, ok := lengthTable(pp.p)
	if !ok {
		return ""
	}
	oc := pp.p.Opcodes()
	pi := -1
	for i, pr := range pp.fn.Params {
		if pr == prm {
			pi = i
		}
	}
	sites := 0
	for _, fn := range pp.p.LibFns {
		for _, b := range fn.Blocks {
			for _, ins := range b.Instrs {
				c, ok := staticCalleeIs(ins, pp.fn)
				if !ok {
					continue
				}
				sites++
				if !emitPosition(pp.p, c.Call.Args[pi], a.emit, three, oc, 0) {
					return ""
				}
			}
		}
	}
	if sites == 0 {
		return ""
	}
	return fmt.Sprintf("position+%d where position is, at each of the %d call sites, what the emitter returned for an opcode with an operand (directly or through a list that only such positions are appended to): the three bytes were appended at that position", idx.off, sites)
}

// emitPosition: v is the result of emit(<3-byte opcode>, …), or an element of a
// slice that only such results are appended to.
func emitPosition(p *Program, v ssa.Value, emit *ssa.Function, three map[string]bool, oc *opcodes, depth int) bool {
	if depth > 6 {
		return false
	}
	switch x := v.(type) {
	case *ssa.Parameter:
		// handed in by the callers: every one of them must pass such a position
		f := x.Parent()
		idx := -1
		for i, q := range f.Params {
			if q == x {
				idx = i
			}
		}
		sites := 0
		for _, g := range p.LibFns {
			for _, b := range g.Blocks {
				for _, ins := range b.Instrs {
					c, ok := staticCalleeIs(ins, f)
					if !ok || idx < 0 || idx >= len(c.Call.Args) {
						continue
					}
					sites++
					if !emitPosition(p, c.Call.Args[idx], emit, three, oc, depth+1) {
						return false
					}
				}
			}
		}
		return sites > 0
	case *ssa.Call:
		if a, _ := p.Anchors(); a != nil {
			if e, ok := emitAt(p, a, x); ok && len(x.Call.Args) >= 2 && x.Call.Signature().Results().Len() == 1 {
				return three[e.op]
			}
			if src := handsBackPosition(p, a, x.Call.StaticCallee()); src != nil && x.Call.Signature().Results().Len() == 1 {
				return three[src.op]
			}
		}
	case *ssa.Extract:
		// the first result of a part of the compiler that hands back the
		// position of an instruction it emitted
		if cl, ok := x.Tuple.(*ssa.Call); ok && x.Index == 0 {
			if a, _ := p.Anchors(); a != nil {
				if src := handsBackPosition(p, a, cl.Call.StaticCallee()); src != nil {
					return three[src.op]
				}
			}
		}
	case *ssa.Phi:
		for _, e := range x.Edges {
			if !emitPosition(p, e, emit, three, oc, depth+1) {
				return false
			}
		}
		return len(x.Edges) > 0
	case *ssa.UnOp:
		if x.Op != token.MUL {
			return false
		}
		// element of a local slice: every append to it appends emit positions
		if ia, ok := x.X.(*ssa.IndexAddr); ok {
			return sliceOfEmitPositions(p, ia.X, emit, three, oc, depth+1, map[ssa.Value]bool{})
		}
	}
	return false
}

func sliceOfEmitPositions(p *Program, s ssa.Value, emit *ssa.Function, three map[string]bool, oc *opcodes, depth int, seen map[ssa.Value]bool) bool {
	if depth > 8 || seen[s] {
		return seen[s]
	}
	seen[s] = true
	switch x := s.(type) {
	case *ssa.Phi:
		for _, e := range x.Edges {
			if !sliceOfEmitPositions(p, e, emit, three, oc, depth+1, seen) {
				return false
			}
		}
		return true
	case *ssa.Const:
		return x.IsNil()
	case *ssa.Slice:
		return sliceOfEmitPositions(p, x.X, emit, three, oc, depth+1, seen)
	case *ssa.Alloc:
		// an array literal or the argument array of a variadic call: every
		// element stored is such a position (none for []int{})
		for _, ref := range *x.Referrers() {
			if ia, ok := ref.(*ssa.IndexAddr); ok {
				for _, r2 := range *ia.Referrers() {
					if st, ok := r2.(*ssa.Store); ok && st.Addr == ssa.Value(ia) && !emitPosition(p, st.Val, emit, three, oc, depth+1) {
						return false
					}
				}
			}
		}
		return true
	case *ssa.Parameter:
		// a list handed in by the callers: every one of them passes such a list
		f := x.Parent()
		idx := -1
		for i, q := range f.Params {
			if q == x {
				idx = i
			}
		}
		sites := 0
		for _, site := range staticCallSites(p, f) {
			args := site.Common().Args
			if idx < 0 || idx >= len(args) {
				return false
			}
			sites++
			if !sliceOfEmitPositions(p, args[idx], emit, three, oc, depth+1, seen) {
				return false
			}
		}
		return sites > 0
	case *ssa.MakeSlice:
		return true
	case *ssa.Call:
		if ap, ok := isBuiltinCall(x, "append"); ok {
			if !sliceOfEmitPositions(p, ap.Call.Args[0], emit, three, oc, depth+1, seen) {
				return false
			}
			vals, known := varargsOf(ap.Call.Args[1])
			if !known {
				return false
			}
			for _, v := range vals {
				if !emitPosition(p, v, emit, three, oc, depth+1) {
					return false
				}
			}
			return true
		}
	}
	return false
}

// constRefShape: the index is the walker's operand in a visitor, the table is a
// slice of objects, and the site is dominated by a test that the opcode is one
// whose operand the compiler always takes from the constant pool (R-CONSTREF).
func (pp *panicProver) constRefShape(index, base ssa.Value) string {
	sl, ok := base.Type().Underlying().(*types.Slice)
	if !ok || !isObjectIface(sl.Elem()) {
		return ""
	}
	if why := constRefAt(pp.p, pp.fn, index); why != "" {
		return why
	}
	// the index is a parameter: every caller is a visitor that passes the
	// operand of a constant-referencing instruction, for the same receiver
	prm, ok := index.(*ssa.Parameter)
	if !ok || prm.Parent() != pp.fn || pp.fn.Signature.Recv() == nil {
		return ""
	}
	ld, ok := base.(*ssa.UnOp)
	if !ok {
		return ""
	}
	fa, ok := ld.X.(*ssa.FieldAddr)
	if !ok || fa.X != ssa.Value(pp.fn.Params[0]) {
		return ""
	}
	k := -1
	for i, q := range pp.fn.Params {
		if q == prm {
			k = i
		}
	}
	return constRefParam(pp.p, pp.fn, k, 0)
}

// constRefParam: parameter k of the method fn only ever receives the operand
// of an instruction that refers to a constant, for the evaluator fn is called
// on: at every direct call the argument is such an operand in a visitor, or
// the caller's own parameter of which the same holds; or fn is only stored in
// a table of handlers keyed by opcode — under opcodes that refer to constants
// only — and the one place that calls through the table is a visitor that
// looks its own opcode up and hands its own operand over.
func constRefParam(p *Program, fn *ssa.Function, k int, depth int) string {
	if depth > 3 || k < 0 {
		return ""
	}
	refs := constRefOpcodes(p)
	oc := p.Opcodes()
	// (the wrapper go/ssa makes for a method expression stands for the method)
	target := fn
	if fnPkg(fn) == nil && fn.Synthetic != "" {
		for _, fb := range fn.Blocks {
			for _, fi := range fb.Instrs {
				if c2 := callOf(fi); c2 != nil && c2.StaticCallee() != nil {
					target = c2.StaticCallee()
				}
			}
		}
	}
	if functionUsedAsValue(p, fn) || target != fn {
		fn := target
		// stored in handler tables only?
		n := 0
		for _, g := range handlerTablesHolding(p, fn) {
			keys, ok := g.keysOf[fn]
			if !ok || len(keys) == 0 {
				return ""
			}
			for _, kv := range keys {
				if !refs[oc.byVal[kv]] {
					return ""
				}
			}
			// the calls through this table
			calls := 0
			for _, h := range p.LibFns {
				for _, b := range h.Blocks {
					for _, ins := range b.Instrs {
						c, ok := ins.(*ssa.Call)
						if !ok || c.Call.StaticCallee() != nil || c.Call.IsInvoke() {
							continue
						}
						tg, _, ok := moduleFuncTable(p, c.Call.Value)
						if !ok || tg != g.global {
							continue
						}
						calls++
						if !isWalkerCallback(h) || k >= len(c.Call.Args) {
							return ""
						}
						// looked up under the visitor's own opcode …
						var lk *ssa.Lookup
						switch x := c.Call.Value.(type) {
						case *ssa.Extract:
							lk, _ = x.Tuple.(*ssa.Lookup)
						case *ssa.Lookup:
							lk = x
						}
						if lk == nil || stripConvSSA(lk.Index) != ssa.Value(h.Params[len(h.Params)-2]) {
							return ""
						}
						// … and handed the visitor's own operand, for the same evaluator
						ta, ok := c.Call.Args[k].(*ssa.TypeAssert)
						if !ok || ta.X != ssa.Value(h.Params[len(h.Params)-1]) {
							return ""
						}
						if len(h.Params) == 0 || (c.Call.Args[0] != ssa.Value(h.Params[0])) {
							if fv, isFV := c.Call.Args[0].(*ssa.FreeVar); !isFV || fv == nil {
								return ""
							}
						}
					}
				}
			}
			if calls == 0 {
				return ""
			}
			n++
		}
		if n == 0 {
			return ""
		}
		return "the operand of an instruction whose opcode is a key of the handler table this function is stored under, all of which take their operand from the constant pool's own index (R-CONSTREF)"
	}
	sites, why := 0, ""
	for g := range ssautil.AllFunctions(fn.Prog) {
		for _, b := range g.Blocks {
			for _, ins := range b.Instrs {
				c, ok := staticCalleeIs(ins, fn)
				if !ok {
					continue
				}
				sites++
				if len(g.Params) == 0 || c.Call.Args[0] != ssa.Value(g.Params[0]) || k >= len(c.Call.Args) {
					return ""
				}
				w := constRefAt(p, g, c.Call.Args[k])
				if w == "" {
					// the caller's own parameter, of which the same must hold
					if gp, isP := c.Call.Args[k].(*ssa.Parameter); isP && gp.Parent() == g {
						for i, q := range g.Params {
							if q == gp {
								w = constRefParam(p, g, i, depth+1)
							}
						}
					}
				}
				if w == "" {
					return ""
				}
				why = w
			}
		}
	}
	if sites == 0 {
		return ""
	}
	return fmt.Sprintf("at each of its %d call site(s) the index is %s", sites, why)
}

// handlerTable: a package-level map from opcode to handler function, with the
// keys each function is stored under.
type handlerTable struct {
	global *ssa.Global
	keysOf map[*ssa.Function][]int64
}

// handlerTablesHolding: the opcode-keyed handler tables whose initialisation
// stores fn (directly, or as the wrapper go/ssa makes for a method
// expression); nil if fn is referred to as a value anywhere else.
func handlerTablesHolding(p *Program, fn *ssa.Function) []handlerTable {
	resolve := func(v ssa.Value) *ssa.Function {
		if ct, ok := v.(*ssa.ChangeType); ok {
			v = ct.X
		}
		var f *ssa.Function
		switch x := v.(type) {
		case *ssa.Function:
			f = x
		case *ssa.MakeClosure:
			f, _ = x.Fn.(*ssa.Function)
		}
		if f != nil && fnPkg(f) == nil && f.Synthetic != "" {
			for _, fb := range f.Blocks {
				for _, fi := range fb.Instrs {
					if c2 := callOf(fi); c2 != nil && c2.StaticCallee() != nil {
						f = c2.StaticCallee()
					}
				}
			}
		}
		return f
	}
	var out []handlerTable
	for _, pk := range p.SSA.AllPackages() {
		if pk.Pkg == nil || !IsLibPath(pk.Pkg.Path()) {
			continue
		}
		pi := pk.Func("init")
		if pi == nil {
			continue
		}
		stored := map[ssa.Value]*ssa.Global{}
		for _, b := range pi.Blocks {
			for _, ins := range b.Instrs {
				if st, ok := ins.(*ssa.Store); ok {
					if g, ok := st.Addr.(*ssa.Global); ok {
						stored[st.Val] = g
					}
				}
			}
		}
		tables := map[*ssa.Global]*handlerTable{}
		for _, b := range pi.Blocks {
			for _, ins := range b.Instrs {
				mu, ok := ins.(*ssa.MapUpdate)
				if !ok || resolve(mu.Value) != fn {
					continue
				}
				g := stored[mu.Map]
				kc, isC := mu.Key.(*ssa.Const)
				if g == nil || !isC || kc.Value == nil || kc.Value.Kind() != constant.Int || !isOpcodeType(kc.Type()) {
					return nil
				}
				if tables[g] == nil {
					tables[g] = &handlerTable{global: g, keysOf: map[*ssa.Function][]int64{}}
				}
				kv, _ := constant.Int64Val(kc.Value)
				tables[g].keysOf[fn] = append(tables[g].keysOf[fn], kv)
			}
		}
		for _, t := range tables {
			out = append(out, *t)
		}
	}
	// no reference to fn as a value outside those initialisers (p.Fns does not
	// contain them)
	for _, g := range p.Fns {
		for _, b := range g.Blocks {
			for _, ins := range b.Instrs {
				cc := callOf(ins)
				for _, op := range ins.Operands(nil) {
					if op == nil || *op == nil {
						continue
					}
					if resolve(*op) == fn && !(cc != nil && cc.Value == *op) {
						if _, isFn := (*op).(*ssa.Function); isFn || true {
							if f2, ok := (*op).(*ssa.Function); ok && f2 == fn && cc != nil && cc.Value == *op {
								continue
							}
							return nil
						}
					}
				}
			}
		}
	}
	return out
}

// constRefAt: in the visitor fn, index is the operand asserted to an integer
// under a test that the opcode is one whose operand the compiler takes from
// the constant pool.
func constRefAt(p *Program, fn *ssa.Function, index ssa.Value) string {
	if !isWalkerCallback(fn) {
		return ""
	}
	ta, ok := index.(*ssa.TypeAssert)
	operand := fn.Params[len(fn.Params)-1]
	if !ok || ta.X != ssa.Value(operand) {
		return ""
	}
	refs := constRefOpcodes(p)
	opc := fn.Params[len(fn.Params)-2]
	oc := p.Opcodes()
	var site ssa.Instruction = ta
	for cur := site.Block(); cur.Idom() != nil; cur = cur.Idom() {
		d := cur.Idom()
		iff, ok := terminator(d).(*ssa.If)
		if !ok {
			continue
		}
		onTrue := (d.Succs[0] == site.Block() || d.Succs[0].Dominates(site.Block())) && len(d.Succs[0].Preds) == 1
		bo, ok := iff.Cond.(*ssa.BinOp)
		if !ok || bo.Op != token.EQL || !onTrue {
			continue
		}
		var other ssa.Value
		if stripConvSSA(bo.X) == ssa.Value(opc) {
			other = bo.Y
		} else if stripConvSSA(bo.Y) == ssa.Value(opc) {
			other = bo.X
		}
		if other == nil {
			continue
		}
		if name := oc.ssaName(other); name != "" && refs[name] {
			return "the operand of " + name + ", which the compiler always takes from the constant pool's own index (R-CONSTREF): inside the table the program was compiled with"
		}
	}
	return ""
}

// ---------------------------------------------------------------------------
// R-CONSTREF

func init() {
	register(&Rule{ID: "R-CONSTREF", Floor: 8, Run: ruleConstRef,
		Text: "Every instruction whose handler uses its operand as an index into the constant table (push constant, lookup, increment, decrement) is emitted with an operand that is the index the constant pool itself returned for the value just added: a constant reference always names an existing constant."})
}

var constRefCache map[string]bool

// constRefOpcodes: opcodes in whose interpreter case the constant table is indexed.
func constRefOpcodes(p *Program) map[string]bool {
	if constRefCache != nil {
		return constRefCache
	}
	out := map[string]bool{}
	a, _ := p.Anchors()
	if a == nil || a.vmRun == nil {
		return out
	}
	for _, b := range a.vmRun.Blocks {
		for _, ins := range b.Instrs {
			ia, ok := ins.(*ssa.IndexAddr)
			if !ok {
				continue
			}
			ld, ok := ia.X.(*ssa.UnOp)
			if !ok || fieldKey(ld.X) != "vm.VM.constants" {
				continue
			}
			label := outerCase(p, a.vmRun, ia.Pos())
			for _, part := range strings.Split(strings.TrimPrefix(label, "case "), ",") {
				part = strings.TrimSpace(part)
				if i := strings.LastIndex(part, "."); i >= 0 {
					part = part[i+1:]
				}
				if strings.HasPrefix(part, "Op") {
					out[part] = true
				}
			}
		}
	}
	constRefCache = out
	return out
}

func ruleConstRef(p *Program, r *Reporter) {
	a := needAnchors(p, r)
	if a == nil {
		return
	}
	refs := constRefOpcodes(p)
	if len(refs) == 0 {
		r.Undecided("constant-referencing opcodes", "-", "no interpreter case indexes the constant table")
		return
	}
	oc := p.Opcodes()
	var names []string
	for n := range refs {
		names = append(names, n)
	}
	sort.Strings(names)
	r.OkNT("opcodes whose operand indexes the constant table: "+strings.Join(names, ", "), "-", "read from the interpreter's cases")
	for _, fn := range p.LibFns {
		for _, b := range fn.Blocks {
			for _, ins := range b.Instrs {
				c, ok := staticCalleeIs(ins, a.emit)
				if !ok || len(c.Call.Args) < 3 {
					continue
				}
				name := oc.ssaName(c.Call.Args[1])
				if !refs[name] {
					continue
				}
				key := siteKey(p, fn, c.Pos(), "operand of "+name+" is an index returned by the constant pool")
				vals, known := varargsOf(c.Call.Args[2])
				good := known && len(vals) == 1
				if good {
					good = false
					for _, o := range origins(vals[0]) {
						if oc2, ok := o.(*ssa.Call); ok && oc2.Call.StaticCallee() == a.addConstant {
							good = true
						}
					}
					for _, o := range origins(vals[0]) {
						if oc2, ok := o.(*ssa.Call); !ok || oc2.Call.StaticCallee() != a.addConstant {
							good = false
						}
					}
				}
				r.Check(good, key, p.Pos(c.Pos()), "the operand is the result of the constant pool's add function", "the operand of an instruction that indexes the constant table is not the index the pool returned (a literal number, an index computed some other way): the reference can name a missing constant or one of the wrong kind, and Dump — outside the recover — indexes the table with it")
			}
		}
	}
}

// operandKnownAt: greatest fixpoint of "on entry to the block the visitor's
// operand is known to be present": true for a block when every edge into it
// either comes from a block where it is known or is the branch of a test
// (opcode == one with an operand, opcode != ... on the false side, operand !=
// nil) that establishes it.
func operandKnownAt(fn *ssa.Function, at *ssa.BasicBlock, opc, operand ssa.Value, three map[string]bool, oc *opcodes) bool {
	edgeImplies := func(from *ssa.BasicBlock, succIdx int) bool {
		iff, ok := terminator(from).(*ssa.If)
		if !ok {
			return false
		}
		bo, ok := iff.Cond.(*ssa.BinOp)
		if !ok {
			return false
		}
		if (bo.X == operand && isNilConst(bo.Y)) || (bo.Y == operand && isNilConst(bo.X)) {
			return (bo.Op == token.NEQ && succIdx == 0) || (bo.Op == token.EQL && succIdx == 1)
		}
		var other ssa.Value
		if stripConvSSA(bo.X) == opc {
			other = bo.Y
		} else if stripConvSSA(bo.Y) == opc {
			other = bo.X
		}
		if other == nil {
			return false
		}
		name := oc.ssaName(other)
		return name != "" && three[name] && ((bo.Op == token.EQL && succIdx == 0) || (bo.Op == token.NEQ && succIdx == 1))
	}
	known := map[*ssa.BasicBlock]bool{}
	for _, b := range fn.Blocks {
		known[b] = b != fn.Blocks[0]
	}
	for changed := true; changed; {
		changed = false
		for _, b := range fn.Blocks {
			if !known[b] {
				continue
			}
			for _, pd := range b.Preds {
				ok := known[pd]
				if !ok {
					for i, sc := range pd.Succs {
						if sc == b && edgeImplies(pd, i) {
							ok = true
						}
					}
					// both branches of the test lead to b: only one implies
					if len(pd.Succs) == 2 && pd.Succs[0] == pd.Succs[1] {
						ok = false
					}
				}
				if !ok {
					known[b] = false
					changed = true
					break
				}
			}
		}
	}
	return known[at]
}

// globalTableNonNeg: g is an array or slice written as a composite literal of
// non-negative integer constants (unlisted elements are zero) and never
// written afterwards.
func globalTableNonNeg(p *Program, g *ssa.Global) bool {
	if g.Object() == nil || g.Pkg == nil {
		return false
	}
	switch g.Object().Type().Underlying().(type) {
	case *types.Array, *types.Slice:
	default:
		return false
	}
	pk := p.ByPath[g.Pkg.Pkg.Path()]
	if pk == nil || !globalNeverWritten(p, g) {
		return false
	}
	for _, f := range pk.Syntax {
		for _, d := range f.Decls {
			gd, ok := d.(*ast.GenDecl)
			if !ok || gd.Tok != token.VAR {
				continue
			}
			for _, sp := range gd.Specs {
				vs := sp.(*ast.ValueSpec)
				for i, nm := range vs.Names {
					if pk.TypesInfo.Defs[nm] != g.Object() || i >= len(vs.Values) {
						continue
					}
					cl, ok := vs.Values[i].(*ast.CompositeLit)
					if !ok {
						return false
					}
					for _, el := range cl.Elts {
						v := el
						if kv, ok := el.(*ast.KeyValueExpr); ok {
							v = kv.Value
						}
						tv, has := pk.TypesInfo.Types[v]
						if !has || tv.Value == nil || tv.Value.Kind() != constant.Int || constant.Sign(tv.Value) < 0 {
							return false
						}
					}
					return true
				}
			}
		}
	}
	return false
}

// atCallSites: the position is a parameter of this function and the indexed
// value another; at every call site (the function is only ever called
// directly) the caller's comparisons put the position inside the value it
// hands over — for the operand bytes of an instruction, the opcode's position.
func (pp *panicProver) atCallSites(lo, hi lin, base ssa.Value, kind string) (string, string) {
	bprm, ok := base.(*ssa.Parameter)
	if !ok || lo.term == "" || lo.term != hi.term || pp.fn.Parent() != nil {
		return "", ""
	}
	pi, pb := -1, -1
	for i, prm := range pp.fn.Params {
		if prm.Name() == lo.term && isInt(prm.Type()) {
			pi = i
		}
		if prm == bprm {
			pb = i
		}
	}
	if pi < 0 || pb < 0 {
		return "", ""
	}
	// never used as a value
	for _, g := range pp.p.Fns {
		for _, b := range g.Blocks {
			for _, ins := range b.Instrs {
				for _, op := range ins.Operands(nil) {
					if *op == ssa.Value(pp.fn) {
						if cc := callOf(ins); cc == nil || cc.Value != ssa.Value(pp.fn) {
							return "", ""
						}
					}
				}
			}
		}
	}
	sites := staticCallSites(pp.p, pp.fn)
	if len(sites) == 0 {
		return "", ""
	}
	verdict := "proven"
	judged := 0
	for _, site := range sites {
		g := site.Parent()
		args := site.Common().Args
		if g == nil || pi >= len(args) || pb >= len(args) {
			return "", ""
		}
		if outsideRecover != nil && !outsideRecover[g] {
			continue // a call under Execute's recover: a panic there is turned into an error
		}
		judged++
		gp := newPanicProver(pp.p, g)
		facts := gp.facts(site.Block())
		pos := gp.canon(args[pi])
		ln := gp.lenOf(args[pb])
		nonNeg := gp.nonNegValue(args[pi], 0)
		within := func(l lin) bool {
			at := lin{pos.term, pos.off + l.off}
			lower := proveLE(facts, lin{"", 0}, at) || (nonNeg && l.off >= 0)
			return lower && proveLE(facts, at, lin{ln.term, ln.off - 1})
		}
		switch {
		case kind == "index" && within(lo):
		case kind == "slice" && within(lo) && within(lin{hi.term, hi.off - 1}):
		case isByteSlice(base.Type()) && within(lin{lo.term, 0}) && lo.off >= 0 && hi.off <= 3:
			// the operand bytes after an opcode byte that lies inside the code
			verdict = "shape"
		default:
			return "", ""
		}
	}
	if judged == 0 {
		return "", ""
	}
	if verdict == "shape" {
		return "shape", fmt.Sprintf("at each of the %d call site(s) the position handed over is proven to lie inside the code handed over; the operand bytes after it are present for well-formed programs (whole instructions are emitted; R-EMITLEN)", len(sites))
	}
	return "proven", fmt.Sprintf("at each of the %d call site(s) the caller's comparisons put the position inside the value it hands over", len(sites))
}

// outsideRecover: the functions R-PANICSITES judges (reachable from the API
// without passing through Execute); set by the rule.
var outsideRecover map[*ssa.Function]bool
