package main

import (
	"go/constant"
	"go/token"
	"sort"
	"strings"

	"golang.org/x/tools/go/ssa"
)

// A small path evaluator over SSA, for the cell-level rules.
//
// The value-level cells of the language ("!~ pushes false on a match") were
// first read off the shape of the source: a switch over the opcode with one
// clause per operator.  The same cell can be written in other shapes — a guard
// and a shared tail with a negation, a helper — without changing what is
// pushed.  pushOutcomes does not care about the shape: it walks the function
// under an assumption (this opcode, this result of the test), follows the
// branches the assumption decides, explores both sides of those it does not,
// and collects what is pushed on every path that ends in success.

// pathOutcome: what one path through a function pushes ("true", "false",
// "null", "other") in order, joined by commas; "error" for a path that returns
// a non-nil error; "?" when the walk gave up.
type pathOutcomes map[string]bool

func (po pathOutcomes) String() string {
	var ks []string
	for k := range po {
		ks = append(ks, k)
	}
	sort.Strings(ks)
	return "{" + strings.Join(ks, " | ") + "}"
}

// only reports whether every successful path has exactly this outcome.
func (po pathOutcomes) only(want string) bool {
	n := 0
	for k := range po {
		if k == "error" {
			continue
		}
		n++
		if k != want {
			return false
		}
	}
	return n > 0
}

func pushOutcomes(p *Program, fn *ssa.Function, env map[ssa.Value]constant.Value) pathOutcomes {
	return pathOutcomesWith(p, fn, env, nil)
}

// pathOutcomesWith: like pushOutcomes, with the events to collect given by the
// caller (nil: pushes of the singletons).
func pathOutcomesWith(p *Program, fn *ssa.Function, env map[ssa.Value]constant.Value, collect func(ssa.Instruction) (string, bool)) pathOutcomes {
	truth := map[*ssa.Global]string{}
	for obj, name := range singletonNames(p) {
		for _, pk := range p.SSA.AllPackages() {
			if g, ok := pk.Members[obj.Name()].(*ssa.Global); ok && g.Object() == obj {
				truth[g] = name
			}
		}
	}
	out := pathOutcomes{}
	steps := 0
	var walk func(b, prev *ssa.BasicBlock, env map[ssa.Value]constant.Value, pushed []string, visits map[*ssa.BasicBlock]int)
	walk = func(b, prev *ssa.BasicBlock, env map[ssa.Value]constant.Value, pushed []string, visits map[*ssa.BasicBlock]int) {
		steps++
		if steps > 20000 || visits[b] >= 3 {
			out["?"] = true
			return
		}
		visits[b]++
		defer func() { visits[b]-- }()
		// φ nodes take the value of the edge we came along
		local := env
		copied := false
		set := func(v ssa.Value, c constant.Value) {
			if !copied {
				local = map[ssa.Value]constant.Value{}
				for k, x := range env {
					local[k] = x
				}
				copied = true
			}
			local[v] = c
		}
		if prev != nil {
			idx := -1
			for i, pd := range b.Preds {
				if pd == prev {
					idx = i
				}
			}
			for _, ins := range b.Instrs {
				ph, ok := ins.(*ssa.Phi)
				if !ok {
					break
				}
				if idx >= 0 && idx < len(ph.Edges) {
					if c, ok := evalVal(ph.Edges[idx], local, 0); ok {
						set(ph, c)
					} else if copied || local[ph] != nil {
						set(ph, nil)
						delete(local, ph)
					}
				}
			}
		}
		for _, ins := range b.Instrs {
			if collect != nil {
				if what, ok := collect(ins); ok {
					pushed = append(append([]string{}, pushed...), what)
				}
			}
			switch x := ins.(type) {
			case *ssa.Call:
				if cal := x.Call.StaticCallee(); collect == nil && cal != nil && cal.Name() == "Push" && len(x.Call.Args) == 2 {
					what := "other"
					v := x.Call.Args[1]
					if mi, ok := v.(*ssa.MakeInterface); ok {
						v = mi.X
					}
					if ld, ok := v.(*ssa.UnOp); ok && ld.Op == token.MUL {
						if g, ok := ld.X.(*ssa.Global); ok && truth[g] != "" {
							what = truth[g]
						}
					}
					pushed = append(append([]string{}, pushed...), what)
				}
			case *ssa.Return:
				res := strings.Join(pushed, ",")
				if len(x.Results) > 0 {
					last := x.Results[len(x.Results)-1]
					if isErrorType(last.Type()) && !isNilConst(last) {
						res = "error"
					}
				}
				if res == "" {
					res = "nothing"
				}
				out[res] = true
				return
			case *ssa.Panic:
				out["error"] = true
				return
			case *ssa.If:
				if c, ok := evalVal(x.Cond, local, 0); ok && c.Kind() == constant.Bool {
					if constant.BoolVal(c) {
						walk(b.Succs[0], b, local, pushed, visits)
					} else {
						walk(b.Succs[1], b, local, pushed, visits)
					}
				} else {
					walk(b.Succs[0], b, local, pushed, visits)
					walk(b.Succs[1], b, local, pushed, visits)
				}
				return
			case *ssa.Jump:
				walk(b.Succs[0], b, local, pushed, visits)
				return
			}
		}
	}
	if len(fn.Blocks) > 0 {
		walk(fn.Blocks[0], nil, env, nil, map[*ssa.BasicBlock]int{})
	}
	return out
}

// loadsOfBooleanValue: the reads of the Value field of an object.Boolean in fn
// (the result of a test, as the function sees it).
func loadsOfBooleanValue(fn *ssa.Function) []ssa.Value {
	var out []ssa.Value
	for _, b := range fn.Blocks {
		for _, ins := range b.Instrs {
			ld, ok := ins.(*ssa.UnOp)
			if !ok || ld.Op != token.MUL {
				continue
			}
			if owner, fld, ok := fieldOf(ld.X); ok && owner != nil && owner.Obj().Name() == "Boolean" && fld == "Value" {
				out = append(out, ld)
			}
		}
	}
	return out
}
