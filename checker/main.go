package main

// evcheck — repository-specific static checker for skx/evalfilter.
//
//	evcheck -prop C13 -tier quick|thorough [-repo /repo] [-verif /verif]
//	evcheck -prop C13 -explain evidence/C13.violations.json
//	evcheck -rules R-ERRPROP,R-NILERR -repo DIR -json        (used for controls)
//
// Nothing here executes evalfilter: every verdict is computed from the
// type-checked syntax, go/cfg graphs, SSA form and the VTA call graph of the
// repository's current working tree.

import (
	"encoding/json"
	"flag"
	"fmt"
	"os"
	"path/filepath"
	"runtime/debug"
	"sort"
	"strconv"
	"strings"
	"time"
)

var allRules = map[string]*Rule{}

func register(r *Rule) {
	if _, dup := allRules[r.ID]; dup {
		panic("duplicate rule " + r.ID)
	}
	allRules[r.ID] = r
}

// runRules runs the named rules over p and returns all obligations.  A panic
// inside a rule is an undecided obligation (and so a failure), not a crash
// that might be mistaken for a pass.
func runRules(p *Program, ids []string) []Obligation {
	var out []Obligation
	for _, id := range ids {
		rule := allRules[id]
		if rule == nil {
			out = append(out, Obligation{Rule: id, Key: "rule-missing", Verdict: Undecided, Detail: "rule is not implemented"})
			continue
		}
		rep := &Reporter{rule: rule, prog: p}
		func() {
			defer func() {
				if e := recover(); e != nil {
					rep.Undecided("checker-panic", "-", fmt.Sprintf("rule panicked: %v\n%s", e, lastLines(string(debug.Stack()), 14)))
				}
			}()
			rule.Run(p, rep)
		}()
		n := 0
		for _, o := range rep.obls {
			if o.Verdict == OK || o.Verdict == Fail || o.Verdict == Undecided {
				n++
			}
		}
		if n < rule.Floor {
			rep.add(Undecided, "vacuous", "-", fmt.Sprintf("rule matched %d instances, fewer than its floor %d: the rule has gone blind or its anchors moved", n, rule.Floor), true)
		}
		out = append(out, rep.obls...)
	}
	return out
}

func lastLines(s string, n int) string {
	l := strings.Split(strings.TrimSpace(s), "\n")
	if len(l) > n {
		l = l[len(l)-n:]
	}
	return strings.Join(l, "\n")
}

type subResult struct {
	Config      string       `json:"config"`
	LoadError   string       `json:"load_error,omitempty"`
	Packages    int          `json:"packages"`
	Functions   int          `json:"functions"`
	Obligations []Obligation `json:"obligations"`
	WallS       float64      `json:"wall_s"`
}

func main() {
	prop := flag.String("prop", "", "property id (C01..C20)")
	tier := flag.String("tier", "quick", "quick or thorough")
	repo := flag.String("repo", "/repo", "repository root to analyse")
	verif := flag.String("verif", "/verif", "verification directory (known findings, evidence, mutants)")
	rulesFlag := flag.String("rules", "", "comma separated rule ids (sub-process mode)")
	asJSON := flag.Bool("json", false, "print obligations as JSON (sub-process mode)")
	cfgFlag := flag.String("config", "", "GOOS/GOARCH[/tags] for this load")
	explain := flag.String("explain", "", "print the failing obligations recorded in this violations file, re-evaluated on the current tree")
	list := flag.Bool("list", false, "list rules and properties")
	manifest := flag.Bool("manifest", false, "print MANIFEST.json generated from the property table")
	flag.Parse()
	if *manifest {
		printManifest()
		return
	}

	if *list {
		var ids []string
		for id := range allRules {
			ids = append(ids, id)
		}
		sort.Strings(ids)
		for _, id := range ids {
			fmt.Printf("%-18s floor=%-3d %s\n", id, allRules[id].Floor, allRules[id].Text)
		}
		for _, pr := range properties {
			fmt.Printf("%s %v\n", pr.ID, pr.Rules)
		}
		return
	}

	var cfg Config
	if *cfgFlag != "" {
		parts := strings.Split(*cfgFlag, "/")
		if len(parts) >= 2 {
			cfg.GOOS, cfg.GOARCH = parts[0], parts[1]
		}
		if len(parts) >= 3 {
			cfg.Tags = parts[2]
		}
	}

	// ---- sub-process mode: run some rules on some tree, dump JSON ----------
	if *asJSON {
		start := time.Now()
		ids := splitList(*rulesFlag)
		if len(ids) == 0 && *prop != "" {
			ids = propByID(*prop).Rules
		}
		res := subResult{Config: cfg.String()}
		p, err := Load(*repo, cfg)
		if err != nil {
			res.LoadError = err.Error()
		} else {
			res.Packages, res.Functions = len(p.Pkgs), len(p.Fns)
			res.Obligations = runRules(p, ids)
		}
		res.WallS = time.Since(start).Seconds()
		json.NewEncoder(os.Stdout).Encode(res)
		return
	}

	if *prop == "" {
		fmt.Fprintln(os.Stderr, "usage: evcheck -prop Cxx -tier quick|thorough")
		os.Exit(2)
	}
	pr := propByID(*prop)
	if pr == nil {
		fmt.Fprintf(os.Stderr, "unknown property %s\n", *prop)
		os.Exit(2)
	}
	if t := os.Getenv("VERIF_TIER"); t != "" && !flagSet("tier") {
		*tier = t
	}
	seed := 0
	if s := os.Getenv("VERIF_SEED"); s != "" {
		seed, _ = strconv.Atoi(s)
	}
	os.Exit(runProperty(pr, *tier, *repo, *verif, seed, *explain != ""))
}

func flagSet(name string) bool {
	set := false
	flag.Visit(func(f *flag.Flag) {
		if f.Name == name {
			set = true
		}
	})
	return set
}

func splitList(s string) []string {
	var out []string
	for _, f := range strings.Split(s, ",") {
		if f = strings.TrimSpace(f); f != "" {
			out = append(out, f)
		}
	}
	return out
}

// runProperty is the check for one property.  Exit status 0/1.
func runProperty(pr *Property, tier, repo, verif string, seed int, explain bool) int {
	start := time.Now()
	evPath := filepath.Join(verif, "evidence", pr.ID+".json")
	violPath := filepath.Join(verif, "evidence", pr.ID+".violations.json")
	os.Remove(violPath)

	known, kerr := LoadKnown(filepath.Join(verif, "known_findings.txt"))

	var obls []Obligation
	configs := []string{}
	var pkgs, fns, libfns int
	p, err := Load(repo, Config{})
	if err != nil {
		obls = append(obls, Obligation{Rule: "LOAD", Key: "load", Pos: "-", Verdict: Undecided, Detail: err.Error()})
	} else {
		pkgs, fns, libfns = len(p.Pkgs), len(p.Fns), len(p.LibFns)
		configs = append(configs, "default("+runtimeCfg()+")")
		obls = append(obls, runRules(p, pr.Rules)...)
		// untyped scan of every file, regardless of build constraints (§2.2)
		obls = append(obls, untypedScan(p, repo)...)
	}
	if kerr != nil {
		obls = append(obls, Obligation{Rule: "KNOWN", Key: "known_findings.txt", Pos: "-", Verdict: Undecided, Detail: kerr.Error()})
	}

	var controls []controlResult
	var negatives []negativeResult
	if tier == "thorough" && err == nil {
		p = nil // let the big program be collected before sub-processes run
		extra, cfgs := thoroughConfigs(pr, repo)
		obls = append(obls, extra...)
		configs = append(configs, cfgs...)
		var cobl []Obligation
		controls, cobl = runControls(pr, repo, verif)
		obls = append(obls, cobl...)
		negatives = runNegativeControls(pr, repo, verif)
	}

	// ---- reconcile with known findings ----------------------------------
	type kf struct {
		k    Known
		used bool
	}
	var kfs []*kf
	for _, k := range known {
		if k.Kind == "known" && k.Property == pr.ID {
			kfs = append(kfs, &kf{k: k})
		}
	}
	var violations []Obligation
	var knownPrinted []string
	nOK, nEval, nNT := 0, 0, 0
	ntKeys := map[string]bool{}
	for _, o := range obls {
		switch o.Verdict {
		case OK:
			nOK++
			nEval++
		case Fail, Undecided:
			nEval++
			matched := false
			if o.Verdict == Fail {
				for _, k := range kfs {
					if k.k.Rule == o.Rule && k.k.Key == o.Key {
						matched = true
						if !k.used {
							k.used = true
							msg := fmt.Sprintf("KNOWN-FINDING: property=%s rule=%s key=%s at %s :: %s", pr.ID, o.Rule, o.Key, o.Pos, k.k.What)
							fmt.Println(msg)
							knownPrinted = append(knownPrinted, msg)
						}
					}
				}
			}
			if !matched {
				violations = append(violations, o)
			}
		}
		if o.Nontrivial && o.Verdict != Info {
			if !ntKeys[o.Rule+"|"+o.Key] {
				ntKeys[o.Rule+"|"+o.Key] = true
				nNT++
			}
		}
	}
	var stale []string
	for _, k := range kfs {
		if !k.used {
			s := fmt.Sprintf("stale known finding (its obligation no longer fails): rule=%s key=%s", k.k.Rule, k.k.Key)
			stale = append(stale, s)
			fmt.Println("NOTE:", s)
		}
	}

	// ---- report -----------------------------------------------------------
	perRule := map[string][3]int{}
	for _, o := range obls {
		c := perRule[o.Rule]
		switch o.Verdict {
		case OK:
			c[0]++
		case Fail, Undecided:
			c[1]++
		default:
			c[2]++
		}
		perRule[o.Rule] = c
	}
	var ruleIDs []string
	for id := range perRule {
		ruleIDs = append(ruleIDs, id)
	}
	sort.Strings(ruleIDs)
	fmt.Printf("property %s (%s) tier=%s: %d packages, %d functions (%d library), configs=%v\n", pr.ID, pr.Title, tier, pkgs, fns, libfns, configs)
	ruleTexts := map[string]string{}
	floors := map[string]int{}
	for _, id := range ruleIDs {
		c := perRule[id]
		fmt.Printf("  %-18s ok=%-4d failing=%-3d info=%d\n", id, c[0], c[1], c[2])
		if r := allRules[id]; r != nil {
			ruleTexts[id] = r.Text
			floors[id] = r.Floor
		}
	}
	for _, c := range controls {
		fmt.Printf("  control %-28s %s %s\n", c.Name, c.Status, c.Detail)
	}

	ev := Evidence{
		PropertyID: pr.ID, Tier: tier, Seed: seed, Level: pr.Level,
		Assumptions: pr.Assumptions,
		Violations:  len(violations),
	}
	cov := map[string]interface{}{
		"explanation":            pr.Explanation,
		"not_decided":            pr.NotDecided,
		"obligations":            nEval,
		"discharged":             nOK,
		"evaluations":            nEval,
		"distinct_nontrivial":    nNT,
		"rule":                   "one obligation per (rule, construct) instance found in the current tree; non-trivial = the verdict needed a path, dominance, dataflow or call-graph argument rather than a table lookup; distinct = distinct (rule,key) pairs",
		"samples":                samplesOf(obls, 3),
		"rules":                  ruleTexts,
		"floors":                 floors,
		"per_rule":               perRule,
		"packages":               pkgs,
		"functions_analysed":     fns,
		"library_functions":      libfns,
		"configs":                configs,
		"known_findings_printed": knownPrinted,
		"stale_known_findings":   stale,
		"exhaustive":             false,
	}
	if len(controls) > 0 {
		cov["positive_controls"] = controls
	}
	if len(negatives) > 0 {
		silent, alarmed, skipped := 0, 0, 0
		for _, n := range negatives {
			switch n.Status {
			case "silent":
				silent++
			case "alarm":
				alarmed++
				fmt.Printf("  negative control %s: the property's rules report %d thing(s) on a behaviour-preserving refactoring (a defect of the checker, not of the repository): %s\n", n.Name, len(n.Alarms), strings.Join(n.Alarms, "; "))
			default:
				skipped++
			}
		}
		cov["negative_controls"] = map[string]interface{}{
			"what":    "behaviour-preserving refactorings under /verif/benign applied to a scratch copy: the property's rules must report nothing new",
			"silent":  silent,
			"alarmed": alarmed,
			"skipped": skipped,
			"results": negatives,
		}
	}
	if pr.Level == "proof" {
		cov["checker_cmd"] = "./run.sh " + pr.ID + " " + tier
		cov["trusted_base"] = pr.TrustedBase
	}
	ev.Coverage = cov
	ev.WallS = time.Since(start).Seconds()
	if err := writeJSON(evPath, ev); err != nil {
		fmt.Fprintln(os.Stderr, "cannot write evidence:", err)
		return 1
	}
	if len(violations) > 0 {
		writeJSON(violPath, map[string]interface{}{"property": pr.ID, "failing_obligations": violations, "rules": ruleTexts})
	}
	if explain || len(violations) > 0 {
		for _, v := range violations {
			fmt.Printf("FAILED %s %s\n    key:    %s\n    at:     %s\n    why:    %s\n    rule:   %s\n", v.Verdict, v.Rule, v.Key, v.Pos, strings.ReplaceAll(v.Detail, "\n", "\n            "), ruleTexts[v.Rule])
		}
	}

	if len(violations) > 0 {
		rel, _ := filepath.Rel(verif, violPath)
		fmt.Printf("VIOLATION property=%s replay=%s\n", pr.ID, rel)
		return 1
	}
	fmt.Printf("PASS property=%s obligations=%d discharged=%d known_findings=%d wall=%.1fs\n", pr.ID, nEval, nOK, len(knownPrinted), ev.WallS)
	return 0
}

func runtimeCfg() string {
	goos, goarch := os.Getenv("GOOS"), os.Getenv("GOARCH")
	if goos == "" {
		goos = "linux"
	}
	if goarch == "" {
		goarch = "amd64"
	}
	return goos + "/" + goarch
}
