package main

// SSA path and value-origin utilities shared by the rules.

import (
	"go/ast"
	"go/token"
	"go/types"
	"strings"

	"golang.org/x/tools/go/ssa"
)

// origins collects the leaf values a value may come from, following φ-nodes,
// conversions, loads of spilled locals and loads of slice elements (through
// append and varargs arrays).
func origins(v ssa.Value) []ssa.Value {
	var out []ssa.Value
	seen := map[ssa.Value]bool{}
	var val func(v ssa.Value)
	var elems func(v ssa.Value)
	val = func(v ssa.Value) {
		if v == nil || seen[v] {
			return
		}
		seen[v] = true
		switch x := v.(type) {
		case *ssa.Phi:
			for _, e := range x.Edges {
				val(e)
			}
		case *ssa.Convert:
			val(x.X)
		case *ssa.ChangeType:
			val(x.X)
		case *ssa.UnOp:
			if x.Op == token.MUL {
				switch a := x.X.(type) {
				case *ssa.IndexAddr:
					elems(a.X)
					return
				case *ssa.Alloc:
					n := 0
					for _, ref := range *a.Referrers() {
						if st, ok := ref.(*ssa.Store); ok && st.Addr == a {
							val(st.Val)
							n++
						}
					}
					if n > 0 {
						return
					}
				}
			}
			out = append(out, v)
		case *ssa.Extract:
			// element of a range/next tuple over a slice is not produced for
			// slices (go/ssa uses index loops); keep as leaf
			out = append(out, v)
		default:
			out = append(out, v)
		}
	}
	elems = func(v ssa.Value) {
		if v == nil || seen[v] {
			return
		}
		seen[v] = true
		switch x := v.(type) {
		case *ssa.Phi:
			for _, e := range x.Edges {
				elems(e)
			}
		case *ssa.Call:
			if b, ok := x.Call.Value.(*ssa.Builtin); ok && b.Name() == "append" {
				for _, a := range x.Call.Args {
					elems(a)
				}
			}
		case *ssa.Slice:
			elems(x.X)
		case *ssa.Alloc, *ssa.MakeSlice:
			for _, ref := range *x.(ssa.Value).Referrers() {
				if ia, ok := ref.(*ssa.IndexAddr); ok {
					for _, r2 := range *ia.Referrers() {
						if st, ok := r2.(*ssa.Store); ok && st.Addr == ia {
							val(st.Val)
						}
					}
				}
				if sl, ok := ref.(*ssa.Slice); ok && sl != v {
					// other slicings of the same array share elements
					_ = sl
				}
			}
		case *ssa.UnOp:
			if x.Op == token.MUL {
				if a, ok := x.X.(*ssa.Alloc); ok {
					for _, ref := range *a.Referrers() {
						if st, ok := ref.(*ssa.Store); ok && st.Addr == a {
							elems(st.Val)
						}
					}
				}
			}
		}
	}
	val(v)
	return out
}

// elemOrigins: the leaf values the elements of a slice may come from (through
// append, varargs arrays, φ and spilled locals).
func elemOrigins(v ssa.Value) []ssa.Value {
	var out []ssa.Value
	seen := map[ssa.Value]bool{}
	var elems func(v ssa.Value)
	elems = func(v ssa.Value) {
		if v == nil || seen[v] {
			return
		}
		seen[v] = true
		switch x := v.(type) {
		case *ssa.Phi:
			for _, e := range x.Edges {
				elems(e)
			}
		case *ssa.Call:
			if b, ok := x.Call.Value.(*ssa.Builtin); ok && b.Name() == "append" {
				for _, a := range x.Call.Args {
					elems(a)
				}
			}
		case *ssa.Slice:
			elems(x.X)
		case *ssa.Alloc, *ssa.MakeSlice:
			for _, ref := range *x.(ssa.Value).Referrers() {
				if ia, ok := ref.(*ssa.IndexAddr); ok {
					for _, r2 := range *ia.Referrers() {
						if st, ok := r2.(*ssa.Store); ok && st.Addr == ia {
							out = append(out, origins(st.Val)...)
						}
					}
				}
			}
		case *ssa.UnOp:
			if x.Op == token.MUL {
				if a, ok := x.X.(*ssa.Alloc); ok {
					for _, ref := range *a.Referrers() {
						if st, ok := ref.(*ssa.Store); ok && st.Addr == a {
							elems(st.Val)
						}
					}
				}
			}
		default:
			out = append(out, v) // a slice that comes from elsewhere (a parameter)
		}
	}
	elems(v)
	return out
}

// varargsOf returns the values passed in a variadic call's final slice
// argument (nil for none).
func varargsOf(v ssa.Value) (vals []ssa.Value, known bool) {
	switch x := v.(type) {
	case *ssa.Const:
		return nil, x.IsNil()
	case *ssa.Slice:
		al, ok := x.X.(*ssa.Alloc)
		if !ok {
			return nil, false
		}
		at, ok := deref(al.Type()).Underlying().(*types.Array)
		if !ok {
			return nil, false
		}
		vals = make([]ssa.Value, at.Len())
		for _, ref := range *al.Referrers() {
			ia, ok := ref.(*ssa.IndexAddr)
			if !ok {
				continue
			}
			idx, ok := constInt(ia.Index)
			if !ok {
				return nil, false
			}
			for _, r2 := range *ia.Referrers() {
				if st, ok := r2.(*ssa.Store); ok && st.Addr == ia {
					vals[idx] = st.Val
				}
			}
		}
		return vals, true
	}
	return nil, false
}

// walkForward explores every path starting after instruction `from`.  visit is
// called on each instruction; it returns stop=true to end that path.  atExit is
// called for paths that reach a Return (or Panic) instruction.
func walkForward(from ssa.Instruction, visit func(ssa.Instruction) (stop bool)) {
	b := from.Block()
	start := instrIndex(from) + 1
	seen := map[*ssa.BasicBlock]bool{}
	var walk func(b *ssa.BasicBlock, i int)
	walk = func(b *ssa.BasicBlock, i int) {
		for ; i < len(b.Instrs); i++ {
			if visit(b.Instrs[i]) {
				return
			}
		}
		for _, s := range b.Succs {
			if !seen[s] {
				seen[s] = true
				walk(s, 0)
			}
		}
	}
	walk(b, start)
}

// walkBackward explores every path ending just before instruction `to`.
func walkBackward(to ssa.Instruction, visit func(ssa.Instruction) (stop bool), atEntry func()) {
	b := to.Block()
	seen := map[*ssa.BasicBlock]bool{}
	var walk func(b *ssa.BasicBlock, i int)
	walk = func(b *ssa.BasicBlock, i int) {
		for ; i >= 0; i-- {
			if visit(b.Instrs[i]) {
				return
			}
		}
		if len(b.Preds) == 0 {
			if atEntry != nil {
				atEntry()
			}
			return
		}
		for _, pr := range b.Preds {
			if !seen[pr] {
				seen[pr] = true
				walk(pr, len(pr.Instrs)-1)
			}
		}
	}
	walk(b, instrIndex(to)-1)
}

// isSuccessReturn: a Return whose error result (last result of error type) is
// the nil constant — or a function without error result.
func isSuccessReturn(ret *ssa.Return) bool {
	fn := ret.Parent()
	rs := fn.Signature.Results()
	for i := rs.Len() - 1; i >= 0; i-- {
		if isErrorType(rs.At(i).Type()) {
			v := returnOperand(ret, i)
			return v == nil || isNilConst(v)
		}
	}
	return true
}

// returnOperand resolves the i-th result of a Return: for functions with
// named results and defers go/ssa returns loads of the result slots; the
// value stored last in the same block is what is returned.
func returnOperand(ret *ssa.Return, i int) ssa.Value {
	if i >= len(ret.Results) {
		return nil
	}
	v := ret.Results[i]
	if u, ok := v.(*ssa.UnOp); ok && u.Op == token.MUL {
		if al, ok := u.X.(*ssa.Alloc); ok {
			b := ret.Block()
			for j := len(b.Instrs) - 1; j >= 0; j-- {
				if st, ok := b.Instrs[j].(*ssa.Store); ok && st.Addr == al {
					return st.Val
				}
			}
			// stored in a dominating block: look at unique store
			var only ssa.Value
			n := 0
			for _, ref := range *al.Referrers() {
				if st, ok := ref.(*ssa.Store); ok && st.Addr == al {
					only = st.Val
					n++
				}
			}
			if n == 1 {
				return only
			}
		}
	}
	return v
}

// callExprAt finds the AST call expression whose '(' is at pos.
func callExprAt(fd ast.Node, pos token.Pos) *ast.CallExpr {
	var found *ast.CallExpr
	if fd == nil {
		return nil
	}
	ast.Inspect(fd, func(n ast.Node) bool {
		if ce, ok := n.(*ast.CallExpr); ok && ce.Lparen == pos {
			found = ce
			return false
		}
		return found == nil
	})
	return found
}

// outerCase returns the label of the outermost case clause (of a switch whose
// cases are types or opcode constants) containing pos: "case *ast.IfExpression".
func outerCase(p *Program, fn *ssa.Function, pos token.Pos) string {
	return outerCaseN(p, fn, pos, 3)
}

// outerCaseN is outerCase with at most max case expressions in the label (0: all).
func outerCaseN(p *Program, fn *ssa.Function, pos token.Pos, max int) string {
	root := fn
	for root.Parent() != nil {
		root = root.Parent()
	}
	fd := p.FuncDecl(root)
	if fd == nil || !pos.IsValid() {
		return ""
	}
	label := ""
	ast.Inspect(fd, func(n ast.Node) bool {
		if label != "" {
			return false
		}
		cc, ok := n.(*ast.CaseClause)
		if !ok || !(cc.Pos() <= pos && pos < cc.End()) {
			return true
		}
		if len(cc.List) == 0 {
			label = "default"
			return false
		}
		var parts []string
		for _, e := range cc.List {
			parts = append(parts, types.ExprString(e))
		}
		if max > 0 && len(parts) > max {
			parts = append(parts[:max], "…")
		}
		label = "case " + strings.Join(parts, ",")
		return false
	})
	return label
}

// callKey renders "call compile(node.Body)" for an SSA call, from syntax.
func callKey(p *Program, fn *ssa.Function, c ssa.CallInstruction) string {
	root := fn
	for root.Parent() != nil {
		root = root.Parent()
	}
	var syn ast.Node = root.Syntax()
	if ce := callExprAt(syn, c.Pos()); ce != nil {
		s := types.ExprString(ce)
		if len(s) > 70 {
			s = s[:67] + "..."
		}
		return "call " + s
	}
	if cal := c.Common().StaticCallee(); cal != nil {
		return "call " + cal.Name()
	}
	return "call <dynamic>"
}

// siteKey builds fn/case/call keys.
func siteKey(p *Program, fn *ssa.Function, pos token.Pos, what string) string {
	k := p.FnName(fn)
	if c := outerCase(p, fn, pos); c != "" {
		k += "/" + c
	}
	return k + "/" + what
}

// staticCalleeIs reports whether ins is a call (not defer/go) to fn.
func staticCalleeIs(ins ssa.Instruction, fn *ssa.Function) (*ssa.Call, bool) {
	c, ok := ins.(*ssa.Call)
	if !ok || fn == nil {
		return nil, false
	}
	return c, c.Call.StaticCallee() == fn
}
